import PilotaModel.Idl.WF
import PilotaModel.Lemmas.IdlExt
/-
  C15, lexical layer: blanks (whitespace runs and the three comment styles, merged the way
  `many1(alt((comment, multispace1)))` reads them), identifiers, keywords, literals, numbers.
-/
namespace Pilota.Idl

/-! ### "the rest starts with …" -/

/-- `r` is empty or its first character satisfies `f` -/
def hdP (f : Char → Bool) : List Char → Bool
  | [] => true
  | c :: _ => f c

@[simp] theorem hdP_nil (f) : hdP f [] = true := rfl
@[simp] theorem hdP_cons (f c r) : hdP f (c :: r) = f c := rfl

theorem hdP_append_of_ne {f} {a b : List Char} (h : a ≠ []) : hdP f (a ++ b) = hdP f a := by
  cases a with
  | nil => exact absurd rfl h
  | cons c a => rfl

theorem hdP_mono {f g : Char → Bool} (h : ∀ c, f c = true → g c = true) {r} (hr : hdP f r = true) : hdP g r = true := by
  cases r with
  | nil => rfl
  | cons c r => exact h c hr

/-- characters that can follow a word or a number in a rendered document: blank starters and
punctuation.  None is alphanumeric (ASCII or Unicode), `_`, `.`, `+`, `-`. -/
def isSepChar (c : Char) : Bool :=
  c == ' ' || c == '\t' || c == '\r' || c == '\n' || c == '/' || c == '#' || c == ',' || c == ';' ||
  c == ':' || c == '=' || c == '(' || c == ')' || c == '{' || c == '}' || c == '[' || c == ']' ||
  c == '<' || c == '>' || c == '"' || c == '\''

/-- what may follow a word -/
abbrev Sep (r : List Char) : Prop := hdP isSepChar r = true
/-- does not start a blank: not whitespace, not `/`, not `#` -/
def notBlankStart (c : Char) : Bool := !(isMultispace c || c == '/' || c == '#')
abbrev NB (r : List Char) : Prop := hdP notBlankStart r = true

theorem isSepChar_cases {c : Char} (h : isSepChar c = true) :
    c = ' ' ∨ c = '\t' ∨ c = '\r' ∨ c = '\n' ∨ c = '/' ∨ c = '#' ∨ c = ',' ∨ c = ';' ∨ c = ':' ∨ c = '=' ∨
    c = '(' ∨ c = ')' ∨ c = '{' ∨ c = '}' ∨ c = '[' ∨ c = ']' ∨ c = '<' ∨ c = '>' ∨ c = '"' ∨ c = '\'' := by
  simpa [isSepChar, or_assoc] using h

theorem sep_not {f : Char → Bool} (hf : ∀ c, isSepChar c = true → f c = false) {r} (h : Sep r) :
    hdP (fun c => !f c) r = true := by
  cases r with
  | nil => rfl
  | cons c r => simp [hf c h]

theorem sepChar_not_identChar (c : Char) (h : isSepChar c = true) : isIdentChar c = false := by
  rcases isSepChar_cases h with h | h | h | h | h | h | h | h | h | h | h | h | h | h | h | h | h | h | h | h <;> subst h <;> decide
theorem sepChar_not_annChar (c : Char) (h : isSepChar c = true) : (isIdentChar c || c == '.') = false := by
  rcases isSepChar_cases h with h | h | h | h | h | h | h | h | h | h | h | h | h | h | h | h | h | h | h | h <;> subst h <;> decide
theorem sepChar_not_alnumU (c : Char) (h : isSepChar c = true) : (isAlnumU c || c == '_') = false := by
  rcases isSepChar_cases h with h | h | h | h | h | h | h | h | h | h | h | h | h | h | h | h | h | h | h | h <;> subst h <;> decide
theorem sepChar_not_digit (c : Char) (h : isSepChar c = true) : isDecDigit c = false := by
  rcases isSepChar_cases h with h | h | h | h | h | h | h | h | h | h | h | h | h | h | h | h | h | h | h | h <;> subst h <;> decide

theorem Sep.noIdent {r} (h : Sep r) : hdP (fun c => !isIdentChar c) r = true := sep_not sepChar_not_identChar h
theorem Sep.noAnn {r} (h : Sep r) : hdP (fun c => !(isIdentChar c || c == '.')) r = true := sep_not sepChar_not_annChar h
theorem Sep.noAlnumU {r} (h : Sep r) : hdP (fun c => !(isAlnumU c || c == '_')) r = true := sep_not sepChar_not_alnumU h
theorem Sep.noDigit {r} (h : Sep r) : hdP (fun c => !isDecDigit c) r = true := sep_not sepChar_not_digit h

/-! ### list facts -/

theorem takeWhile_append_stop {f : Char → Bool} {a r : List Char} (ha : ∀ c ∈ a, f c = true)
    (hr : hdP (fun c => !f c) r = true) : (a ++ r).takeWhile f = a ∧ (a ++ r).dropWhile f = r := by
  induction a with
  | nil =>
    cases r with
    | nil => simp
    | cons c r => simp at hr; simp [hr]
  | cons c a ih =>
    have hc := ha c (by simp)
    have := ih (fun x hx => ha x (by simp [hx]))
    simp [hc, this]

theorem dropWhile_append_stop {f : Char → Bool} (t : List Char) {r : List Char}
    (hr : hdP (fun c => !f c) r = true) : (t ++ r).dropWhile f = t.dropWhile f ++ r := by
  induction t with
  | nil =>
    cases r with
    | nil => rfl
    | cons c r => simp at hr; simp [List.dropWhile, hr]
  | cons c t ih =>
    by_cases hc : f c <;> simp [List.dropWhile, hc, ih]

theorem take_append_length_sub (a r : List Char) : (a ++ r).take ((a ++ r).length - r.length) = a := by
  simp

/-! ### evaluation steps -/

theorem andThen_of_ok {α β} {p : P α} {f : α → P β} {s a r} (h : p s = .ok a r) : andThen p f s = f a r := by
  simp [andThen, h, PR.bind]
theorem andThen_of_err {α β} {p : P α} {f : α → P β} {s} (h : p s = .err) : andThen p f s = .err := by
  simp [andThen, h, PR.bind]
theorem skip_of_ok {α β} {p : P α} {q : P β} {s a r} (h : p s = .ok a r) : skip p q s = q r := andThen_of_ok h
theorem skip_of_err {α β} {p : P α} {q : P β} {s} (h : p s = .err) : skip p q s = .err := andThen_of_err h
theorem pmap_of_ok {α β} {p : P α} {f : α → β} {s a r} (h : p s = .ok a r) : pmap f p s = .ok (f a) r := by
  simp [pmap, h, PR.map, PR.bind]
theorem pmap_of_err {α β} {p : P α} {f : α → β} {s} (h : p s = .err) : pmap f p s = .err := by
  simp [pmap, h, PR.map, PR.bind]
theorem opt_of_ok {α} {p : P α} {s a r} (h : p s = .ok a r) : opt p s = .ok (some a) r := by simp [opt, h]
theorem opt_of_err {α} {p : P α} {s} (h : p s = .err) : opt p s = .ok none s := by simp [opt, h]
theorem alt_cons_of_ok {α} {p : P α} {ps : List (P α)} {s a r} (h : p s = .ok a r) : alt (p :: ps) s = .ok a r := by
  simp [alt, h]
theorem alt_cons_of_err {α} {p : P α} {ps : List (P α)} {s} (h : p s = .err) : alt (p :: ps) s = alt ps s := by
  simp [alt, h]
theorem ret_apply {α} (a : α) (s : List Char) : ret a s = .ok a s := rfl

/-! ### tag -/

@[simp] theorem tag_append (t r : List Char) : tag t (t ++ r) = .ok t r := by
  simp [tag, stripPrefix_append]

theorem tag_cons_ne {t c : Char} {ts r : List Char} (h : t ≠ c) : tag (t :: ts) (c :: r) = .err := by
  simp [tag, stripPrefix, h]

theorem tag_nil_err {t : Char} {ts : List Char} : tag (t :: ts) [] = .err := rfl

theorem tag_hd {t : Char} {ts r : List Char} (h : hdP (fun c => c != t) r = true) : tag (t :: ts) r = .err := by
  cases r with
  | nil => rfl
  | cons c r => simp at h; exact tag_cons_ne (fun e => h e.symm)

/-! ### blank text -/

def hdIs (ch : Char) : List Char → Bool
  | [] => false
  | d :: _ => d == ch

/-- `x` contains no `*/` -/
def noSS : List Char → Bool
  | [] => true
  | c :: r => !(c == '*' && hdIs '/' r) && noSS r

/-- inductive characterisation of a rendered blank: whitespace characters one at a time (adjacent
whitespace pieces merge in `multispace1`), line comments up to and including their newline, block
comments up to the first `*/`. -/
inductive BT : List Char → Prop
  | nil : BT []
  | ws (c : Char) (t : List Char) : isMultispace c = true → BT t → BT (c :: t)
  | line (x t : List Char) : (∀ c ∈ x, (c != '\n') = true) → BT t → BT ('/' :: '/' :: (x ++ '\n' :: t))
  | hash (x t : List Char) : (∀ c ∈ x, (c != '\n') = true) → BT t → BT ('#' :: (x ++ '\n' :: t))
  | block (x t : List Char) : noSS x = true → BT t → BT ('/' :: '*' :: (x ++ '*' :: '/' :: t))

theorem BT.append {a b : List Char} (ha : BT a) (hb : BT b) : BT (a ++ b) := by
  induction ha with
  | nil => exact hb
  | ws c t hc _ ih => exact BT.ws c _ hc ih
  | line x t hx _ ih => have := BT.line x _ hx ih; simpa using this
  | hash x t hx _ ih => have := BT.hash x _ hx ih; simpa using this
  | block x t hx _ ih => have := BT.block x _ hx ih; simpa using this

theorem BT.of_ws : ∀ (cs : List Char), (∀ c ∈ cs, isMultispace c = true) → BT cs
  | [], _ => BT.nil
  | c :: cs, h => BT.ws c cs (h c (by simp)) (BT.of_ws cs (fun x hx => h x (by simp [hx])))

theorem noSS_sanBlock : ∀ (b : Bool) (cs : List Char), noSS (sanBlock b cs) = true ∧
    (b = true → hdIs '/' (sanBlock b cs) = false)
  | _, [] => by simp [sanBlock, noSS, hdIs]
  | b, c :: r => by
    simp only [sanBlock]
    split
    · have := noSS_sanBlock true r
      exact ⟨this.1, fun _ => this.2 rfl⟩
    · rename_i h
      have ih := noSS_sanBlock (c == '*') r
      refine ⟨?_, ?_⟩
      · simp only [noSS, ih.1, Bool.and_true]
        by_cases hc : (c == '*') = true
        · have := ih.2 hc
          rw [hc] at this
          simp [hc, this]
        · simp [hc]
      · intro hb; subst hb
        simp at h
        simp [hdIs, h]

theorem BT.of_piece (p : Piece) : BT p.text := by
  cases p with
  | ws cs => exact BT.of_ws _ (by intro c hc; exact (List.mem_filter.mp hc).2)
  | line cs =>
    have := BT.line (cs.filter (fun c => c != '\n')) [] (by intro c hc; exact (List.mem_filter.mp hc).2) BT.nil
    simpa [Piece.text] using this
  | hash cs =>
    have := BT.hash (cs.filter (fun c => c != '\n')) [] (by intro c hc; exact (List.mem_filter.mp hc).2) BT.nil
    simpa [Piece.text] using this
  | block cs =>
    have := BT.block (sanBlock false cs) [] (noSS_sanBlock false cs).1 BT.nil
    simpa [Piece.text] using this

theorem BT.of_blankText : ∀ ps, BT (blankText ps)
  | [] => BT.nil
  | p :: ps => BT.append (BT.of_piece p) (BT.of_blankText ps)

theorem BT.of_blankText1 (ps : List Piece) : BT (blankText1 ps) ∧ blankText1 ps ≠ [] := by
  unfold blankText1
  split
  · exact ⟨BT.ws ' ' [] (by decide) BT.nil, by simp⟩
  · rename_i h; exact ⟨BT.of_blankText ps, by intro e; exact h e⟩

/-- a non-empty blank starts with a blank starter, so it may follow a word -/
theorem BT.sep_append {b r : List Char} (hb : BT b) (h : b ≠ [] ∨ Sep r) : Sep (b ++ r) := by
  cases hb with
  | nil => rcases h with h | h; exact absurd rfl h; exact h
  | ws c t hc _ =>
    simp only [List.cons_append, Sep, hdP_cons]
    simp [isMultispace] at hc
    rcases hc with ((h | h) | h) | h <;> subst h <;> decide
  | line x t _ _ => rfl
  | hash x t _ _ => rfl
  | block x t _ _ => rfl

theorem blankStart_cases {c : Char} (h : notBlankStart c = false) :
    c = ' ' ∨ c = '\t' ∨ c = '\r' ∨ c = '\n' ∨ c = '/' ∨ c = '#' := by
  have hb' : ¬c = ' ' → ¬c = '\t' → ¬c = '\r' → ¬c = '\n' → ¬c = '/' → c = '#' := by
    simpa [notBlankStart, isMultispace, or_assoc] using h
  by_cases h1 : c = ' '; · exact Or.inl h1
  by_cases h2 : c = '\t'; · exact Or.inr (Or.inl h2)
  by_cases h3 : c = '\r'; · exact Or.inr (Or.inr (Or.inl h3))
  by_cases h4 : c = '\n'; · exact Or.inr (Or.inr (Or.inr (Or.inl h4)))
  by_cases h5 : c = '/'; · exact Or.inr (Or.inr (Or.inr (Or.inr (Or.inl h5))))
  exact Or.inr (Or.inr (Or.inr (Or.inr (Or.inr (hb' h1 h2 h3 h4 h5)))))

theorem BT.head_blankStart {c : Char} {t : List Char} (h : BT (c :: t)) : notBlankStart c = false := by
  cases h with
  | ws _ _ hc _ => simp [notBlankStart, hc]
  | line _ _ _ _ => rfl
  | hash _ _ _ _ => rfl
  | block _ _ _ _ => rfl

/-- a property of every blank starter and of the head of `r` holds for the head of `b ++ r` -/
theorem BT.hdP_append {f : Char → Bool} {b r : List Char} (hb : BT b)
    (hf : ∀ c, notBlankStart c = false → f c = true) (hr : hdP f r = true) : hdP f (b ++ r) = true := by
  cases b with
  | nil => exact hr
  | cons c t => exact hf c hb.head_blankStart

theorem blankStart_not_identChar (c : Char) (h : notBlankStart c = false) : (!isIdentChar c) = true := by
  rcases blankStart_cases h with h | h | h | h | h | h <;> subst h <;> decide

/-! ### `blank` reads exactly a rendered blank -/

theorem findSub_noSS : ∀ (x r : List Char), noSS x = true →
    findSub ['*', '/'] (x ++ '*' :: '/' :: r) = some (x, '*' :: '/' :: r)
  | [], r, _ => by simp [findSub, stripPrefix]
  | c :: x, r, h => by
    simp only [noSS, Bool.and_eq_true, Bool.not_eq_true'] at h
    have ih := findSub_noSS x r h.2
    have hno : (stripPrefix ['*', '/'] (c :: (x ++ '*' :: '/' :: r))).isSome = false := by
      by_cases hc : c = '*'
      · subst hc
        cases x with
        | nil => simp [stripPrefix]
        | cons e x =>
          have : e ≠ '/' := by
            have := h.1; simp [hdIs] at this; exact this
          simp [stripPrefix, Ne.symm this]
      · simp [stripPrefix, Ne.symm hc]
    simp only [List.cons_append, findSub, hno, ih]
    simp

theorem BT.dropWhile_ws {t : List Char} (h : BT t) : BT (t.dropWhile isMultispace) := by
  induction h with
  | nil => exact BT.nil
  | ws c t hc _ ih => simpa [List.dropWhile, hc] using ih
  | line x t hx ht _ => simpa [List.dropWhile, isMultispace] using BT.line x t hx ht
  | hash x t hx ht _ => simpa [List.dropWhile, isMultispace] using BT.hash x t hx ht
  | block x t hx ht _ => simpa [List.dropWhile, isMultispace] using BT.block x t hx ht

/-- one round of `alt((comment, multispace1))` -/
def bl : P (List Char) := alt [comment, multispace1]

theorem NB.notWs {r} (h : NB r) : hdP (fun c => !isMultispace c) r = true :=
  hdP_mono (by intro c hc; simp [notBlankStart] at hc; simp [hc.1]) h

theorem bl_err {r : List Char} (h : NB r) : bl r = .err := by
  cases r with
  | nil => rfl
  | cons c r =>
    simp [NB, notBlankStart] at h
    obtain ⟨⟨h1, h2⟩, h3⟩ := h
    have e1 : '/' ≠ c := fun e => h2 e.symm
    have e2 : '#' ≠ c := fun e => h3 e.symm
    simp [bl, alt, comment, skip, andThen, tag, stripPrefix, e1, e2, PR.bind, multispace1, takeWhile1, h1]

theorem takeTill_line (x r : List Char) (hx : ∀ c ∈ x, (c != '\n') = true) :
    takeTill (fun c => c == '\n') (x ++ '\n' :: r) = .ok x ('\n' :: r) := by
  have := takeWhile_append_stop (f := fun c => !(c == '\n')) (a := x) (r := '\n' :: r)
    (by intro c hc; have := hx c hc; simpa using this) (by simp)
  simp [takeTill, takeWhile, this.1, this.2]

theorem bl_step {b r : List Char} (hb : BT b) (hne : b ≠ []) (hr : NB r) :
    ∃ a b', bl (b ++ r) = .ok a (b' ++ r) ∧ BT b' ∧ b'.length < b.length := by
  cases hb with
  | nil => exact absurd rfl hne
  | ws c t hc ht =>
    refine ⟨(c :: (t ++ r)).takeWhile isMultispace, t.dropWhile isMultispace, ?_, ht.dropWhile_ws, ?_⟩
    · have e1 : '/' ≠ c := by intro e; subst e; simp [isMultispace] at hc
      have e2 : '#' ≠ c := by intro e; subst e; simp [isMultispace] at hc
      have hd := dropWhile_append_stop (f := isMultispace) t hr.notWs
      simp [bl, alt, comment, skip, andThen, tag, stripPrefix, e1, e2, PR.bind, multispace1, takeWhile1, hc,
        List.dropWhile, hd]
    · have := (List.dropWhile_suffix (l := t) isMultispace).length_le
      simp; omega
  | line x t hx ht =>
    refine ⟨x, '\n' :: t, ?_, BT.ws '\n' t (by decide) ht, by simp; omega⟩
    simp [bl, alt, comment, skip, andThen, tag, stripPrefix, PR.bind, takeTill_line x (t ++ r) hx]
  | hash x t hx ht =>
    refine ⟨x, '\n' :: t, ?_, BT.ws '\n' t (by decide) ht, by simp; omega⟩
    simp [bl, alt, comment, skip, andThen, tag, stripPrefix, PR.bind, takeTill_line x (t ++ r) hx]
  | block x t hx ht =>
    refine ⟨x, t, ?_, ht, by simp; omega⟩
    have := findSub_noSS x (t ++ r) hx
    simp [bl, alt, comment, skip, andThen, terminated, pmap, PR.map, tag, stripPrefix, PR.bind, takeUntil, this]

theorem many0F_bl : ∀ (n : Nat) (b r : List Char), BT b → NB r → b.length + r.length < n →
    ∃ xs, many0F bl n (b ++ r) = .ok xs r
  | 0, _, _, _, _, h => by omega
  | n + 1, b, r, hb, hr, hn => by
    by_cases hne : b = []
    · subst hne; exact ⟨[], by simp [many0F, bl_err hr]⟩
    · obtain ⟨a, b', e, hb', hl⟩ := bl_step hb hne hr
      obtain ⟨xs, ih⟩ := many0F_bl n b' r hb' hr (by omega)
      refine ⟨a :: xs, ?_⟩
      have hlen : ¬ (b' ++ r).length = (b ++ r).length := by simp; omega
      simp only [many0F, e]
      rw [if_neg hlen, ih]; rfl

/-- `blank_any`: `blank` consumes any non-empty rendered blank, however its pieces were laid out,
provided what follows does not itself start a blank. -/
theorem blank_rt {b r : List Char} (hb : BT b) (hne : b ≠ []) (hr : NB r) : blank (b ++ r) = .ok () r := by
  obtain ⟨a, b', e, hb', _⟩ := bl_step hb hne hr
  obtain ⟨xs, h⟩ := many0F_bl ((b' ++ r).length + 1) b' r hb' hr (by simp)
  have e' : alt [comment, multispace1] (b ++ r) = .ok a (b' ++ r) := e
  have h' : many0F (alt [comment, multispace1]) ((b' ++ r).length + 1) (b' ++ r) = .ok xs r := h
  unfold blank pmap many1
  simp only [e', PR.bind, h']
  rfl

theorem blank_err {r : List Char} (hr : NB r) : blank r = .err := by
  have e : alt [comment, multispace1] r = .err := bl_err hr
  simp [blank, pmap, many1, e, PR.map, PR.bind]

/-- value of `opt(blank)` on a rendered optional blank -/
def optUnit (b : List Char) : Option Unit := if b = [] then none else some ()

theorem optBlank_rt {b r : List Char} (hb : BT b) (hr : NB r) : opt blank (b ++ r) = .ok (optUnit b) r := by
  by_cases hne : b = []
  · subst hne; simp [opt, blank_err hr, optUnit]
  · simp [opt, blank_rt hb hne hr, optUnit, hne]

theorem andThen_optBlank {α} {f : Option Unit → P α} {b r : List Char} (hb : BT b) (hr : NB r) :
    andThen (opt blank) f (b ++ r) = f (optUnit b) r := by
  simp [andThen, optBlank_rt hb hr, PR.bind]

theorem andThen_blank {α} {f : Unit → P α} {b r : List Char} (hb : BT b) (hne : b ≠ []) (hr : NB r) :
    andThen blank f (b ++ r) = f () r := by
  simp [andThen, blank_rt hb hne hr, PR.bind]

/-! ### identifiers and keywords -/

theorem identOk_cons {i : Ident} (h : identOk i = true) :
    ∃ c cs, i = c :: cs ∧ isIdentStart c = true ∧ ∀ x ∈ cs, isIdentChar x = true := by
  cases i with
  | nil => simp [identOk] at h
  | cons c cs =>
    simp only [identOk, Bool.and_eq_true, List.all_eq_true] at h
    exact ⟨c, cs, rfl, h.1, h.2⟩

theorem isIdentStart_identChar {c : Char} (h : isIdentStart c = true) : isIdentChar c = true := by
  simp only [isIdentStart, isIdentChar, Char.isAlphanum, Bool.or_eq_true] at *
  rcases h with h | h
  · exact Or.inl (Or.inl h)
  · exact Or.inr h

theorem identOk_all {i : Ident} (h : identOk i = true) : ∀ x ∈ i, isIdentChar x = true := by
  obtain ⟨c, cs, rfl, h1, h2⟩ := identOk_cons h
  intro x hx
  rcases List.mem_cons.mp hx with rfl | hx
  · exact isIdentStart_identChar h1
  · exact h2 x hx

theorem ident_ne_nil {i : Ident} (h : identOk i = true) : i ≠ [] := by
  obtain ⟨c, cs, rfl, _, _⟩ := identOk_cons h; simp

/-- `ident_rt` -/
theorem ident_rt {i r : List Char} (hi : identOk i = true) (hr : hdP (fun c => !isIdentChar c) r = true) :
    Ident.parse (i ++ r) = .ok i r := by
  obtain ⟨c, cs, rfl, h1, h2⟩ := identOk_cons hi
  have := takeWhile_append_stop (f := isIdentChar) (a := cs) (r := r) h2 hr
  simp only [Ident.parse, recognize, andThen, satisfy, List.cons_append, h1, if_true, PR.bind, takeWhile, this.1, this.2]
  congr 1
  have := take_append_length_sub (c :: cs) r
  simpa using this

theorem annKey_rt {k r : List Char} (hk : annKeyOk k = true)
    (hr : hdP (fun c => !(isIdentChar c || c == '.')) r = true) : annKey (k ++ r) = .ok k r := by
  cases k with
  | nil => simp [annKeyOk] at hk
  | cons c cs =>
    simp only [annKeyOk, Bool.and_eq_true, List.all_eq_true] at hk
    have := takeWhile_append_stop (f := fun c => isIdentChar c || c == '.') (a := cs) (r := r) hk.2 hr
    simp only [annKey, recognize, andThen, satisfy, List.cons_append, hk.1, if_true, PR.bind, takeWhile, this.1, this.2]
    congr 1
    have := take_append_length_sub (c :: cs) r
    simpa using this

theorem boundary_ok {r : List Char} (hr : hdP (fun c => !(isAlnumU c || c == '_')) r = true) :
    peek (pnot alnumOrUnderscore) r = .ok () r := by
  cases r with
  | nil => rfl
  | cons c r =>
    simp only [hdP_cons, Bool.not_eq_true'] at hr
    simp [peek, pnot, alnumOrUnderscore, satisfy, hr, PR.bind]

theorem boundary_err {c : Char} {r : List Char} (hc : isIdentChar c = true) :
    peek (pnot alnumOrUnderscore) (c :: r) = .err := by
  have : (isAlnumU c || c == '_') = true := by
    simp only [isIdentChar, Bool.or_eq_true] at hc ⊢
    rcases hc with hc | hc
    · left
      have hlt : c.toNat < 128 := by
        simp only [Char.isAlphanum, Char.isAlpha, Char.isUpper, Char.isLower, Char.isDigit, Bool.or_eq_true,
          Bool.and_eq_true, decide_eq_true_eq] at hc
        have : c.val.toNat = c.toNat := rfl
        rcases hc with (⟨_, h⟩ | ⟨_, h⟩) | ⟨_, h⟩ <;>
          (have := UInt32.le_iff_toNat_le.mp h; simp at this; omega)
      simp [isAlnumU, hlt, hc]
    · right; exact hc
  simp [peek, pnot, alnumOrUnderscore, satisfy, this, PR.bind]

/-- a keyword followed by a non-word character -/
theorem keyword_rt {α} {t : List Char} {v : α} {r : List Char} (hr : Sep r) :
    keyword t v (t ++ r) = .ok v r := by
  simp [keyword, andThen, PR.bind, boundary_ok hr.noAlnumU, ret]

/-- where a word `i` followed by a non-word character starts with the word `kw`, `kw` is a prefix of `i` -/
theorem prefix_of_word : ∀ (kw i r r' : List Char), (∀ c ∈ kw, isIdentChar c = true) →
    hdP (fun c => !isIdentChar c) r = true → i ++ r = kw ++ r' → ∃ m, i = kw ++ m ∧ r' = m ++ r
  | [], i, r, r', _, _, h => ⟨i, rfl, by simpa using h.symm⟩
  | k :: kw, [], r, r', hk, hr, h => by
    simp only [List.nil_append, List.cons_append] at h
    subst h
    have := hk k (by simp)
    simp [this] at hr
  | k :: kw, c :: i, r, r', hk, hr, h => by
    simp only [List.cons_append, List.cons.injEq] at h
    obtain ⟨rfl, h⟩ := h
    obtain ⟨m, rfl, rfl⟩ := prefix_of_word kw i r r' (fun x hx => hk x (by simp [hx])) hr h
    exact ⟨m, rfl, rfl⟩

/-- `tag(kw)` on a word: it fails, or the word continues after `kw` -/
theorem tag_word {kw i r : List Char} (hk : ∀ c ∈ kw, isIdentChar c = true)
    (hr : hdP (fun c => !isIdentChar c) r = true) :
    tag kw (i ++ r) = .err ∨ ∃ m, i = kw ++ m ∧ tag kw (i ++ r) = .ok kw (m ++ r) := by
  unfold tag
  cases h : stripPrefix kw (i ++ r) with
  | none => exact Or.inl rfl
  | some r' =>
    obtain ⟨m, e1, e2⟩ := prefix_of_word kw i r r' hk hr (stripPrefix_eq h)
    exact Or.inr ⟨m, e1, by simp [e2]⟩

/-- `keyword_prefix_ident`, the general form: a word that is not exactly the keyword is not read as
the keyword, whether it merely begins with it (`trueValue`, `i32x`, `optionalFoo`) or not. -/
theorem keyword_word_err {α} {kw : List Char} {v : α} {i r : List Char} (hk : ∀ c ∈ kw, isIdentChar c = true)
    (hi : ∀ c ∈ i, isIdentChar c = true) (hr : hdP (fun c => !isIdentChar c) r = true) (hne : i ≠ kw) :
    keyword kw v (i ++ r) = .err := by
  rcases tag_word (i := i) hk hr with h | ⟨m, e, h⟩
  · simp [keyword, andThen, h, PR.bind]
  · cases m with
    | nil => simp at e; exact absurd e hne
    | cons c m =>
      have hc : isIdentChar c = true := hi c (by simp [e])
      simp [keyword, andThen, h, PR.bind, boundary_err hc]

/-! ### literals -/

theorem escapedF_lit {normal esc : P Char} {q : Char} (hq : q ≠ '\\')
    (hn_ok : ∀ c r, c ≠ '\\' → c ≠ q → normal (c :: r) = .ok c r)
    (hn_err : ∀ c r, (c = '\\' ∨ c = q) → normal (c :: r) = .err)
    (he : ∀ e r, isEscapable e = true → esc (e :: r) = .ok e r) :
    ∀ (n : Nat) (t1 t2 r : List Char), litOk q t2 = true →
    (t1 ≠ [] ∨ t2 ≠ []) → t2.length + 1 + r.length < n →
    escapedF normal '\\' esc (t1 ++ (t2 ++ q :: r)) n (t2 ++ q :: r) = .ok (t1 ++ t2) (q :: r)
  | 0, _, _, _, _, _, h => by omega
  | n + 1, t1, t2, r, hl, hne, hn => by
    cases t2 with
    | nil =>
      have h1 : t1 ≠ [] := by rcases hne with h | h; exact h; exact absurd rfl h
      have hlen : ¬ (q :: r).length = (t1 ++ (q :: r)).length := by
        cases t1 with
        | nil => exact absurd rfl h1
        | cons a t1 => simp; omega
      have hq' : ¬ q = '\\' := hq
      have e0 : ¬ (q :: r).length = 0 := by simp
      simp only [List.nil_append, escapedF]
      rw [if_neg e0, hn_err q r (Or.inr rfl)]
      simp only
      rw [if_neg hq', if_neg hlen]
      simp
    | cons c t2 =>
      have e0 : ¬ (c :: t2 ++ q :: r).length = 0 := by simp
      by_cases hc : c = '\\'
      · subst hc
        cases t2 with
        | nil => simp [litOk] at hl
        | cons e t2 =>
          simp only [litOk, if_true, Bool.and_eq_true] at hl
          have ih := escapedF_lit hq hn_ok hn_err he n (t1 ++ ['\\', e]) t2 r hl.2 (Or.inl (by simp))
            (by simp at hn; omega)
          simp only [List.append_assoc, List.cons_append, List.nil_append] at ih
          have e1 : ¬ (e :: t2 ++ q :: r).length = 0 := by simp
          have e2 : ¬ (t2 ++ q :: r).length = 0 := by simp
          simp only [escapedF]
          rw [if_neg e0]
          simp only [List.cons_append] at e1 ⊢
          rw [hn_err '\\' _ (Or.inl rfl)]
          simp only [if_true]
          rw [if_neg e1, he e _ hl.1]
          simp only [PR.bind]
          rw [if_neg e2, ih]
      · unfold litOk at hl
        rw [if_neg hc] at hl
        simp only [Bool.and_eq_true, bne_iff_ne, ne_eq] at hl
        have ih := escapedF_lit hq hn_ok hn_err he n (t1 ++ [c]) t2 r hl.2 (Or.inl (by simp)) (by simp at hn; omega)
        simp only [List.append_assoc, List.cons_append, List.nil_append] at ih
        have e2 : ¬ (t2 ++ q :: r).length = 0 := by simp
        have e3 : ¬ (t2 ++ q :: r).length = (c :: (t2 ++ q :: r)).length := by simp
        simp only [escapedF]
        rw [if_neg e0]
        simp only [List.cons_append]
        rw [hn_ok c _ hc hl.1]
        simp only
        rw [if_neg e2, if_neg e3, ih]

theorem noneOf_ok {q c : Char} {r : List Char} (h1 : c ≠ '\\') (h2 : c ≠ q) : noneOf ['\\', q] (c :: r) = .ok c r := by
  simp [noneOf, satisfy, h1, h2]
theorem noneOf_err {q c : Char} {r : List Char} (h : c = '\\' ∨ c = q) : noneOf ['\\', q] (c :: r) = .err := by
  rcases h with h | h <;> simp [noneOf, satisfy, h]
theorem oneOf_esc {e : Char} {r : List Char} (h : isEscapable e = true) :
    oneOf ['\'', '"', 'n', '\\'] (e :: r) = .ok e r := by
  simp only [isEscapable, Bool.or_eq_true, beq_iff_eq] at h
  rcases h with ((h | h) | h) | h <;> subst h <;> simp [oneOf, satisfy]

/-- `literal_rt`, one quote style: a text acceptable between `q` quotes is read back verbatim -/
theorem quoted_rt {q : Char} (hq : q ≠ '\\') {t r : List Char} (hl : litOk q t = true) :
    quoted q (q :: (t ++ q :: r)) = .ok t r := by
  have htag : ∀ x, tag [q] (q :: x) = .ok [q] x := fun x => tag_append [q] x
  cases t with
  | nil =>
    have hq' : ¬ q = '\\' := hq
    have e0 : ¬ (q :: r).length = 0 := by simp
    have he : escaped (noneOf ['\\', q]) '\\' (oneOf ['\'', '"', 'n', '\\']) (q :: r) = .err := by
      simp only [escaped, escapedF]
      rw [if_neg e0, noneOf_err (Or.inr rfl)]
      simp only
      rw [if_neg hq']
      simp
    have hnil : tag [] (q :: r) = .ok [] (q :: r) := rfl
    simp only [quoted, andThen, List.nil_append, htag, PR.bind, terminated, alt, he, hnil, pmap, PR.map]
  | cons c t =>
    have := escapedF_lit hq (fun c r => noneOf_ok) (fun c r => noneOf_err) (fun e r => oneOf_esc)
      ((c :: t ++ q :: r).length + 1) [] (c :: t) r hl (Or.inr (by simp)) (by simp; omega)
    simp only [List.nil_append] at this
    have he : escaped (noneOf ['\\', q]) '\\' (oneOf ['\'', '"', 'n', '\\']) (c :: t ++ q :: r) = .ok (c :: t) (q :: r) := this
    simp only [quoted, andThen, htag, PR.bind, terminated, alt, he, pmap, PR.map]

theorem literal_rt_single {t r : List Char} (hl : litOk '\'' t = true) :
    Literal.parse ('\'' :: (t ++ '\'' :: r)) = .ok t r := by
  simp [Literal.parse, alt, quoted_rt (q := '\'') (by decide) hl]

theorem literal_rt_double {t r : List Char} (hl : litOk '"' t = true) :
    Literal.parse ('"' :: (t ++ '"' :: r)) = .ok t r := by
  have : quoted '\'' ('"' :: (t ++ '"' :: r)) = .err := by
    simp [quoted, andThen, tag, stripPrefix, PR.bind]
  simp [Literal.parse, alt, this, quoted_rt (q := '"') (by decide) hl]

theorem quoteFor_spec (flag : Bool) {t : List Char} (h : literalOk t = true) :
    (quoteFor flag t = '\'' ∨ quoteFor flag t = '"') ∧ litOk (quoteFor flag t) t = true := by
  simp only [literalOk, Bool.or_eq_true] at h
  unfold quoteFor
  cases flag <;> simp only [Bool.false_eq_true, if_false, if_true]
  · by_cases h1 : litOk '\'' t = true
    · simp [h1]
    · rcases h with h | h
      · exact absurd h h1
      · simp [h1, h]
  · by_cases h1 : litOk '"' t = true
    · simp [h1]
    · rcases h with h | h
      · simp [h1, h]
      · exact absurd h h1

/-- `literal_rt`, both quote styles: whichever quote the layout prefers -/
theorem literal_rt (flag : Bool) {t r : List Char} (h : literalOk t = true) :
    Literal.parse (quoteFor flag t :: (t ++ quoteFor flag t :: r)) = .ok t r := by
  obtain ⟨hq, hl⟩ := quoteFor_spec flag h
  rcases hq with e | e <;> rw [e] at hl ⊢
  · exact literal_rt_single hl
  · exact literal_rt_double hl

/-! ### numbers -/

theorem digitChar_spec : ∀ m, m < 10 → isDecDigit (Char.ofNat (48 + m)) = true ∧ digitVal (Char.ofNat (48 + m)) = m := by
  decide

theorem digitChar_digit (n : Nat) : isDecDigit (digitChar n) = true :=
  (digitChar_spec (n % 10) (Nat.mod_lt _ (by decide))).1
theorem digitChar_val (n : Nat) : digitVal (digitChar n) = n % 10 :=
  (digitChar_spec (n % 10) (Nat.mod_lt _ (by decide))).2

theorem decDigitsGo_acc : ∀ (n f : Nat), n < f → ∀ acc, decDigitsGo f n acc = decDigitsGo (n + 1) n [] ++ acc := by
  intro n
  induction n using Nat.strongRecOn with
  | _ n ih =>
    intro f hf acc
    cases f with
    | zero => omega
    | succ f =>
      by_cases h10 : n < 10
      · simp [decDigitsGo, h10]
      · have hlt : n / 10 < n := Nat.div_lt_self (by omega) (by decide)
        have e1 := ih (n / 10) hlt f (by omega) (digitChar (n % 10) :: acc)
        have e2 := ih (n / 10) hlt n hlt [digitChar (n % 10)]
        simp only [decDigitsGo, h10, if_false]
        rw [e1, e2]; simp

theorem decDigits_small {n : Nat} (h : n < 10) : decDigits n = [digitChar n] := by
  simp [decDigits, decDigitsGo, h]

theorem decDigits_step {n : Nat} (h : 10 ≤ n) : decDigits n = decDigits (n / 10) ++ [digitChar (n % 10)] := by
  have hlt : n / 10 < n := Nat.div_lt_self (by omega) (by decide)
  have h10 : ¬ n < 10 := by omega
  simp only [decDigits, decDigitsGo, h10, if_false]
  exact decDigitsGo_acc (n / 10) n hlt _

theorem decVal_snoc (a : List Char) (c : Char) : decVal (a ++ [c]) = decVal a * 10 + digitVal c := by
  simp [decVal, List.foldl_append]

theorem decDigits_spec (n : Nat) : decDigits n ≠ [] ∧ (∀ c ∈ decDigits n, isDecDigit c = true) ∧ decVal (decDigits n) = n := by
  induction n using Nat.strongRecOn with
  | _ n ih =>
    by_cases h : n < 10
    · rw [decDigits_small h]
      refine ⟨by simp, by intro c hc; simp at hc; subst hc; exact digitChar_digit n, ?_⟩
      simp [decVal, digitChar_val, Nat.mod_eq_of_lt h]
    · have hlt : n / 10 < n := Nat.div_lt_self (by omega) (by decide)
      obtain ⟨h1, h2, h3⟩ := ih (n / 10) hlt
      rw [decDigits_step (by omega)]
      refine ⟨by simp, ?_, ?_⟩
      · intro c hc
        rcases List.mem_append.mp hc with hc | hc
        · exact h2 c hc
        · simp at hc; subst hc; exact digitChar_digit _
      · rw [decVal_snoc, h3, digitChar_val, Nat.mod_mod]; omega

theorem digit1_rt {ds r : List Char} (hne : ds ≠ []) (hd : ∀ c ∈ ds, isDecDigit c = true)
    (hr : hdP (fun c => !isDecDigit c) r = true) : digit1 (ds ++ r) = .ok ds r := by
  cases ds with
  | nil => exact absurd rfl hne
  | cons c cs =>
    have := takeWhile_append_stop (f := isDecDigit) (a := c :: cs) (r := r) hd hr
    have hc := hd c (by simp)
    simp only [List.cons_append] at this
    simp [digit1, takeWhile1, hc, this.1, this.2]

theorem digits_no_0x {ds r : List Char} (hd : ∀ c ∈ ds, isDecDigit c = true) (hne : ds ≠ []) (hr : Sep r) :
    tag ['0', 'x'] (ds ++ r) = .err := by
  cases ds with
  | nil => exact absurd rfl hne
  | cons c cs =>
    by_cases hc : '0' = c
    · subst hc
      cases cs with
      | nil =>
        cases r with
        | nil => rfl
        | cons e r =>
          have : 'x' ≠ e := by intro h; subst h; simp [Sep, isSepChar] at hr
          simp [tag, stripPrefix, this]
      | cons e cs =>
        have : 'x' ≠ e := by intro h; subst h; have := hd 'x' (by simp); simp [isDecDigit] at this
        simp [tag, stripPrefix, this]
    · simp [tag, stripPrefix, hc]

theorem digits_no_minus {ds r : List Char} (hd : ∀ c ∈ ds, isDecDigit c = true) (hne : ds ≠ []) :
    tag ['-'] (ds ++ r) = .err := by
  cases ds with
  | nil => exact absurd rfl hne
  | cons c cs =>
    have : '-' ≠ c := by intro h; subst h; have := hd '-' (by simp); simp [isDecDigit] at this
    simp [tag, stripPrefix, this]

/-- `unsigned` on decimal digits -/
theorem unsigned_rt {m : Nat} {r : List Char} (hm : (m : Int) ≤ i64Max) (hr : Sep r) :
    IntConstant.unsigned (decDigits m ++ r) = .ok (m : Int) r := by
  obtain ⟨h1, h2, h3⟩ := decDigits_spec m
  have e2 := digits_no_0x h2 h1 hr
  have e3 := digit1_rt h1 h2 hr.noDigit
  simp [IntConstant.unsigned, alt, skip, andThen, e2, PR.bind, mapRes, e3, parseI64Dec, h3, hm]

/-- `int_rt` -/
theorem intConstant_rt {n : Int} {r : List Char} (hn : intOk n = true) (hr : Sep r) :
    IntConstant.parse (intText n ++ r) = .ok n r := by
  simp only [intOk, Bool.and_eq_true, decide_eq_true_eq] at hn
  unfold intText
  by_cases hneg : n < 0
  · have hm : ((-n).toNat : Int) ≤ i64Max := by unfold i64Max at *; omega
    have h1 := unsigned_rt hm hr
    have hv : ¬ ((-n).toNat : Int) = i64Min := by unfold i64Min; omega
    have hback : -((-n).toNat : Int) = n := by omega
    have htag : tag ['-'] ('-' :: (decDigits (-n).toNat ++ r)) = .ok ['-'] (decDigits (-n).toNat ++ r) :=
      tag_append ['-'] _
    simp only [hneg, if_true, List.cons_append]
    unfold IntConstant.parse
    simp only [alt, skip, andThen, htag, PR.bind, pmapChecked, h1, negI64, hv, if_false, hback]
  · have hm : (n.toNat : Int) ≤ i64Max := by omega
    have h1 := unsigned_rt hm hr
    have hback : (n.toNat : Int) = n := by omega
    obtain ⟨d1, d2, _⟩ := decDigits_spec n.toNat
    have e1 := digits_no_minus (r := r) d2 d1
    simp only [hneg, if_false]
    unfold IntConstant.parse
    simp only [alt, skip, andThen, e1, PR.bind, h1, hback]

/-- field ids -/
theorem fieldId_digits {id : Int} (h0 : 0 ≤ id) (h1 : id ≤ i32Max) :
    parseI32Dec (decDigits id.toNat) = some id := by
  obtain ⟨_, _, h3⟩ := decDigits_spec id.toNat
  have : (id.toNat : Int) = id := by omega
  simp [parseI32Dec, h3, this, h1]

end Pilota.Idl
