import PilotaModel.TGen.Decode
import PilotaModel.Lemmas.ReadTotalCompact
import PilotaModel.Lemmas.SkipTotal
import PilotaModel.Lemmas.SkipPrims
import PilotaModel.Lemmas.Tactics
/-
  The emitted decoders (TGen/Decode.lean) on EVERY input: never the panic branch, and a fuel budget that is
  linear in the input (times the longest typedef chain of the document) is never exhausted — generically over
  the reader record, then for the checked binary / LE readers and the compact reader.

  `Rd.Safe R M k`: no primitive of the reader panics or runs out of fuel; a successful header or leaf read
  lowers the measure `M` by at least `k`; struct begin / end and `skip` do not raise it.
-/
namespace Pilota.TGen
open Pilota Pilota.Thrift

/-- a reader primitive on every state: never panics, never out of fuel, success lowers `M` by at least `k`. -/
def PrimOk {σ α : Type} (M : σ → Nat) (k : Nat) (p : σ → Out (α × σ)) : Prop :=
  ∀ s, (∀ m, p s ≠ .panic m) ∧ p s ≠ .fuel ∧ ∀ a s', p s = .ok (a, s') → M s' + k ≤ M s

structure Rd.Safe {σ : Type} (R : Rd σ) (M : σ → Nat) (k : Nat) : Prop where
  sb : ∀ s, M (R.structBegin s) ≤ M s
  se : ∀ s, (∀ m, R.structEnd s ≠ .panic m) ∧ R.structEnd s ≠ .fuel ∧ ∀ s', R.structEnd s = .ok s' → M s' ≤ M s
  fb : PrimOk M k R.fieldBegin
  bool : PrimOk M k R.readBool
  i8 : PrimOk M k R.readI8
  i16 : PrimOk M k R.readI16
  i32 : PrimOk M k R.readI32
  i64 : PrimOk M k R.readI64
  double : PrimOk M k R.readDouble
  bytes : PrimOk M k R.readBytes
  uuid : PrimOk M k R.readUuid
  lb : PrimOk M k R.listBegin
  mb : PrimOk M k R.mapBegin
  skip : ∀ t s, (∀ m, R.skip t s ≠ .panic m) ∧ R.skip t s ≠ .fuel ∧ ∀ s', R.skip t s = .ok s' → M s' ≤ M s

theorem PrimOk.scale {σ α : Type} {M : σ → Nat} {p : σ → Out (α × σ)} (A : Nat) (h : PrimOk M 1 p) :
    PrimOk (fun s => A * M s) A p := by
  intro s
  obtain ⟨h1, h2, h3⟩ := h s
  refine ⟨h1, h2, ?_⟩
  intro a s' hs
  have := h3 a s' hs
  calc A * M s' + A = A * (M s' + 1) := by rw [Nat.mul_succ]
    _ ≤ A * M s := Nat.mul_le_mul_left A this

theorem Rd.Safe.scale {σ : Type} {R : Rd σ} {M : σ → Nat} (A : Nat) (h : R.Safe M 1) : R.Safe (fun s => A * M s) A where
  sb s := Nat.mul_le_mul_left A (h.sb s)
  se s := ⟨(h.se s).1, (h.se s).2.1, fun s' hs => Nat.mul_le_mul_left A ((h.se s).2.2 s' hs)⟩
  fb := h.fb.scale A
  bool := h.bool.scale A
  i8 := h.i8.scale A
  i16 := h.i16.scale A
  i32 := h.i32.scale A
  i64 := h.i64.scale A
  double := h.double.scale A
  bytes := h.bytes.scale A
  uuid := h.uuid.scale A
  lb := h.lb.scale A
  mb := h.mb.scale A
  skip t s := ⟨(h.skip t s).1, (h.skip t s).2.1, fun s' hs => Nat.mul_le_mul_left A ((h.skip t s).2.2 s' hs)⟩

/-! ### closed documents: every reference resolves, `void` only as the first variant of a method result -/

def STy.closed (d : Doc) : STy → Bool
  | .list e | .set e => e.closed d
  | .map k v => k.closed d && v.closed d
  | .ref n => (d.find n).isSome
  | .void => false
  | _ => true

def Def.closed (d : Doc) : Def → Prop
  | .struct fs => ∀ fl ∈ fs, fl.ty.closed d = true
  | .union vs => ∀ v ∈ vs, v.2 = .void ∨ v.2.closed d = true
  | .typedef t => t.closed d = true
  | .enum => True

def Doc.closed (d : Doc) : Prop := ∀ n df, d.find n = some df → df.closed d

/-- the decidable form of `Doc.closed` -/
def Def.closedB (d : Doc) : Def → Bool
  | .struct fs => fs.all (fun fl => fl.ty.closed d)
  | .union vs => vs.all (fun v => match v.2 with | .void => true | t => t.closed d)
  | .typedef t => t.closed d
  | .enum => true

def Doc.closedB (d : Doc) : Bool := d.all (fun p => p.2.closedB d)

theorem Doc.closed_of_closedB (d : Doc) (h : d.closedB = true) : d.closed := by
  intro n df hf
  simp only [Doc.find, Option.map_eq_some_iff] at hf
  obtain ⟨p, hp, hdf⟩ := hf
  have hmem := List.mem_of_find?_eq_some hp
  simp only [Doc.closedB, List.all_eq_true] at h
  have := h p hmem
  rw [hdf] at this
  cases df with
  | struct fs => simpa [Def.closedB, Def.closed] using this
  | union vs =>
    simp only [Def.closedB, List.all_eq_true] at this
    intro v hv
    have := this v hv
    split at this
    · left; assumption
    · right; assumption
  | typedef t => simpa [Def.closedB, Def.closed] using this
  | enum => trivial

theorem finish_ne_panic (fs : List Field) (slots : List (Int × TVal)) (m : String) : finish fs slots ≠ .panic m := by
  induction fs with
  | nil => simp [finish]
  | cons f fs ih => simp only [finish]; osplit
theorem finish_ne_fuel (fs : List Field) (slots : List (Int × TVal)) : finish fs slots ≠ .fuel := by
  induction fs with
  | nil => simp [finish]
  | cons f fs ih => simp only [finish]; osplit

theorem mapOut_eq_panic {α β} (g : α → β) (x : Out α) (m : String) : mapOut g x = .panic m ↔ x = .panic m := by
  cases x <;> simp [mapOut]
theorem mapOut_eq_fuel {α β} (g : α → β) (x : Out α) : mapOut g x = .fuel ↔ x = .fuel := by
  cases x <;> simp [mapOut]
theorem mapOut_eq_ok {α β} (g : α → β) (x : Out α) (b : β) : mapOut g x = .ok b ↔ ∃ a, x = .ok a ∧ g a = b := by
  cases x <;> simp [mapOut]

section generic
variable {σ : Type} (R : Rd σ) (M : σ → Nat) (k : Nat) (hR : R.Safe M k) (d : Doc) (hd : d.closed)

include hR hd in
/-- **no panic**, at every fuel, from every reader state. -/
theorem dec_nopanic : ∀ f,
    (∀ ty s m, ty.closed d = true → decTy R d f ty s ≠ .panic m) ∧
    (∀ e n acc s m, e.closed d = true → decN R d f e n acc s ≠ .panic m) ∧
    (∀ kt vt n acc s m, kt.closed d = true → vt.closed d = true → decPairs R d f kt vt n acc s ≠ .panic m) ∧
    (∀ fs slots s m, (∀ fl ∈ fs, fl.ty.closed d = true) → decFields R d f fs slots s ≠ .panic m) ∧
    (∀ vs ret s m, (∀ v ∈ vs, v.2 = .void ∨ v.2.closed d = true) → decUnion R d f vs ret s ≠ .panic m) := by
  obtain ⟨sb, se, fb, rbool, ri8, ri16, ri32, ri64, rdbl, rbytes, ruuid, lb, mb, skp⟩ := hR
  intro f
  induction f with
  | zero => simp [decTy, decN, decPairs, decFields, decUnion]
  | succ f ih =>
    obtain ⟨ih1, ih2, ih3, ih4, ih5⟩ := ih
    refine ⟨?_, ?_, ?_, ?_, ?_⟩
    · intro ty s m hc h
      cases ty <;> simp only [decTy, mapOut_eq_panic] at h
      case bool => exact (rbool s).1 m h
      case i8 => exact (ri8 s).1 m h
      case i16 => exact (ri16 s).1 m h
      case i32 => exact (ri32 s).1 m h
      case i64 => exact (ri64 s).1 m h
      case double => exact (rdbl s).1 m h
      case string => exact (rbytes s).1 m h
      case binary => exact (rbytes s).1 m h
      case uuid => exact (ruuid s).1 m h
      case list e =>
        simp only [STy.closed] at hc
        have := (lb s).1
        osplit_at h <;> grind
      case set e =>
        simp only [STy.closed] at hc
        have := (lb s).1
        osplit_at h <;> grind
      case map kt vt =>
        simp only [STy.closed, Bool.and_eq_true] at hc
        have := (mb s).1
        osplit_at h <;> grind
      case ref n =>
        simp only [STy.closed] at hc
        cases hfind : d.find n with
        | none => simp [hfind] at hc
        | some df =>
          have hdf := hd n df hfind
          simp only [hfind] at h
          cases df with
          | struct fs =>
            simp only [Def.closed] at hdf
            simp only at h
            have := ih4 fs [] (R.structBegin s)
            osplit_at h
            · rename_i s1 _ s2 _ m' hfin; exact finish_ne_panic _ _ _ hfin
            · rename_i s1 _ m' hse; exact (se _).1 _ hse
            · rename_i m' hdf'; exact this _ hdf hdf'
          | union vs =>
            simp only [Def.closed] at hdf
            simp only at h
            have := ih5 vs none (R.structBegin s)
            osplit_at h
            · rename_i m' hse; exact (se _).1 _ hse
            · rename_i m' hdu; exact this _ hdf hdu
          | enum => simp only [mapOut_eq_panic] at h; exact (ri32 s).1 m h
          | typedef t => simp only [Def.closed] at hdf; simp only at h; exact ih1 t s m hdf h
      case void => simp [STy.closed] at hc
    · intro e n acc s m hc h
      cases n <;> simp only [decN] at h <;> osplit_at h <;> grind
    · intro kt vt n acc s m hk hv h
      cases n <;> simp only [decPairs] at h <;> osplit_at h <;> grind
    · intro fs slots s m hfs h
      simp only [decFields] at h
      have := (fb s).1
      osplit_at h
      · exact ih4 _ _ _ _ hfs h
      · exact ih1 _ _ _ (hfs _ (List.mem_of_find?_eq_some (by assumption))) (by assumption)
      · exact ih4 _ _ _ _ hfs h
      · exact (skp _ _).1 _ (by assumption)
      · exact this _ (by assumption)
    · intro vs ret s m hvs h
      simp only [decUnion] at h
      have := (fb s).1
      osplit_at h
      · exact ih5 _ _ _ _ hvs h
      · have hfl : ∃ p m', vs.find? (fun v => v.1 == _ && !(v.2 == .void)) = some p ∧ decTy R d f p.2 _ = .panic m' :=
          ⟨_, _, by assumption, by assumption⟩
        obtain ⟨p, m', hfl, hdt⟩ := hfl
        have hmem := List.mem_of_find?_eq_some hfl
        have hp := List.find?_some hfl
        rcases hvs _ hmem with hv | hv
        · rw [hv] at hp; simp at hp; exact absurd (by decide : (STy.void == STy.void) = true) (by simpa using hp.2)
        · exact ih1 _ _ _ hv hdt
      · exact ih5 _ _ _ _ hvs h
      · exact (skp _ _).1 _ (by assumption)
      · exact this _ (by assumption)

end generic


section fuel
variable {σ : Type} (R : Rd σ) (M : σ → Nat) (A : Nat) (hR : R.Safe M A) (d : Doc)

include hR in
/-- a successful decode lowers the measure: by at least one header / leaf for a value, a struct or a union body. -/
theorem dec_len : ∀ f,
    (∀ ty s v s', decTy R d f ty s = .ok (v, s') → M s' + A ≤ M s) ∧
    (∀ e n acc s xs s', decN R d f e n acc s = .ok (xs, s') → M s' ≤ M s) ∧
    (∀ kt vt n acc s xs s', decPairs R d f kt vt n acc s = .ok (xs, s') → M s' ≤ M s) ∧
    (∀ fs slots s o s', decFields R d f fs slots s = .ok (o, s') → M s' + A ≤ M s) ∧
    (∀ vs ret s o s', decUnion R d f vs ret s = .ok (o, s') → M s' + A ≤ M s) := by
  obtain ⟨sb, se, fb, rbool, ri8, ri16, ri32, ri64, rdbl, rbytes, ruuid, lb, mb, skp⟩ := hR
  have se_ok : ∀ s s', R.structEnd s = .ok s' → M s' ≤ M s := fun s => (se s).2.2
  have fb_ok : ∀ s a s', R.fieldBegin s = .ok (a, s') → M s' + A ≤ M s := fun s => (fb s).2.2
  have bool_ok : ∀ s a s', R.readBool s = .ok (a, s') → M s' + A ≤ M s := fun s => (rbool s).2.2
  have i8_ok : ∀ s a s', R.readI8 s = .ok (a, s') → M s' + A ≤ M s := fun s => (ri8 s).2.2
  have i16_ok : ∀ s a s', R.readI16 s = .ok (a, s') → M s' + A ≤ M s := fun s => (ri16 s).2.2
  have i32_ok : ∀ s a s', R.readI32 s = .ok (a, s') → M s' + A ≤ M s := fun s => (ri32 s).2.2
  have i64_ok : ∀ s a s', R.readI64 s = .ok (a, s') → M s' + A ≤ M s := fun s => (ri64 s).2.2
  have dbl_ok : ∀ s a s', R.readDouble s = .ok (a, s') → M s' + A ≤ M s := fun s => (rdbl s).2.2
  have bytes_ok : ∀ s a s', R.readBytes s = .ok (a, s') → M s' + A ≤ M s := fun s => (rbytes s).2.2
  have uuid_ok : ∀ s a s', R.readUuid s = .ok (a, s') → M s' + A ≤ M s := fun s => (ruuid s).2.2
  have lb_ok : ∀ s a s', R.listBegin s = .ok (a, s') → M s' + A ≤ M s := fun s => (lb s).2.2
  have mb_ok : ∀ s a s', R.mapBegin s = .ok (a, s') → M s' + A ≤ M s := fun s => (mb s).2.2
  have skip_ok : ∀ t s s', R.skip t s = .ok s' → M s' ≤ M s := fun t s => (skp t s).2.2
  intro f
  induction f with
  | zero => simp [decTy, decN, decPairs, decFields, decUnion]
  | succ f ih =>
    obtain ⟨ih1, ih2, ih3, ih4, ih5⟩ := ih
    refine ⟨?_, ?_, ?_, ?_, ?_⟩
    · intro ty s v s' h
      cases ty <;> simp only [decTy, mapOut_eq_ok] at h
      case bool => obtain ⟨a, ha, hh⟩ := h; cases hh; exact bool_ok _ _ _ ha
      case i8 => obtain ⟨a, ha, hh⟩ := h; cases hh; exact i8_ok _ _ _ ha
      case i16 => obtain ⟨a, ha, hh⟩ := h; cases hh; exact i16_ok _ _ _ ha
      case i32 => obtain ⟨a, ha, hh⟩ := h; cases hh; exact i32_ok _ _ _ ha
      case i64 => obtain ⟨a, ha, hh⟩ := h; cases hh; exact i64_ok _ _ _ ha
      case double => obtain ⟨a, ha, hh⟩ := h; cases hh; exact dbl_ok _ _ _ ha
      case string => obtain ⟨a, ha, hh⟩ := h; cases hh; exact bytes_ok _ _ _ ha
      case binary => obtain ⟨a, ha, hh⟩ := h; cases hh; exact bytes_ok _ _ _ ha
      case uuid => obtain ⟨a, ha, hh⟩ := h; cases hh; exact uuid_ok _ _ _ ha
      case list e => osplit_at h <;> grind
      case set e => osplit_at h <;> grind
      case map kt vt => osplit_at h <;> grind
      case ref n =>
        have sbs := sb s
        cases hfind : d.find n with
        | none => simp [hfind] at h
        | some df =>
          simp only [hfind] at h
          cases df with
          | struct fs => simp only at h; osplit_at h <;> grind
          | union vs => simp only at h; osplit_at h <;> grind
          | enum => simp only [mapOut_eq_ok] at h; obtain ⟨a, ha, hh⟩ := h; cases hh; exact i32_ok _ _ _ ha
          | typedef t => simp only at h; exact ih1 _ _ _ _ h
      case void => simp at h
    · intro e n acc s xs s' h
      cases n <;> simp only [decN] at h <;> osplit_at h <;> grind
    · intro kt vt n acc s xs s' h
      cases n <;> simp only [decPairs] at h <;> osplit_at h <;> grind
    · intro fs slots s o s' h
      simp only [decFields] at h; osplit_at h <;> grind
    · intro vs ret s o s' h
      simp only [decUnion] at h; osplit_at h <;> grind

variable (rk : STy → Nat) (T : Nat) (hT : ∀ ty, rk ty ≤ T) (hA : T + 3 ≤ A)
  (hrk : ∀ n t, d.find n = some (.typedef t) → rk t + 1 ≤ rk (.ref n))

include hR hT hA hrk in
/-- **no hang**: a budget of `M s + T + 3` (`T`: the longest chain of typedefs, `rk` its witness) is never exhausted. -/
theorem dec_nofuel : ∀ f,
    (∀ ty s, rk ty + M s + 2 ≤ f → decTy R d f ty s ≠ .fuel) ∧
    (∀ e n acc s, M s + T + 3 ≤ f → decN R d f e n acc s ≠ .fuel) ∧
    (∀ kt vt n acc s, M s + T + 3 ≤ f → decPairs R d f kt vt n acc s ≠ .fuel) ∧
    (∀ fs slots s, M s + 1 ≤ f → decFields R d f fs slots s ≠ .fuel) ∧
    (∀ vs ret s, M s + 1 ≤ f → decUnion R d f vs ret s ≠ .fuel) := by
  have hlen := dec_len R M A hR d
  obtain ⟨sb, se, fb, rbool, ri8, ri16, ri32, ri64, rdbl, rbytes, ruuid, lb, mb, skp⟩ := hR
  have se_nf : ∀ s, R.structEnd s ≠ .fuel := fun s => (se s).2.1
  have fb_ok : ∀ s a s', R.fieldBegin s = .ok (a, s') → M s' + A ≤ M s := fun s => (fb s).2.2
  have fb_nf : ∀ s, R.fieldBegin s ≠ .fuel := fun s => (fb s).2.1
  have lb_ok : ∀ s a s', R.listBegin s = .ok (a, s') → M s' + A ≤ M s := fun s => (lb s).2.2
  have lb_nf : ∀ s, R.listBegin s ≠ .fuel := fun s => (lb s).2.1
  have mb_ok : ∀ s a s', R.mapBegin s = .ok (a, s') → M s' + A ≤ M s := fun s => (mb s).2.2
  have mb_nf : ∀ s, R.mapBegin s ≠ .fuel := fun s => (mb s).2.1
  have skip_ok : ∀ t s s', R.skip t s = .ok s' → M s' ≤ M s := fun t s => (skp t s).2.2
  have skip_nf : ∀ t s, R.skip t s ≠ .fuel := fun t s => (skp t s).2.1
  intro f
  induction f with
  | zero => simp
  | succ f ih =>
    obtain ⟨ih1, ih2, ih3, ih4, ih5⟩ := ih
    obtain ⟨l1, l2, l3, l4, l5⟩ := hlen f
    refine ⟨?_, ?_, ?_, ?_, ?_⟩
    · intro ty s hf h
      cases ty <;> simp only [decTy, mapOut_eq_fuel] at h
      case bool => exact (rbool s).2.1 h
      case i8 => exact (ri8 s).2.1 h
      case i16 => exact (ri16 s).2.1 h
      case i32 => exact (ri32 s).2.1 h
      case i64 => exact (ri64 s).2.1 h
      case double => exact (rdbl s).2.1 h
      case string => exact (rbytes s).2.1 h
      case binary => exact (rbytes s).2.1 h
      case uuid => exact (ruuid s).2.1 h
      case list e => osplit_at h <;> grind
      case set e => osplit_at h <;> grind
      case map kt vt => osplit_at h <;> grind
      case ref n =>
        have sbs := sb s
        cases hfind : d.find n with
        | none => simp [hfind] at h
        | some df =>
          simp only [hfind] at h
          cases df with
          | struct fs =>
            simp only at h
            have := finish_ne_fuel fs
            osplit_at h <;> grind
          | union vs => simp only at h; osplit_at h <;> grind
          | enum => simp only [mapOut_eq_fuel] at h; exact (ri32 s).2.1 h
          | typedef t => simp only at h; have := hrk n t hfind; exact ih1 t s (by omega) h
      case void => simp at h
    · intro e n acc s hf h
      have := hT e
      cases n <;> simp only [decN] at h <;> osplit_at h <;> grind
    · intro kt vt n acc s hf h
      have := hT kt
      have := hT vt
      cases n <;> simp only [decPairs] at h <;> osplit_at h <;> grind
    · intro fs slots s hf h
      simp only [decFields] at h; osplit_at h <;> grind
    · intro vs ret s hf h
      simp only [decUnion] at h; osplit_at h <;> grind

end fuel

end Pilota.TGen
