import PilotaModel.Lemmas.IdlItem
/-
  C15: constant values (`const_rt`, recursion through list and map literals).
  Stage restriction: `ConstValue.supported` — no `double` literal anywhere in the value.
-/
namespace Pilota.Idl

mutual
def ConstValue.supported : ConstValue → Bool
  | .double _ => false
  | .list xs => ConstValue.supportedList xs
  | .map kvs => ConstValue.supportedPairs kvs
  | _ => true
def ConstValue.supportedList : List ConstValue → Bool
  | [] => true
  | x :: xs => x.supported && ConstValue.supportedList xs
def ConstValue.supportedPairs : List (ConstValue × ConstValue) → Bool
  | [] => true
  | (k, v) :: kvs => k.supported && v.supported && ConstValue.supportedPairs kvs
end

mutual
def ConstValue.depth : ConstValue → Nat
  | .list xs => ConstValue.depthList xs + 1
  | .map kvs => ConstValue.depthPairs kvs + 1
  | .int n => if n < 0 then 1 else 0
  | _ => 0
def ConstValue.depthList : List ConstValue → Nat
  | [] => 0
  | x :: xs => max x.depth (ConstValue.depthList xs)
def ConstValue.depthPairs : List (ConstValue × ConstValue) → Nat
  | [] => 0
  | (k, v) :: kvs => max (max k.depth v.depth) (ConstValue.depthPairs kvs)
end

theorem wfList_mem : ∀ {xs : List ConstValue} {x}, ConstValue.wfList xs = true → x ∈ xs → x.wf = true
  | y :: ys, x, h, hx => by
    simp only [ConstValue.wfList, Bool.and_eq_true] at h
    rcases List.mem_cons.mp hx with rfl | hx
    · exact h.1
    · exact wfList_mem h.2 hx
theorem supportedList_mem : ∀ {xs : List ConstValue} {x}, ConstValue.supportedList xs = true → x ∈ xs → x.supported = true
  | y :: ys, x, h, hx => by
    simp only [ConstValue.supportedList, Bool.and_eq_true] at h
    rcases List.mem_cons.mp hx with rfl | hx
    · exact h.1
    · exact supportedList_mem h.2 hx
theorem depthList_mem : ∀ {xs : List ConstValue} {x}, x ∈ xs → x.depth ≤ ConstValue.depthList xs
  | y :: ys, x, hx => by
    simp only [ConstValue.depthList]
    rcases List.mem_cons.mp hx with rfl | hx
    · exact Nat.le_max_left _ _
    · exact Nat.le_trans (depthList_mem hx) (Nat.le_max_right _ _)
theorem wfPairs_mem : ∀ {kvs : List (ConstValue × ConstValue)} {kv}, ConstValue.wfPairs kvs = true → kv ∈ kvs →
    kv.1.wf = true ∧ kv.2.wf = true
  | (k, v) :: ys, kv, h, hx => by
    simp only [ConstValue.wfPairs, Bool.and_eq_true] at h
    rcases List.mem_cons.mp hx with rfl | hx
    · exact ⟨h.1.1, h.1.2⟩
    · exact wfPairs_mem h.2 hx
theorem supportedPairs_mem : ∀ {kvs : List (ConstValue × ConstValue)} {kv}, ConstValue.supportedPairs kvs = true → kv ∈ kvs →
    kv.1.supported = true ∧ kv.2.supported = true
  | (k, v) :: ys, kv, h, hx => by
    simp only [ConstValue.supportedPairs, Bool.and_eq_true] at h
    rcases List.mem_cons.mp hx with rfl | hx
    · exact ⟨h.1.1, h.1.2⟩
    · exact supportedPairs_mem h.2 hx
theorem depthPairs_mem : ∀ {kvs : List (ConstValue × ConstValue)} {kv}, kv ∈ kvs →
    kv.1.depth ≤ ConstValue.depthPairs kvs ∧ kv.2.depth ≤ ConstValue.depthPairs kvs
  | (k, v) :: ys, kv, hx => by
    simp only [ConstValue.depthPairs]
    rcases List.mem_cons.mp hx with rfl | hx
    · exact ⟨Nat.le_trans (Nat.le_max_left _ _) (Nat.le_max_left _ _), Nat.le_trans (Nat.le_max_right _ _) (Nat.le_max_left _ _)⟩
    · have := depthPairs_mem hx
      exact ⟨Nat.le_trans this.1 (Nat.le_max_right _ _), Nat.le_trans this.2 (Nat.le_max_right _ _)⟩

/-! ### rendered element lists are `rSlots` -/

def rConstElem (x : ConstValue) (last : Bool) : R := rConst x +> rTail x.endsOpen last
def rConstPair (kv : ConstValue × ConstValue) (last : Bool) : R :=
  rConst kv.1 +> rB0 +> rLit [':'] +> rB0 +> rConst kv.2 +> rTail kv.2.endsOpen last

theorem rConstElems_slots : ∀ (xs : List ConstValue) (l : Layout), rConstElems xs l = rSlots rConstElem xs l
  | [], l => rfl
  | x :: xs, l => by
    simp only [rConstElems, rSlots, rConstElem, rSeq]
    rw [rConstElems_slots xs]
    simp only [List.append_assoc]
theorem rConstPairs_slots : ∀ (kvs : List (ConstValue × ConstValue)) (l : Layout), rConstPairs kvs l = rSlots rConstPair kvs l
  | [], l => rfl
  | (k, v) :: kvs, l => by
    simp only [rConstPairs, rSlots, rConstPair, rSeq]
    rw [rConstPairs_slots kvs]
    simp only [List.append_assoc]

/-! ### what a constant needs of the text after it; how a constant starts -/

def ConstFollow : ConstValue → List Char → Prop
  | .string _, _ => True
  | .list _, _ => True
  | .map _, _ => True
  | .path _, r => hdP (fun c => !isIdentChar c) r = true ∧ PathStop r
  | _, r => Sep r

theorem constFollow_general {c : ConstValue} {r : List Char} (h1 : c.endsOpen = true → Sep r) (h2 : PathStop r) :
    ConstFollow c r := by
  cases c with
  | path p => exact ⟨(h1 rfl).noIdent, h2⟩
  | string _ => trivial
  | list _ => trivial
  | map _ => trivial
  | bool _ => exact h1 rfl
  | int _ => exact h1 rfl
  | double _ => exact h1 rfl

/-- first character of a rendered constant (no doubles): a quote, a letter or `_`, a digit, `-`, `[`, `{` -/
def isConstStart (c : Char) : Bool :=
  c == '\'' || c == '"' || isIdentStart c || isDecDigit c || c == '-' || c == '[' || c == '{'

theorem decDigits_head (n : Nat) : ∃ c cs, decDigits n = c :: cs ∧ isDecDigit c = true := by
  obtain ⟨h1, h2, _⟩ := decDigits_spec n
  cases h : decDigits n with
  | nil => exact absurd h h1
  | cons c cs => exact ⟨c, cs, rfl, h2 c (by simp [h])⟩

theorem rConst_start {c : ConstValue} (hw : c.wf = true) (hs : c.supported = true) (l : Layout) (x : List Char) :
    hdP isConstStart ((rConst c l).1 ++ x) = true ∧ (rConst c l).1 ≠ [] := by
  cases c with
  | bool b => cases b <;> exact ⟨by simp only [rConst, rLit_fst]; (show isConstStart _ = true); decide, by simp [rConst]⟩
  | path p =>
    simp only [ConstValue.wf, Bool.and_eq_true] at hw
    obtain ⟨s, rest, hs', _, e, _⟩ := rPath_cons hw.1.1 l
    obtain ⟨c0, cs, rfl, hc, _⟩ := identOk_cons hs'
    simp only [rConst, e, List.append_assoc, List.cons_append]
    exact ⟨by simp [isConstStart, hc], by simp⟩
  | string t =>
    simp only [ConstValue.wf] at hw
    simp only [rConst]
    rw [rLiteral_append]
    refine ⟨?_, by simp [rLiteral]⟩
    rcases (quoteFor_spec l.pop.1.flag hw).1 with e | e <;> rw [e] <;> (show isConstStart _ = true) <;> decide
  | int n =>
    simp only [rConst, rLit_fst, intText]
    split
    · exact ⟨by show isConstStart '-' = true; decide, by simp⟩
    · obtain ⟨c0, cs, e, hc⟩ := decDigits_head n.toNat
      rw [e]; exact ⟨by simp [isConstStart, hc], by simp⟩
  | double t => simp [ConstValue.supported] at hs
  | list xs => exact ⟨by simp only [rConst, rSeq_fst, rLit_fst, List.append_assoc]; (show isConstStart '[' = true); decide, by simp [rConst]⟩
  | map kvs => exact ⟨by simp only [rConst, rSeq_fst, rLit_fst, List.append_assoc]; (show isConstStart '{' = true); decide, by simp [rConst]⟩

theorem constStart_props {c : Char} (h : isConstStart c = true) :
    notBlankStart c = true ∧ (!(c == ',' || c == ';')) = true ∧ (c != '.') = true ∧ (c != ':') = true ∧
    (c != ']') = true ∧ (c != '}') = true := by
  simp only [isConstStart, Bool.or_eq_true, beq_iff_eq] at h
  rcases h with (((((h | h) | h) | h) | h) | h) | h
  · subst h; decide
  · subst h; decide
  · refine ⟨identStart_NB h, identStart_noSep h, identStart_ne h (by decide), identStart_ne h (by decide),
      identStart_ne h (by decide), identStart_ne h (by decide)⟩
  · have hne : ∀ x : Char, isDecDigit x = false → (c != x) = true := by
      intro x hx; simp only [bne_iff_ne, ne_eq]; intro e; subst e; rw [h] at hx; cases hx
    refine ⟨?_, ?_, hne _ (by decide), hne _ (by decide), hne _ (by decide), hne _ (by decide)⟩
    · cases hb : notBlankStart c with
      | true => rfl
      | false => rcases blankStart_cases hb with e | e | e | e | e | e <;> subst e <;> revert h <;> decide
    · have h1 := hne ',' (by decide); have h2 := hne ';' (by decide)
      simp only [bne_iff_ne, ne_eq] at h1 h2; simp [h1, h2]
  · subst h; decide
  · subst h; decide
  · subst h; decide

/-! ### arms of `ConstValue::parse` that fail by the first character -/

theorem literal_err_hd {r : List Char} (h : hdP (fun c => c != '\'' && c != '"') r = true) : Literal.parse r = .err := by
  cases r with
  | nil => rfl
  | cons c x =>
    simp only [hdP_cons, Bool.and_eq_true, bne_iff_ne, ne_eq] at h
    have e1 : quoted '\'' (c :: x) = .err := andThen_of_err (tag_cons_ne (fun e => h.1 e.symm))
    have e2 : quoted '"' (c :: x) = .err := andThen_of_err (tag_cons_ne (fun e => h.2 e.symm))
    simp [Literal.parse, alt, e1, e2]

theorem ident_err_hd {r : List Char} (h : hdP (fun c => !isIdentStart c) r = true) (hne : r ≠ []) : Ident.parse r = .err := by
  cases r with
  | nil => exact absurd rfl hne
  | cons c x =>
    simp only [hdP_cons, Bool.not_eq_true'] at h
    simp [Ident.parse, recognize, andThen, satisfy, h, PR.bind]

theorem path_err_hd {r : List Char} (h : hdP (fun c => !isIdentStart c) r = true) (hne : r ≠ []) : Path.parse r = .err := by
  simp [Path.parse, pmap, separatedList1, ident_err_hd h hne, PR.bind, PR.map]

theorem digit1_err_hd {r : List Char} (h : hdP (fun c => !isDecDigit c) r = true) : digit1 r = .err := by
  cases r with
  | nil => rfl
  | cons c x => simp only [hdP_cons, Bool.not_eq_true'] at h; simp [digit1, takeWhile1, h]

theorem tagNoCase_e_err {r : List Char} (h : hdP (fun c => !lowerEq c 'e') r = true) : tagNoCase ['e'] r = .err := by
  cases r with
  | nil => rfl
  | cons c x => simp only [hdP_cons, Bool.not_eq_true'] at h; simp [tagNoCase, stripPrefixNoCase, h]

theorem sepChar_not_lower_e (c : Char) (h : isSepChar c = true) : lowerEq c 'e' = false := by
  rcases isSepChar_cases h with h | h | h | h | h | h | h | h | h | h | h | h | h | h | h | h | h | h | h | h <;> subst h <;> decide

/-- the alternatives of `DoubleConstant::parse` after the optional signs -/
def doubleBody (d : Nat) : P Unit := alt [
  (andThen digit1 fun _ => andThen (tag ['.']) fun _ => andThen (opt digit1) fun _ => andThen (opt (exponent d)) fun _ => ret ()),
  (andThen (opt digit1) fun _ => andThen (tag ['.']) fun _ => andThen digit1 fun _ => andThen (opt (exponent d)) fun _ => ret ()),
  (andThen digit1 fun _ => andThen (tagNoCase ['e']) fun _ => andThen (IntConstant.parse d) fun _ => ret ())]

theorem doubleBody_err_digits (d : Nat) {ds r : List Char} (hne : ds ≠ []) (hd : ∀ c ∈ ds, isDecDigit c = true) (hr : Sep r) :
    doubleBody d (ds ++ r) = .err := by
  have h1 := digit1_rt hne hd hr.noDigit
  have hdot : tag ['.'] r = .err := tag_hd (sep_not (f := fun c => c == '.') (by
    intro c hc; rcases isSepChar_cases hc with h | h | h | h | h | h | h | h | h | h | h | h | h | h | h | h | h | h | h | h <;> subst h <;> decide) hr |>
    fun h => by simpa [bne] using h)
  have he : tagNoCase ['e'] r = .err := tagNoCase_e_err (sep_not sepChar_not_lower_e hr)
  unfold doubleBody
  rw [alt_cons_of_err (by rw [andThen_of_ok h1]; exact andThen_of_err hdot),
    alt_cons_of_err (by rw [andThen_of_ok (opt_of_ok h1)]; exact andThen_of_err hdot),
    alt_cons_of_err (by rw [andThen_of_ok h1]; exact andThen_of_err he)]
  rfl

theorem doubleBody_err_hd (d : Nat) {r : List Char} (h1 : hdP (fun c => !isDecDigit c) r = true)
    (h2 : hdP (fun c => c != '.') r = true) : doubleBody d r = .err := by
  have hd := digit1_err_hd h1
  unfold doubleBody
  rw [alt_cons_of_err (andThen_of_err hd),
    alt_cons_of_err (by rw [andThen_of_ok (opt_of_err hd)]; exact andThen_of_err (tag_hd h2)),
    alt_cons_of_err (andThen_of_err hd)]
  rfl

theorem double_of_body (d : Nat) (s : List Char) : DoubleConstant.parse d s =
    mapRes (recognize (andThen (opt (tag ['-'])) fun _ => andThen (opt (tag ['+'])) fun _ => doubleBody d)) (fun t => some t) s := rfl

theorem double_err_of_body {d : Nat} {s s1 s2 : List Char} {a b}
    (h1 : opt (tag ['-']) s = .ok a s1) (h2 : opt (tag ['+']) s1 = .ok b s2) (h3 : doubleBody d s2 = .err) :
    DoubleConstant.parse d s = .err := by
  rw [double_of_body]
  have : (andThen (opt (tag ['-'])) fun _ => andThen (opt (tag ['+'])) fun _ => doubleBody d) s = .err := by
    rw [andThen_of_ok h1, andThen_of_ok h2]; exact h3
  simp [mapRes, recognize, this, PR.bind]

/-- `Double` is tried before `Int`: it must fail on the decimal spelling of an integer -/
theorem double_err_int (d : Nat) {n : Int} {r : List Char} (hr : Sep r) : DoubleConstant.parse d (intText n ++ r) = .err := by
  unfold intText
  split
  · obtain ⟨h1, h2, _⟩ := decDigits_spec (-n).toNat
    obtain ⟨c, cs, e, hc⟩ := decDigits_head (-n).toNat
    have hplus : tag ['+'] (decDigits (-n).toNat ++ r) = .err := by
      rw [e]; exact tag_cons_ne (by intro h; subst h; revert hc; decide)
    exact double_err_of_body (opt_of_ok (tag_append ['-'] _)) (opt_of_err hplus) (doubleBody_err_digits d h1 h2 hr)
  · obtain ⟨h1, h2, _⟩ := decDigits_spec n.toNat
    obtain ⟨c, cs, e, hc⟩ := decDigits_head n.toNat
    have hplus : tag ['+'] (decDigits n.toNat ++ r) = .err := by
      rw [e]; exact tag_cons_ne (by intro h; subst h; revert hc; decide)
    exact double_err_of_body (opt_of_err (digits_no_minus h2 h1)) (opt_of_err hplus) (doubleBody_err_digits d h1 h2 hr)

theorem double_err_hd (d : Nat) {r : List Char} (h0 : hdP (fun c => c != '-' && c != '+') r = true)
    (h1 : hdP (fun c => !isDecDigit c) r = true) (h2 : hdP (fun c => c != '.') r = true) :
    DoubleConstant.parse d r = .err := by
  have hm : tag ['-'] r = .err := tag_hd (hdP_mono (by intro c hc; simp at hc ⊢; exact hc.1) h0)
  have hp : tag ['+'] r = .err := tag_hd (hdP_mono (by intro c hc; simp at hc ⊢; exact hc.2) h0)
  exact double_err_of_body (opt_of_err hm) (opt_of_err hp) (doubleBody_err_hd d h1 h2)

theorem int_err_hd (d : Nat) {r : List Char} (h0 : hdP (fun c => c != '-') r = true)
    (h1 : hdP (fun c => !isDecDigit c) r = true) : IntConstant.parse (d + 1) r = .err := by
  have hd := digit1_err_hd h1
  have h0x : tag ['0', 'x'] r = .err := by
    cases r with
    | nil => rfl
    | cons c x =>
      simp only [hdP_cons, Bool.not_eq_true'] at h1
      exact tag_cons_ne (by intro e; subst e; revert h1; decide)
  unfold IntConstant.parse
  rw [alt_cons_of_err (skip_of_err (tag_hd h0)), alt_cons_of_err (skip_of_err h0x)]
  simp [alt, mapRes, hd, PR.bind]

/-! ### `const_rt` -/

/-- what an element of a list / map literal needs of the text after its tail -/
def ElemFollow (R : List Char) : Prop := NB R ∧ NoSepStart R ∧ hdP (fun c => c != '.') R = true

theorem elemFollow_of_start {R : List Char} (h : hdP isConstStart R = true) : ElemFollow R :=
  ⟨hdP_mono (fun _ hc => (constStart_props hc).1) h, hdP_mono (fun _ hc => (constStart_props hc).2.1) h,
   hdP_mono (fun _ hc => (constStart_props hc).2.2.1) h⟩

theorem constFollow_tail {x : ConstValue} (last : Bool) (l : Layout) {R : List Char} (hR : ElemFollow R)
    (hlast : last = true → Sep R) : ConstFollow x ((rTail x.endsOpen last l).1 ++ R) := by
  apply constFollow_general
  · intro ho
    apply tail_sep
    cases last with
    | true => exact Or.inr (hlast rfl)
    | false => exact Or.inl (by simp [ho])
  · exact tail_pathStop _ _ _ hR.1 hR.2.2

/-- one element of a list literal -/
theorem constElem_step {d : Nat} {x : ConstValue} (hw : x.wf = true) (hs : x.supported = true)
    (hrt : ∀ l r, ConstFollow x r → ConstValue.parse d ((rConst x l).1 ++ r) = .ok x r)
    (last : Bool) (l : Layout) {bl R : List Char} (hbl : BT bl) (hR : ElemFollow R) (hlast : last = true → Sep R) :
    (andThen (opt blank) fun _ => andThen (ConstValue.parse d) fun e => andThen (opt blank) fun _ =>
      andThen (opt listSeparator) fun _ => ret e) (bl ++ ((rConstElem x last l).1 ++ R)) = .ok x R := by
  simp only [rConstElem, rSeq_fst, rSeq_snd, List.append_assoc]
  have hnb : NB ((rConst x l).1 ++ ((rTail x.endsOpen last (rConst x l).2).1 ++ R)) :=
    hdP_mono (fun _ hc => (constStart_props hc).1) (rConst_start hw hs l _).1
  rw [andThen_optBlank hbl hnb, andThen_of_ok (hrt _ _ (constFollow_tail last _ hR hlast)),
    tail_rt _ _ _ hR.1 hR.2.1]
  rfl

/-- one `key : value` entry of a map literal -/
theorem constPair_step {d : Nat} {kv : ConstValue × ConstValue} (hwk : kv.1.wf = true) (hsk : kv.1.supported = true)
    (hwv : kv.2.wf = true) (hsv : kv.2.supported = true)
    (hrtk : ∀ l r, ConstFollow kv.1 r → ConstValue.parse d ((rConst kv.1 l).1 ++ r) = .ok kv.1 r)
    (hrtv : ∀ l r, ConstFollow kv.2 r → ConstValue.parse d ((rConst kv.2 l).1 ++ r) = .ok kv.2 r)
    (last : Bool) (l : Layout) {bl R : List Char} (hbl : BT bl) (hR : ElemFollow R) (hlast : last = true → Sep R) :
    (andThen (opt blank) fun _ => andThen (ConstValue.parse d) fun k => andThen (opt blank) fun _ =>
      andThen (tag [':']) fun _ => andThen (opt blank) fun _ => andThen (ConstValue.parse d) fun v =>
      andThen (opt blank) fun _ => andThen (opt listSeparator) fun _ => ret (k, v))
      (bl ++ ((rConstPair kv last l).1 ++ R)) = .ok kv R := by
  simp only [rConstPair, rSeq_fst, rSeq_snd, rLit_fst, rLit_snd, List.append_assoc]
  have hnbk : ∀ y, NB ((rConst kv.1 l).1 ++ y) := fun y =>
    hdP_mono (fun _ hc => (constStart_props hc).1) (rConst_start hwk hsk l y).1
  have hnbv : ∀ l' y, NB ((rConst kv.2 l').1 ++ y) := fun l' y =>
    hdP_mono (fun _ hc => (constStart_props hc).1) (rConst_start hwv hsv l' y).1
  have hfk : ∀ y, ConstFollow kv.1 ((rB0 (rConst kv.1 l).2).1 ++ ([':'] ++ y)) := by
    intro y
    apply constFollow_general
    · intro _; exact (rB0_BT _).sep_append (Or.inr (by show isSepChar ':' = true; decide))
    · exact pathStop_of (rB0_BT _) (by show notBlankStart ':' = true; decide) (by show (':' != '.') = true; decide)
  rw [andThen_optBlank hbl (hnbk _), andThen_of_ok (hrtk _ _ (hfk _)),
    andThen_optBlank (rB0_BT _) (by show notBlankStart ':' = true; decide), andThen_of_ok (tag_append _ _),
    andThen_optBlank (rB0_BT _) (hnbv _ _), andThen_of_ok (hrtv _ _ (constFollow_tail last _ hR hlast)),
    tail_rt _ _ _ hR.1 hR.2.1]
  rfl

theorem constArms_err_bracket (d : Nat) (c : Char) (x : List Char) (hc : c = ']' ∨ c = '}' ∨ c = '[' ∨ c = '{') :
    Literal.parse (c :: x) = .err ∧ (∀ kw v, kw = cs!"true" ∨ kw = cs!"false" → keyword (α := ConstValue) kw v (c :: x) = .err) ∧
    Path.parse (c :: x) = .err ∧ DoubleConstant.parse (d + 1) (c :: x) = .err ∧ IntConstant.parse (d + 1) (c :: x) = .err := by
  refine ⟨literal_err_hd ?_, ?_, path_err_hd ?_ (by simp), double_err_hd (d + 1) ?_ ?_ ?_, int_err_hd d ?_ ?_⟩
  · rcases hc with h | h | h | h <;> subst h <;> rw [hdP_cons] <;> decide
  · intro kw v hk
    rcases hk with h | h <;> subst h <;> apply andThen_of_err <;> apply tag_cons_ne <;>
      (rcases hc with h | h | h | h <;> subst h <;> decide)
  all_goals rcases hc with h | h | h | h <;> subst h <;> rw [hdP_cons] <;> decide

end Pilota.Idl
