import PilotaModel.Lemmas.IdlItem
/-
  C15: constant values (`const_rt`, recursion through list and map literals).
  (`ConstValue.supported` was the stage restriction "no double literal"; it is now true of every value.)
-/
namespace Pilota.Idl

mutual
def ConstValue.supported : ConstValue → Bool
  | .double _ => true
  | .list xs => ConstValue.supportedList xs
  | .map kvs => ConstValue.supportedPairs kvs
  | _ => true
def ConstValue.supportedList : List ConstValue → Bool
  | [] => true
  | x :: xs => x.supported && ConstValue.supportedList xs
def ConstValue.supportedPairs : List (ConstValue × ConstValue) → Bool
  | [] => true
  | (k, v) :: kvs => k.supported && v.supported && ConstValue.supportedPairs kvs
end

mutual
def ConstValue.depth : ConstValue → Nat
  | .list xs => ConstValue.depthList xs + 1
  | .map kvs => ConstValue.depthPairs kvs + 1
  | _ => 0
def ConstValue.depthList : List ConstValue → Nat
  | [] => 0
  | x :: xs => max x.depth (ConstValue.depthList xs)
def ConstValue.depthPairs : List (ConstValue × ConstValue) → Nat
  | [] => 0
  | (k, v) :: kvs => max (max k.depth v.depth) (ConstValue.depthPairs kvs)
end

theorem wfList_mem : ∀ {xs : List ConstValue} {x}, ConstValue.wfList xs = true → x ∈ xs → x.wf = true
  | y :: ys, x, h, hx => by
    simp only [ConstValue.wfList, Bool.and_eq_true] at h
    rcases List.mem_cons.mp hx with rfl | hx
    · exact h.1
    · exact wfList_mem h.2 hx
theorem supportedList_mem : ∀ {xs : List ConstValue} {x}, ConstValue.supportedList xs = true → x ∈ xs → x.supported = true
  | y :: ys, x, h, hx => by
    simp only [ConstValue.supportedList, Bool.and_eq_true] at h
    rcases List.mem_cons.mp hx with rfl | hx
    · exact h.1
    · exact supportedList_mem h.2 hx
theorem depthList_mem : ∀ {xs : List ConstValue} {x}, x ∈ xs → x.depth ≤ ConstValue.depthList xs
  | y :: ys, x, hx => by
    simp only [ConstValue.depthList]
    rcases List.mem_cons.mp hx with rfl | hx
    · exact Nat.le_max_left _ _
    · exact Nat.le_trans (depthList_mem hx) (Nat.le_max_right _ _)
theorem wfPairs_mem : ∀ {kvs : List (ConstValue × ConstValue)} {kv}, ConstValue.wfPairs kvs = true → kv ∈ kvs →
    kv.1.wf = true ∧ kv.2.wf = true
  | (k, v) :: ys, kv, h, hx => by
    simp only [ConstValue.wfPairs, Bool.and_eq_true] at h
    rcases List.mem_cons.mp hx with rfl | hx
    · exact ⟨h.1.1, h.1.2⟩
    · exact wfPairs_mem h.2 hx
theorem supportedPairs_mem : ∀ {kvs : List (ConstValue × ConstValue)} {kv}, ConstValue.supportedPairs kvs = true → kv ∈ kvs →
    kv.1.supported = true ∧ kv.2.supported = true
  | (k, v) :: ys, kv, h, hx => by
    simp only [ConstValue.supportedPairs, Bool.and_eq_true] at h
    rcases List.mem_cons.mp hx with rfl | hx
    · exact ⟨h.1.1, h.1.2⟩
    · exact supportedPairs_mem h.2 hx
theorem depthPairs_mem : ∀ {kvs : List (ConstValue × ConstValue)} {kv}, kv ∈ kvs →
    kv.1.depth ≤ ConstValue.depthPairs kvs ∧ kv.2.depth ≤ ConstValue.depthPairs kvs
  | (k, v) :: ys, kv, hx => by
    simp only [ConstValue.depthPairs]
    rcases List.mem_cons.mp hx with rfl | hx
    · exact ⟨Nat.le_trans (Nat.le_max_left _ _) (Nat.le_max_left _ _), Nat.le_trans (Nat.le_max_right _ _) (Nat.le_max_left _ _)⟩
    · have := depthPairs_mem hx
      exact ⟨Nat.le_trans this.1 (Nat.le_max_right _ _), Nat.le_trans this.2 (Nat.le_max_right _ _)⟩

/-! ### rendered element lists are `rSlots` -/

def rConstElem (x : ConstValue) (last : Bool) : R := rConst x +> rTail x.endsOpen last
def rConstPair (kv : ConstValue × ConstValue) (last : Bool) : R :=
  rConst kv.1 +> rB0 +> rLit [':'] +> rB0 +> rConst kv.2 +> rTail kv.2.endsOpen last

theorem rConstElems_slots : ∀ (xs : List ConstValue) (l : Layout), rConstElems xs l = rSlots rConstElem xs l
  | [], l => rfl
  | x :: xs, l => by
    simp only [rConstElems, rSlots, rConstElem, rSeq]
    rw [rConstElems_slots xs]
    simp only [List.append_assoc]
theorem rConstPairs_slots : ∀ (kvs : List (ConstValue × ConstValue)) (l : Layout), rConstPairs kvs l = rSlots rConstPair kvs l
  | [], l => rfl
  | (k, v) :: kvs, l => by
    simp only [rConstPairs, rSlots, rConstPair, rSeq]
    rw [rConstPairs_slots kvs]
    simp only [List.append_assoc]

theorem decDigits_head (n : Nat) : ∃ c cs, decDigits n = c :: cs ∧ isDecDigit c = true := by
  obtain ⟨h1, h2, _⟩ := decDigits_spec n
  cases h : decDigits n with
  | nil => exact absurd h h1
  | cons c cs => exact ⟨c, cs, rfl, h2 c (by simp [h])⟩


/-! ### arms of `ConstValue::parse` that fail by the first character -/

theorem literal_err_hd {r : List Char} (h : hdP (fun c => c != '\'' && c != '"') r = true) : Literal.parse r = .err := by
  cases r with
  | nil => rfl
  | cons c x =>
    simp only [hdP_cons, Bool.and_eq_true, bne_iff_ne, ne_eq] at h
    have e1 : quoted '\'' (c :: x) = .err := andThen_of_err (tag_cons_ne (fun e => h.1 e.symm))
    have e2 : quoted '"' (c :: x) = .err := andThen_of_err (tag_cons_ne (fun e => h.2 e.symm))
    simp [Literal.parse, alt, e1, e2]

theorem ident_err_hd {r : List Char} (h : hdP (fun c => !isIdentStart c) r = true) (hne : r ≠ []) : Ident.parse r = .err := by
  cases r with
  | nil => exact absurd rfl hne
  | cons c x =>
    simp only [hdP_cons, Bool.not_eq_true'] at h
    simp [Ident.parse, recognize, andThen, satisfy, h, PR.bind]

theorem path_err_hd {r : List Char} (h : hdP (fun c => !isIdentStart c) r = true) (hne : r ≠ []) : Path.parse r = .err := by
  simp [Path.parse, pmap, separatedList1, ident_err_hd h hne, PR.bind, PR.map]

theorem digit1_err_hd {r : List Char} (h : hdP (fun c => !isDecDigit c) r = true) : digit1 r = .err := by
  cases r with
  | nil => rfl
  | cons c x => simp only [hdP_cons, Bool.not_eq_true'] at h; simp [digit1, takeWhile1, h]

theorem tagNoCase_e_err {r : List Char} (h : hdP (fun c => !lowerEq c 'e') r = true) : tagNoCase ['e'] r = .err := by
  cases r with
  | nil => rfl
  | cons c x => simp only [hdP_cons, Bool.not_eq_true'] at h; simp [tagNoCase, stripPrefixNoCase, h]

theorem sepChar_not_lower_e (c : Char) (h : isSepChar c = true) : lowerEq c 'e' = false := by
  rcases isSepChar_cases h with h | h | h | h | h | h | h | h | h | h | h | h | h | h | h | h | h | h | h | h <;> subst h <;> decide

/-- the alternatives of `DoubleConstant::parse` after the optional signs -/
def doubleBody : P Unit := alt [
  (andThen digit1 fun _ => andThen (tag ['.']) fun _ => andThen (opt digit1) fun _ => andThen (opt exponent) fun _ => ret ()),
  (andThen (opt digit1) fun _ => andThen (tag ['.']) fun _ => andThen digit1 fun _ => andThen (opt exponent) fun _ => ret ()),
  (andThen digit1 fun _ => andThen (tagNoCase ['e']) fun _ => andThen IntConstant.parse fun _ => ret ())]

theorem doubleBody_err_digits {ds r : List Char} (hne : ds ≠ []) (hd : ∀ c ∈ ds, isDecDigit c = true) (hr : Sep r) :
    doubleBody (ds ++ r) = .err := by
  have h1 := digit1_rt hne hd hr.noDigit
  have hdot : tag ['.'] r = .err := tag_hd (sep_not (f := fun c => c == '.') (by
    intro c hc; rcases isSepChar_cases hc with h | h | h | h | h | h | h | h | h | h | h | h | h | h | h | h | h | h | h | h <;> subst h <;> decide) hr |>
    fun h => by simpa [bne] using h)
  have he : tagNoCase ['e'] r = .err := tagNoCase_e_err (sep_not sepChar_not_lower_e hr)
  unfold doubleBody
  rw [alt_cons_of_err (by rw [andThen_of_ok h1]; exact andThen_of_err hdot),
    alt_cons_of_err (by rw [andThen_of_ok (opt_of_ok h1)]; exact andThen_of_err hdot),
    alt_cons_of_err (by rw [andThen_of_ok h1]; exact andThen_of_err he)]
  rfl

theorem doubleBody_err_hd {r : List Char} (h1 : hdP (fun c => !isDecDigit c) r = true)
    (h2 : hdP (fun c => c != '.') r = true) : doubleBody r = .err := by
  have hd := digit1_err_hd h1
  unfold doubleBody
  rw [alt_cons_of_err (andThen_of_err hd),
    alt_cons_of_err (by rw [andThen_of_ok (opt_of_err hd)]; exact andThen_of_err (tag_hd h2)),
    alt_cons_of_err (andThen_of_err hd)]
  rfl

theorem double_of_body (s : List Char) : DoubleConstant.parse s =
    mapRes (recognize (andThen (opt (tag ['-'])) fun _ => andThen (opt (tag ['+'])) fun _ => doubleBody)) (fun t => some t) s := rfl

theorem double_err_of_body {s s1 s2 : List Char} {a b}
    (h1 : opt (tag ['-']) s = .ok a s1) (h2 : opt (tag ['+']) s1 = .ok b s2) (h3 : doubleBody s2 = .err) :
    DoubleConstant.parse s = .err := by
  rw [double_of_body]
  have : (andThen (opt (tag ['-'])) fun _ => andThen (opt (tag ['+'])) fun _ => doubleBody) s = .err := by
    rw [andThen_of_ok h1, andThen_of_ok h2]; exact h3
  simp [mapRes, recognize, this, PR.bind]

/-- `Double` is tried before `Int`: it must fail on the decimal spelling of an integer -/
theorem double_err_int {n : Int} {r : List Char} (hr : Sep r) : DoubleConstant.parse (intText n ++ r) = .err := by
  unfold intText
  split
  · obtain ⟨h1, h2, _⟩ := decDigits_spec (-n).toNat
    obtain ⟨c, cs, e, hc⟩ := decDigits_head (-n).toNat
    have hplus : tag ['+'] (decDigits (-n).toNat ++ r) = .err := by
      rw [e]; exact tag_cons_ne (by intro h; subst h; revert hc; decide)
    exact double_err_of_body (opt_of_ok (tag_append ['-'] _)) (opt_of_err hplus) (doubleBody_err_digits h1 h2 hr)
  · obtain ⟨h1, h2, _⟩ := decDigits_spec n.toNat
    obtain ⟨c, cs, e, hc⟩ := decDigits_head n.toNat
    have hplus : tag ['+'] (decDigits n.toNat ++ r) = .err := by
      rw [e]; exact tag_cons_ne (by intro h; subst h; revert hc; decide)
    exact double_err_of_body (opt_of_err (digits_no_minus h2 h1)) (opt_of_err hplus) (doubleBody_err_digits h1 h2 hr)

theorem double_err_hd {r : List Char} (h0 : hdP (fun c => c != '-' && c != '+') r = true)
    (h1 : hdP (fun c => !isDecDigit c) r = true) (h2 : hdP (fun c => c != '.') r = true) :
    DoubleConstant.parse r = .err := by
  have hm : tag ['-'] r = .err := tag_hd (hdP_mono (by intro c hc; simp at hc ⊢; exact hc.1) h0)
  have hp : tag ['+'] r = .err := tag_hd (hdP_mono (by intro c hc; simp at hc ⊢; exact hc.2) h0)
  exact double_err_of_body (opt_of_err hm) (opt_of_err hp) (doubleBody_err_hd h1 h2)

theorem int_err_hd {r : List Char} (h0 : hdP (fun c => c != '-') r = true)
    (h1 : hdP (fun c => !isDecDigit c) r = true) : IntConstant.parse r = .err := by
  have hd := digit1_err_hd h1
  have h0x : tag ['0', 'x'] r = .err := by
    cases r with
    | nil => rfl
    | cons c x =>
      simp only [hdP_cons, Bool.not_eq_true'] at h1
      exact tag_cons_ne (by intro e; subst e; revert h1; decide)
  have hu : IntConstant.unsigned r = .err := by
    unfold IntConstant.unsigned
    rw [alt_cons_of_err (skip_of_err h0x)]
    simp [alt, mapRes, hd, PR.bind]
  unfold IntConstant.parse
  rw [alt_cons_of_err (skip_of_err (tag_hd h0)), alt_cons_of_err hu]
  rfl

end Pilota.Idl
