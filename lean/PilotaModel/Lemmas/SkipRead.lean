import PilotaModel.Lemmas.SkipPrims
import PilotaModel.Lemmas.Base
/-
  A skipper consumes exactly what the reading interpreter would consume, on EVERY input the
  reader accepts: `readVal … = ok (v, r)` implies `skip … = ok (consumed, r)` when the depth
  budget covers the nesting of `v`, and `err depth` when it does not.
-/
namespace Pilota.Thrift.Skip
open Pilota Pilota.Thrift

theorem TVal.need_pos (v : TVal) : 1 ≤ v.need := by cases v <;> simp [TVal.need]

theorem advance_of_readI {e w bs n r} (h : Binary.readI e w bs = .ok (n, r)) : advance w bs = .ok (w, r) := by
  obtain ⟨h1, rfl⟩ := Binary.readI_ok h; simp [advance, h1]
theorem advance_of_readU {e w bs n r} (h : Binary.readU e w bs = .ok (n, r)) : advance w bs = .ok (w, r) := by
  obtain ⟨h1, rfl⟩ := Binary.readU_ok h; simp [advance, h1]
theorem advance_of_takeN {w bs a r} (h : Binary.takeN w bs = .ok (a, r)) : advance w bs = .ok (w, r) := by
  obtain ⟨h1, _, rfl⟩ := Binary.takeN_ok h; simp [advance, h1]
theorem skipBinary_of_readBytes {e bs b r} (h : Binary.readBytes e bs = .ok (b, r)) : skipBinary e bs = .ok (4 + b.length, r) := by
  obtain ⟨len, r0, h1, h2, rfl, rfl⟩ := Binary.readBytes_ok h
  simp [skipBinary, h1, h2]
attribute [grind →] advance_of_readI advance_of_readU advance_of_takeN skipBinary_of_readBytes

/-- what a skipper with budget `d` must answer where a reader returned `rd`. -/
def spec {α : Type} (need : α → Nat) (off : Int) (d : Int) (bs : Bytes) (rd : Out (α × Bytes)) (sk : Out (Nat × Bytes)) : Out (Nat × Bytes) :=
  match rd with
  | .ok (v, r) => if (need v : Int) + off ≤ d then .ok (bs.length - r.length, r) else .err .depth
  | _ => sk

theorem skip_of_read (e : Endian) : ∀ f,
    (∀ d t bs, 0 ≤ d → skipVal e f d t bs = spec TVal.need 0 d bs (Binary.readVal e f t bs) (skipVal e f d t bs)) ∧
    (∀ d bs, 1 ≤ d → skipFields e f d bs = spec TFields.need 1 d bs (Binary.readFields e f bs) (skipFields e f d bs)) ∧
    (∀ d et n bs, 1 ≤ d → skipN e f d et n bs = spec TVals.need 1 d bs (Binary.readN e f et n bs) (skipN e f d et n bs)) ∧
    (∀ d kt vt n bs, 1 ≤ d → skipPairs e f d kt vt n bs = spec TPairs.need 1 d bs (Binary.readPairs e f kt vt n bs) (skipPairs e f d kt vt n bs)) := by
  intro f
  induction f with
  | zero => simp [Binary.readVal, Binary.readFields, Binary.readN, Binary.readPairs, spec]
  | succ f ih =>
    obtain ⟨ih1, ih2, ih3, ih4⟩ := ih
    refine ⟨?_, ?_, ?_, ?_⟩
    · intro d t bs hd
      cases h : Binary.readVal e (f+1) t bs with
      | ok p =>
        obtain ⟨v, r⟩ := p
        simp only [spec]
        cases t <;> simp only [Binary.readVal] at h <;> simp only [skipVal] <;> osplit_at h <;> grind [TVal.need, spec]
      | err k => rfl
      | panic m => rfl
      | fuel => rfl
    · intro d bs hd
      cases h : Binary.readFields e (f+1) bs with
      | ok p =>
        obtain ⟨v, r⟩ := p
        simp only [spec]
        simp only [Binary.readFields] at h; simp only [skipFields]; osplit_at h <;> grind [TFields.need, spec]
      | err k => rfl
      | panic m => rfl
      | fuel => rfl
    · intro d et n bs hd
      cases h : Binary.readN e (f+1) et n bs with
      | ok p =>
        obtain ⟨v, r⟩ := p
        simp only [spec]
        cases n <;> simp only [Binary.readN] at h <;> simp only [skipN] <;> osplit_at h <;> grind [TVals.need, spec]
      | err k => rfl
      | panic m => rfl
      | fuel => rfl
    · intro d kt vt n bs hd
      cases h : Binary.readPairs e (f+1) kt vt n bs with
      | ok p =>
        obtain ⟨v, r⟩ := p
        simp only [spec]
        cases n <;> simp only [Binary.readPairs] at h <;> simp only [skipPairs] <;> osplit_at h <;> grind [TPairs.need, spec]
      | err k => rfl
      | panic m => rfl
      | fuel => rfl

theorem skip_of_read_ok {e f d t bs v r} (hd : 0 ≤ d) (h : Binary.readVal e f t bs = .ok (v, r)) (hn : (v.need : Int) ≤ d) :
    skipVal e f d t bs = .ok (bs.length - r.length, r) := by
  have := (skip_of_read e f).1 d t bs hd
  rw [h] at this; simp [spec, hn] at this; exact this

theorem skip_of_read_depth {e f d t bs v r} (hd : 0 ≤ d) (h : Binary.readVal e f t bs = .ok (v, r)) (hn : d < (v.need : Int)) :
    skipVal e f d t bs = .err .depth := by
  have := (skip_of_read e f).1 d t bs hd
  have hn' : ¬ (v.need : Int) ≤ d := by omega
  rw [h] at this; simp [spec, hn'] at this; exact this

/-! ### read-and-discard skippers over the compact reader state -/

/-- the primitive set reads like the in-memory compact reader wherever that reader succeeds. -/
structure Prims.LikeCompact (P : Prims Compact.CR) : Prop where
  leaf : P.leaf = compactLeaf
  sb : P.structBegin = Compact.readStructBegin
  se : P.structEnd = Compact.readStructEnd
  fb : P.fieldBegin = Compact.readFieldBegin
  lb : ∀ bs x r, Compact.readCollBegin bs = .ok (x, r) → P.listBegin bs = .ok (x, r)
  mb : ∀ bs x r, Compact.readMapBegin bs = .ok (x, r) → P.mapBegin bs = .ok (x, r)

def specC {α : Type} (need : α → Nat) (off : Int) (d : Int) (rd : Out (α × Compact.CR × Bytes)) (sk : Out (Compact.CR × Bytes)) : Out (Compact.CR × Bytes) :=
  match rd with
  | .ok (v, s, r) => if (need v : Int) + off ≤ d then .ok (s, r) else .err .depth
  | _ => sk

theorem rdSkip_of_read (P : Prims Compact.CR) (hP : P.LikeCompact) : ∀ f,
    (∀ d t s bs, 0 ≤ d → rdSkip P f d t s bs = specC TVal.need 0 d (Compact.readVal f t s bs) (rdSkip P f d t s bs)) ∧
    (∀ d s bs, 1 ≤ d → rdFields P f d s bs = specC TFields.need 1 d (Compact.readFields f s bs) (rdFields P f d s bs)) ∧
    (∀ d et n s bs, 1 ≤ d → rdN P f d et n s bs = specC TVals.need 1 d (Compact.readN f et n s bs) (rdN P f d et n s bs)) ∧
    (∀ d kt vt n s bs, 1 ≤ d → rdPairs P f d kt vt n s bs = specC TPairs.need 1 d (Compact.readPairs f kt vt n s bs) (rdPairs P f d kt vt n s bs)) := by
  obtain ⟨hleaf, hsb, hse, hfb, hlb, hmb⟩ := hP
  intro f
  induction f with
  | zero => simp [Compact.readVal, Compact.readFields, Compact.readN, Compact.readPairs, specC]
  | succ f ih =>
    obtain ⟨ih1, ih2, ih3, ih4⟩ := ih
    refine ⟨?_, ?_, ?_, ?_⟩
    · intro d t s bs hd
      cases h : Compact.readVal (f+1) t s bs with
      | ok p =>
        obtain ⟨v, s', r⟩ := p
        simp only [specC]
        cases t <;> simp only [Compact.readVal] at h <;> simp only [rdSkip, hleaf, hsb, hse, hfb, compactLeaf] <;> osplit_at h <;>
          grind [TVal.need, specC, dropS]
      | err k => rfl
      | panic m => rfl
      | fuel => rfl
    · intro d s bs hd
      cases h : Compact.readFields (f+1) s bs with
      | ok p =>
        obtain ⟨v, s', r⟩ := p
        simp only [specC]
        simp only [Compact.readFields] at h; simp only [rdFields, hfb]; osplit_at h <;> grind [TFields.need, specC]
      | err k => rfl
      | panic m => rfl
      | fuel => rfl
    · intro d et n s bs hd
      cases h : Compact.readN (f+1) et n s bs with
      | ok p =>
        obtain ⟨v, s', r⟩ := p
        simp only [specC]
        cases n <;> simp only [Compact.readN] at h <;> simp only [rdN] <;> osplit_at h <;> grind [TVals.need, specC]
      | err k => rfl
      | panic m => rfl
      | fuel => rfl
    · intro d kt vt n s bs hd
      cases h : Compact.readPairs (f+1) kt vt n s bs with
      | ok p =>
        obtain ⟨v, s', r⟩ := p
        simp only [specC]
        cases n <;> simp only [Compact.readPairs] at h <;> simp only [rdPairs] <;> osplit_at h <;> grind [TPairs.need, specC]
      | err k => rfl
      | panic m => rfl
      | fuel => rfl

theorem asUsize_of_nonneg (x : Int) (h0 : 0 ≤ x) (h1 : x < 2 ^ 63) : Binary.asUsize x = x.toNat := by
  unfold Binary.asUsize toU
  have e8 : (256:Nat) ^ 8 = 18446744073709551616 := by decide
  have e63 : (2:Int) ^ 63 = 9223372036854775808 := by decide
  rw [e8]; rw [e63] at h1
  have : x % ((18446744073709551616 : Nat) : Int) = x := Int.emod_eq_of_lt h0 (by omega)
  rw [this]

theorem toS4_lt (n : Nat) : toS 4 n < 2 ^ 63 ∧ -(2 ^ 31) ≤ toS 4 n := by
  have := inS_toS 4 (by decide) n
  unfold inS at this
  have e : (256 ^ 4 / 2 : Nat) = 2147483648 := by decide
  rw [e] at this
  have e63 : (2:Int) ^ 63 = 9223372036854775808 := by decide
  have e31 : (2:Int) ^ 31 = 2147483648 := by decide
  rw [e63, e31]; omega

theorem readI4_lt {e bs n r} (h : Binary.readI e 4 bs = .ok (n, r)) : n < 2 ^ 63 ∧ -(2 ^ 31) ≤ n := by
  unfold Binary.readI at h
  cases h1 : Binary.readU e 4 bs with
  | ok p => obtain ⟨u, r0⟩ := p; simp [h1] at h; obtain ⟨rfl, _⟩ := h; exact toS4_lt u
  | err k => simp [h1] at h
  | panic m => simp [h1] at h
  | fuel => simp [h1] at h

theorem checkSize_asUsize {n r k} (h : Binary.checkSize n r = .ok k) (hn : n < 2 ^ 63) : Binary.asUsize n = k := by
  obtain ⟨_, h0, rfl⟩ := Binary.checkSize_inv h
  exact asUsize_of_nonneg n h0 hn

theorem rawCollBegin_of_read {bs x r} (h : Compact.readCollBegin bs = .ok (x, r)) : rawCollBegin bs = .ok (x, r) := by
  unfold Compact.readCollBegin at h
  unfold rawCollBegin
  cases h1 : Compact.readByte bs with
  | ok p =>
    obtain ⟨hb, r0⟩ := p
    simp only [h1] at h ⊢
    cases h2 : Compact.ttypeOfCompact (hb % 16) with
    | none => simp [h2] at h
    | some et =>
      simp only [h2] at h ⊢
      by_cases h15 : hb / 16 ≠ 15
      · simp only [h15, ne_eq, not_false_eq_true, if_true] at h ⊢
        cases h3 : Binary.checkSize ((hb : Int) / 16) r0 with
        | ok k =>
          simp [h3] at h
          obtain ⟨_, h0, hk⟩ := Binary.checkSize_inv h3
          have : k = hb / 16 := by omega
          subst this; simp [h]
        | err k => simp [h3] at h
        | panic m => simp [h3] at h
        | fuel => simp [h3] at h
      · simp only [h15, if_false] at h ⊢
        cases h3 : readVarU 4 r0 with
        | ok q =>
          obtain ⟨n, r1⟩ := q
          simp only [h3] at h ⊢
          cases h4 : Binary.checkSize (toS 4 n) r1 with
          | ok k =>
            simp [h4] at h
            simp [checkSize_asUsize h4 (toS4_lt n).1, h]
          | err k => simp [h4] at h
          | panic m => simp [h4] at h
          | fuel => simp [h4] at h
        | err k => simp [h3] at h
        | panic m => simp [h3] at h
        | fuel => simp [h3] at h
  | err k => simp [h1] at h
  | panic m => simp [h1] at h
  | fuel => simp [h1] at h

theorem rawCMapBegin_of_read {bs x r} (h : Compact.readMapBegin bs = .ok (x, r)) : rawCMapBegin bs = .ok (x, r) := by
  unfold Compact.readMapBegin at h
  unfold rawCMapBegin
  cases h1 : readVarU 4 bs with
  | ok p =>
    obtain ⟨n, r0⟩ := p
    simp only [h1] at h ⊢
    cases h2 : Binary.checkSize (toS 4 n) r0 with
    | ok cnt =>
      simp only [h2] at h
      have hc := checkSize_asUsize h2 (toS4_lt n).1
      obtain ⟨_, h0, hk⟩ := Binary.checkSize_inv h2
      by_cases hz : cnt = 0
      · have : toS 4 n = 0 := by omega
        simp [hz] at h; simp [this, h]
      · have : toS 4 n ≠ 0 := by omega
        simp only [hz, this, if_false] at h ⊢
        rw [hc]; exact h
    | err k => simp [h2] at h
    | panic m => simp [h2] at h
    | fuel => simp [h2] at h
  | err k => simp [h1] at h
  | panic m => simp [h1] at h
  | fuel => simp [h1] at h

/-! ### the async skipper over the async binary reader -/

theorem rawListBegin_of_read {bs x r} (h : Binary.readListBegin .be bs = .ok (x, r)) : rawListBegin bs = .ok (x, r) := by
  unfold Binary.readListBegin at h
  unfold rawListBegin
  cases h1 : Binary.readTType bs with
  | ok p =>
    obtain ⟨t, r0⟩ := p
    simp only [h1] at h ⊢
    cases h2 : Binary.readI .be 4 r0 with
    | ok q =>
      obtain ⟨n, r1⟩ := q
      simp only [h2] at h ⊢
      cases h3 : Binary.checkSize n r1 with
      | ok k => simp [h3] at h; simp [checkSize_asUsize h3 (readI4_lt h2).1, h]
      | err k => simp [h3] at h
      | panic m => simp [h3] at h
      | fuel => simp [h3] at h
    | err k => simp [h2] at h
    | panic m => simp [h2] at h
    | fuel => simp [h2] at h
  | err k => simp [h1] at h
  | panic m => simp [h1] at h
  | fuel => simp [h1] at h

theorem rawMapBegin_of_read {bs x r} (h : Binary.readMapBegin .be bs = .ok (x, r)) : rawMapBegin bs = .ok (x, r) := by
  unfold Binary.readMapBegin at h
  unfold rawMapBegin
  cases h1 : Binary.readTType bs with
  | ok p =>
    obtain ⟨t, r0⟩ := p
    simp only [h1] at h ⊢
    cases h1' : Binary.readTType r0 with
    | ok p' =>
      obtain ⟨t', r0'⟩ := p'
      simp only [h1'] at h ⊢
      cases h2 : Binary.readI .be 4 r0' with
      | ok q =>
        obtain ⟨n, r1⟩ := q
        simp only [h2] at h ⊢
        cases h3 : Binary.checkSize n r1 with
        | ok k => simp [h3] at h; simp [checkSize_asUsize h3 (readI4_lt h2).1, h]
        | err k => simp [h3] at h
        | panic m => simp [h3] at h
        | fuel => simp [h3] at h
      | err k => simp [h2] at h
      | panic m => simp [h2] at h
      | fuel => simp [h2] at h
    | err k => simp [h1'] at h
    | panic m => simp [h1'] at h
    | fuel => simp [h1'] at h
  | err k => simp [h1] at h
  | panic m => simp [h1] at h
  | fuel => simp [h1] at h

/-- on a buffer of fewer than 2^63 bytes a length that passes the bounds check is not negative. -/
theorem asyncBinaryString_of_read {bs b r} (hb : bs.length < 2 ^ 63) (h : Binary.readBytes .be bs = .ok (b, r)) :
    asyncBinaryString bs = .ok (b, r) := by
  obtain ⟨len, r0, h1, h2, rfl, rfl⟩ := Binary.readBytes_ok h
  have hl := Binary.readI_len h1
  have ⟨hlt, hge⟩ := readI4_lt h1
  have e63 : (2:Nat) ^ 63 = 9223372036854775808 := by decide
  have e63i : (2:Int) ^ 63 = 9223372036854775808 := by decide
  have e31i : (2:Int) ^ 31 = 2147483648 := by decide
  rw [e63] at hb; rw [e63i] at hlt; rw [e31i] at hge
  have hnn : 0 ≤ len := by
    by_cases h0 : 0 ≤ len
    · exact h0
    · exfalso
      have : Binary.asUsize len = (len + 18446744073709551616).toNat := by
        unfold Binary.asUsize toU
        have e8 : (256:Nat) ^ 8 = 18446744073709551616 := by decide
        rw [e8]
        have : len % ((18446744073709551616 : Nat) : Int) = len + 18446744073709551616 := by
          have h2 : (len + 18446744073709551616) % ((18446744073709551616 : Nat) : Int) = len % ((18446744073709551616 : Nat) : Int) := by simp
          rw [← h2]; exact Int.emod_eq_of_lt (by omega) (by omega)
        rw [this]
      omega
  have ha := asUsize_of_nonneg len hnn (by rw [e63i]; omega)
  unfold asyncBinaryString
  have hn : ¬ len < 0 := by omega
  rw [ha] at h2
  simp [h1, hn, h2, ha]

theorem abp_leaf : asyncBinaryPrims.leaf = asyncBinaryLeaf := rfl
theorem abp_sb (s) : asyncBinaryPrims.structBegin s = s := rfl
theorem abp_se (s) : asyncBinaryPrims.structEnd s = .ok s := rfl
theorem abp_fb (s bs) : asyncBinaryPrims.fieldBegin s bs = (match Binary.readFieldBegin .be bs with
    | .ok (x, r) => .ok (x, s, r)
    | .err k => .err k | .panic m => .panic m | .fuel => .fuel) := rfl
theorem abp_lb : asyncBinaryPrims.listBegin = rawListBegin := rfl
theorem abp_mb : asyncBinaryPrims.mapBegin = rawMapBegin := rfl

def specU {α : Type} (need : α → Nat) (off : Int) (d : Int) (rd : Out (α × Bytes)) (sk : Out (Unit × Bytes)) : Out (Unit × Bytes) :=
  match rd with
  | .ok (v, r) => if (need v : Int) + off ≤ d then .ok ((), r) else .err .depth
  | _ => sk

theorem askip_of_read : ∀ f,
    (∀ d t bs, 0 ≤ d → bs.length < 2 ^ 63 →
      rdSkip asyncBinaryPrims f d t () bs = specU TVal.need 0 d (Binary.readVal .be f t bs) (rdSkip asyncBinaryPrims f d t () bs)) ∧
    (∀ d bs, 1 ≤ d → bs.length < 2 ^ 63 →
      rdFields asyncBinaryPrims f d () bs = specU TFields.need 1 d (Binary.readFields .be f bs) (rdFields asyncBinaryPrims f d () bs)) ∧
    (∀ d et n bs, 1 ≤ d → bs.length < 2 ^ 63 →
      rdN asyncBinaryPrims f d et n () bs = specU TVals.need 1 d (Binary.readN .be f et n bs) (rdN asyncBinaryPrims f d et n () bs)) ∧
    (∀ d kt vt n bs, 1 ≤ d → bs.length < 2 ^ 63 →
      rdPairs asyncBinaryPrims f d kt vt n () bs = specU TPairs.need 1 d (Binary.readPairs .be f kt vt n bs) (rdPairs asyncBinaryPrims f d kt vt n () bs)) := by
  have hlb := @rawListBegin_of_read
  have hmb := @rawMapBegin_of_read
  have hstr := @asyncBinaryString_of_read
  intro f
  induction f with
  | zero => simp [Binary.readVal, Binary.readFields, Binary.readN, Binary.readPairs, specU]
  | succ f ih =>
    obtain ⟨ih1, ih2, ih3, ih4⟩ := ih
    refine ⟨?_, ?_, ?_, ?_⟩
    · intro d t bs hd hb
      cases h : Binary.readVal .be (f+1) t bs with
      | ok p =>
        obtain ⟨v, r⟩ := p
        simp only [specU]
        cases t <;> simp only [Binary.readVal] at h <;> simp only [rdSkip, abp_leaf, abp_sb, abp_se, abp_lb, abp_mb, asyncBinaryLeaf] <;> osplit_at h <;>
          grind [TVal.need, specU, drop1]
      | err k => rfl
      | panic m => rfl
      | fuel => rfl
    · intro d bs hd hb
      cases h : Binary.readFields .be (f+1) bs with
      | ok p =>
        obtain ⟨v, r⟩ := p
        simp only [specU]
        simp only [Binary.readFields] at h; simp only [rdFields, abp_fb]; osplit_at h <;> grind [TFields.need, specU]
      | err k => rfl
      | panic m => rfl
      | fuel => rfl
    · intro d et n bs hd hb
      cases h : Binary.readN .be (f+1) et n bs with
      | ok p =>
        obtain ⟨v, r⟩ := p
        simp only [specU]
        cases n <;> simp only [Binary.readN] at h <;> simp only [rdN] <;> osplit_at h <;> grind [TVals.need, specU]
      | err k => rfl
      | panic m => rfl
      | fuel => rfl
    · intro d kt vt n bs hd hb
      cases h : Binary.readPairs .be (f+1) kt vt n bs with
      | ok p =>
        obtain ⟨v, r⟩ := p
        simp only [specU]
        cases n <;> simp only [Binary.readPairs] at h <;> simp only [rdPairs] <;> osplit_at h <;> grind [TPairs.need, specU]
      | err k => rfl
      | panic m => rfl
      | fuel => rfl

/-- normalising empty maps (compact does not carry their key / value types) keeps the nesting. -/
theorem need_norm : ∀ v : TVal, (Compact.norm v).need = v.need
  | .struct fs => by simp [Compact.norm, TVal.need, needF_norm fs]
  | .list _ xs => by simp [Compact.norm, TVal.need, needL_norm xs]
  | .set _ xs => by simp [Compact.norm, TVal.need, needL_norm xs]
  | .map _ _ .nil => by simp [Compact.norm, TVal.need, TPairs.need]
  | .map _ _ (.cons k v r) => by
      simp [Compact.norm, Compact.normPairs, TVal.need, TPairs.need, need_norm k, need_norm v, needP_norm r]
  | .bool _ | .i8 _ | .i16 _ | .i32 _ | .i64 _ | .dbl _ | .bin _ | .uuid _ => by simp [Compact.norm]
where
  needL_norm : ∀ xs : TVals, (Compact.normVals xs).need = xs.need
    | .nil => rfl
    | .cons v vs => by simp [Compact.normVals, TVals.need, need_norm v, needL_norm vs]
  needF_norm : ∀ fs : TFields, (Compact.normFields fs).need = fs.need
    | .nil => rfl
    | .cons _ v r => by simp [Compact.normFields, TFields.need, need_norm v, needF_norm r]
  needP_norm : ∀ kvs : TPairs, (Compact.normPairs kvs).need = kvs.need
    | .nil => rfl
    | .cons k v r => by simp [Compact.normPairs, TPairs.need, need_norm k, need_norm v, needP_norm r]

theorem compactPrims_like : compactPrims.LikeCompact :=
  ⟨rfl, rfl, rfl, rfl, fun _ _ _ h => h, fun _ _ _ h => h⟩

theorem asyncCompactPrims_like : asyncCompactPrims.LikeCompact :=
  ⟨asyncCompactLeaf_eq, rfl, rfl, rfl, fun _ _ _ h => rawCollBegin_of_read h, fun _ _ _ h => rawCMapBegin_of_read h⟩

end Pilota.Thrift.Skip
