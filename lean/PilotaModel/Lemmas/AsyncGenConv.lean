import PilotaModel.Lemmas.AsyncGen
import PilotaModel.Lemmas.AsyncSkipConv
/-
  Converse of `adec_sim`: whatever the emitted `decode_async` (binary / LE) accepts, the emitted in-memory `decode` accepts
  with the same value and the same rest.  Every decoded value occupies at least one byte, so a container count the async
  decoder got through passes the in-memory readers' size check.
-/
namespace Pilota.TGen
open Pilota Pilota.Thrift Pilota.Thrift.Async Pilota.Thrift.Async.ABin

variable (e : Endian) (d : Doc) (sf : Nat)

theorem readI_consumes (w : Nat) (bs : Bytes) (n : Int) (r : Bytes) (h : Binary.readI e w bs = .ok (n, r)) : r.length + w = bs.length := by
  by_cases hle : w ≤ bs.length
  · simp only [Binary.readI, Binary.readU, Binary.takeN, hle, if_true, Out.ok.injEq, Prod.mk.injEq] at h
    obtain ⟨_, rfl⟩ := h; simp; omega
  · simp [Binary.readI, Binary.readU, Binary.takeN, hle] at h

theorem readU_consumes (w : Nat) (bs : Bytes) (n : Nat) (r : Bytes) (h : Binary.readU e w bs = .ok (n, r)) : r.length + w = bs.length := by
  by_cases hle : w ≤ bs.length
  · simp only [Binary.readU, Binary.takeN, hle, if_true, Out.ok.injEq, Prod.mk.injEq] at h
    obtain ⟨_, rfl⟩ := h; simp; omega
  · simp [Binary.readU, Binary.takeN, hle] at h

theorem leafI_conv (w : Nat) (hw : 0 < w) (c : Int → TVal) (bs : Bytes) (v : TVal) (r : Bytes)
    (h : runF ((readI e w).bind fun n => Prog.ret (c n)) bs = .ok (v, r)) :
    r.length < bs.length ∧ mapOut (fun x : Int × Bytes => (c x.1, x.2)) (Binary.readI e w bs) = .ok (v, r) := by
  rw [runF_bind, runF_readI] at h
  obtain ⟨n, r', h1, h2⟩ := (bindP_ok _ _ _).mp h
  simp only [runF, Out.ok.injEq, Prod.mk.injEq] at h2
  obtain ⟨rfl, rfl⟩ := h2
  have := readI_consumes e w bs n r' h1
  exact ⟨by omega, by simp [h1, mapOut]⟩

theorem readTType_lt (bs : Bytes) (t : TType) (r : Bytes) (h : runF readTType bs = .ok (t, r)) : r.length < bs.length := by
  rw [runF_readTType] at h
  cases bs with
  | nil => simp [Binary.readTType, Binary.readByte] at h
  | cons b tl =>
    simp only [Binary.readTType, Binary.readByte] at h
    split at h <;> simp at h
    obtain ⟨_, rfl⟩ := h; simp

theorem fieldBegin_lt (bs : Bytes) (x : TType × Int) (r : Bytes) (h : Binary.readFieldBegin e bs = .ok (x, r)) : r.length < bs.length := by
  rw [← runF_readFieldBegin] at h
  unfold readFieldBegin at h
  rw [runF_bind] at h
  obtain ⟨t, r1, h1, h2⟩ := (bindP_ok _ _ _).mp h
  have a := readTType_lt bs t r1 h1
  by_cases hs : t = .stop
  · simp only [hs, if_true, runF, Out.ok.injEq, Prod.mk.injEq] at h2
    obtain ⟨_, rfl⟩ := h2; exact a
  · simp only [hs, if_false] at h2
    have := runF_le _ r1 _ r h2
    omega

theorem listBegin_lt (bs : Bytes) (x : TType × Nat) (r : Bytes) (h : runF (readListBegin e) bs = .ok (x, r)) : r.length < bs.length := by
  unfold readListBegin at h
  rw [runF_bind] at h
  obtain ⟨t, r1, h1, h2⟩ := (bindP_ok _ _ _).mp h
  have a := readTType_lt bs t r1 h1
  have := runF_le _ r1 _ r h2
  omega

theorem mapBegin_lt (bs : Bytes) (x : TType × TType × Nat) (r : Bytes) (h : runF (readMapBegin e) bs = .ok (x, r)) : r.length < bs.length := by
  unfold readMapBegin at h
  rw [runF_bind] at h
  obtain ⟨t, r1, h1, h2⟩ := (bindP_ok _ _ _).mp h
  have a := readTType_lt bs t r1 h1
  have := runF_le _ r1 _ r h2
  omega

theorem skip_conv_binRd (t : TType) (bs r : Bytes) (hb : bs.length < 2 ^ 63)
    (h : runF (skip e sf skipDepth t) bs = .ok ((), r)) : (sR e).skip t bs = .ok r ∧ r.length < bs.length := by
  obtain ⟨k, hk⟩ := skip_of_async e sf skipDepth t bs r hb h
  have hl := ((askip_conv e sf).1 skipDepth t bs r hb h).1
  have hq : (sR e).skip t bs = mapOut (·.2) (Skip.skip e (skipDepth : Int) t bs) := rfl
  rw [hq, hk]
  exact ⟨rfl, hl⟩

theorem adec_conv : ∀ f : Nat,
    (∀ ty bs v r, bs.length < 2 ^ 63 → runF (adecTy e d sf f ty) bs = .ok (v, r) →
      r.length < bs.length ∧ decTy (sR e) d f ty bs = .ok (v, r)) ∧
    (∀ el n acc bs xs r, bs.length < 2 ^ 63 → runF (adecN e d sf f el n acc) bs = .ok (xs, r) →
      n + r.length ≤ bs.length ∧ decN (sR e) d f el n acc bs = .ok (xs, r)) ∧
    (∀ k v n acc bs xs r, bs.length < 2 ^ 63 → runF (adecPairs e d sf f k v n acc) bs = .ok (xs, r) →
      n + r.length ≤ bs.length ∧ decPairs (sR e) d f k v n acc bs = .ok (xs, r)) ∧
    (∀ fs slots bs out r, bs.length < 2 ^ 63 → runF (adecFields e d sf f fs slots) bs = .ok (out, r) →
      r.length < bs.length ∧ decFields (sR e) d f fs slots bs = .ok (out, r)) ∧
    (∀ vs ret bs out r, bs.length < 2 ^ 63 → runF (adecUnion e d sf f vs ret) bs = .ok (out, r) →
      r.length < bs.length ∧ decUnion (sR e) d f vs ret bs = .ok (out, r)) := by
  intro f
  induction f with
  | zero =>
    refine ⟨?_, ?_, ?_, ?_, ?_⟩ <;> intros <;> simp_all [adecTy, adecN, adecPairs, adecFields, adecUnion, runF]
  | succ f ih =>
    obtain ⟨ihT, ihN, ihP, ihF, ihU⟩ := ih
    refine ⟨?_, ?_, ?_, ?_, ?_⟩
    · intro ty bs v r hb h
      cases ty with
      | bool =>
        simp only [adecTy] at h
        rw [runF_bind, runF_readI] at h
        obtain ⟨n, r', h1, h2⟩ := (bindP_ok _ _ _).mp h
        simp only [runF, Out.ok.injEq, Prod.mk.injEq] at h2
        obtain ⟨rfl, rfl⟩ := h2
        have hc := readI_consumes e 1 bs n r' h1
        refine ⟨by omega, ?_⟩
        simp only [decTy]
        have hq : (sR e).readBool bs = mapOut (fun x => (x.1 != 0, x.2)) (Binary.readI e 1 bs) := rfl
        rw [hq, h1]; rfl
      | i8 =>
        simp only [adecTy] at h
        obtain ⟨hl, hm⟩ := leafI_conv e 1 (by decide) _ bs v r h
        refine ⟨hl, ?_⟩
        simp only [decTy]
        have hq : (sR e).readI8 bs = Binary.readI e 1 bs := rfl
        rw [hq]; exact hm
      | i16 =>
        simp only [adecTy] at h
        obtain ⟨hl, hm⟩ := leafI_conv e 2 (by decide) _ bs v r h
        refine ⟨hl, ?_⟩
        simp only [decTy]
        have hq : (sR e).readI16 bs = Binary.readI e 2 bs := rfl
        rw [hq]; exact hm
      | i32 =>
        simp only [adecTy] at h
        obtain ⟨hl, hm⟩ := leafI_conv e 4 (by decide) _ bs v r h
        refine ⟨hl, ?_⟩
        simp only [decTy]
        have hq : (sR e).readI32 bs = Binary.readI e 4 bs := rfl
        rw [hq]; exact hm
      | i64 =>
        simp only [adecTy] at h
        obtain ⟨hl, hm⟩ := leafI_conv e 8 (by decide) _ bs v r h
        refine ⟨hl, ?_⟩
        simp only [decTy]
        have hq : (sR e).readI64 bs = Binary.readI e 8 bs := rfl
        rw [hq]; exact hm
      | double =>
        simp only [adecTy] at h
        rw [runF_bind, runF_readU] at h
        obtain ⟨n, r', h1, h2⟩ := (bindP_ok _ _ _).mp h
        simp only [runF, Out.ok.injEq, Prod.mk.injEq] at h2
        obtain ⟨rfl, rfl⟩ := h2
        have hc := readU_consumes e 8 bs n r' h1
        refine ⟨by omega, ?_⟩
        simp only [decTy]
        have hq : (sR e).readDouble bs = Binary.readU e 8 bs := rfl
        rw [hq, h1]; rfl
      | string =>
        simp only [adecTy] at h
        rw [runF_bind] at h
        obtain ⟨b, r', h1, h2⟩ := (bindP_ok _ _ _).mp h
        simp only [runF, Out.ok.injEq, Prod.mk.injEq] at h2
        obtain ⟨rfl, rfl⟩ := h2
        have hs := (readBytes_iff e bs hb _).mp h1
        have hl : r'.length < bs.length := by
          have := skipBinary_of_async e bs hb r' (by rw [runF_bind, h1]; rfl)
          exact this.2
        refine ⟨hl, ?_⟩
        simp only [decTy]
        have hq : (sR e).readBytes bs = Binary.readBytes e bs := rfl
        rw [hq, hs]; rfl
      | binary =>
        simp only [adecTy] at h
        rw [runF_bind] at h
        obtain ⟨b, r', h1, h2⟩ := (bindP_ok _ _ _).mp h
        simp only [runF, Out.ok.injEq, Prod.mk.injEq] at h2
        obtain ⟨rfl, rfl⟩ := h2
        have hs := (readBytes_iff e bs hb _).mp h1
        have hl : r'.length < bs.length := by
          have := skipBinary_of_async e bs hb r' (by rw [runF_bind, h1]; rfl)
          exact this.2
        refine ⟨hl, ?_⟩
        simp only [decTy]
        have hq : (sR e).readBytes bs = Binary.readBytes e bs := rfl
        rw [hq, hs]; rfl
      | uuid =>
        simp only [adecTy] at h
        obtain ⟨hle, h2⟩ := need_ok 16 _ bs _ h
        simp only [runF, Out.ok.injEq, Prod.mk.injEq] at h2
        obtain ⟨rfl, rfl⟩ := h2
        refine ⟨by simp; omega, ?_⟩
        simp only [decTy]
        have hq : (sR e).readUuid bs = Binary.takeN 16 bs := rfl
        rw [hq]; simp [Binary.takeN, hle, mapOut]
      | void => simp [adecTy, runF] at h
      | list el =>
        simp only [adecTy] at h
        rw [runF_bind] at h
        obtain ⟨⟨et, n⟩, r0, h1, h2⟩ := (bindP_ok _ _ _).mp h
        rw [runF_bind] at h2
        obtain ⟨xs, r1, h3, h4⟩ := (bindP_ok _ _ _).mp h2
        simp only [runF, Out.ok.injEq, Prod.mk.injEq] at h4
        obtain ⟨rfl, rfl⟩ := h4
        have hlt := listBegin_lt e bs _ r0 h1
        obtain ⟨hn, hd⟩ := ihN el n [] r0 xs r1 (by omega) h3
        have hs := sync_of_readListBegin e bs hb et n r0 h1 (by omega)
        refine ⟨by omega, ?_⟩
        simp only [decTy]
        have hq : (sR e).listBegin bs = Binary.readListBegin e bs := rfl
        rw [hq, hs]
        simp only [hd]
      | set el =>
        simp only [adecTy] at h
        rw [runF_bind] at h
        obtain ⟨⟨et, n⟩, r0, h1, h2⟩ := (bindP_ok _ _ _).mp h
        rw [runF_bind] at h2
        obtain ⟨xs, r1, h3, h4⟩ := (bindP_ok _ _ _).mp h2
        simp only [runF, Out.ok.injEq, Prod.mk.injEq] at h4
        obtain ⟨rfl, rfl⟩ := h4
        have hlt := listBegin_lt e bs _ r0 h1
        obtain ⟨hn, hd⟩ := ihN el n [] r0 xs r1 (by omega) h3
        have hs := sync_of_readListBegin e bs hb et n r0 h1 (by omega)
        refine ⟨by omega, ?_⟩
        simp only [decTy]
        have hq : (sR e).listBegin bs = Binary.readListBegin e bs := rfl
        rw [hq, hs]
        simp only [hd]
      | map k v' =>
        simp only [adecTy] at h
        rw [runF_bind] at h
        obtain ⟨⟨kt, vt, n⟩, r0, h1, h2⟩ := (bindP_ok _ _ _).mp h
        rw [runF_bind] at h2
        obtain ⟨xs, r1, h3, h4⟩ := (bindP_ok _ _ _).mp h2
        simp only [runF, Out.ok.injEq, Prod.mk.injEq] at h4
        obtain ⟨rfl, rfl⟩ := h4
        have hlt := mapBegin_lt e bs _ r0 h1
        obtain ⟨hn, hd⟩ := ihP k v' n [] r0 xs r1 (by omega) h3
        have hs := sync_of_readMapBegin e bs hb kt vt n r0 h1 (by omega)
        refine ⟨by omega, ?_⟩
        simp only [decTy]
        have hq : (sR e).mapBegin bs = Binary.readMapBegin e bs := rfl
        rw [hq, hs]
        simp only [hd]
      | ref n =>
        simp only [adecTy] at h
        simp only [decTy]
        cases hfind : d.find n with
        | none => simp [hfind, runF] at h
        | some df =>
          cases df with
          | struct fs =>
            simp only [hfind] at h ⊢
            rw [runF_bind] at h
            obtain ⟨slots, r1, h1, h2⟩ := (bindP_ok _ _ _).mp h
            obtain ⟨hl, hd⟩ := ihF fs [] bs slots r1 hb h1
            have hsb : (sR e).structBegin bs = bs := rfl
            have hse : (sR e).structEnd r1 = .ok r1 := rfl
            rw [hsb, hd]
            simp only [hse]
            cases hfin : finish fs slots with
            | ok out => rw [hfin] at h2; simp only [runF, Out.ok.injEq, Prod.mk.injEq] at h2; obtain ⟨rfl, rfl⟩ := h2; exact ⟨hl, rfl⟩
            | err x => rw [hfin] at h2; simp [runF] at h2
            | panic m => rw [hfin] at h2; simp [runF] at h2
            | fuel => rw [hfin] at h2; simp [runF] at h2
          | union vs =>
            simp only [hfind] at h ⊢
            rw [runF_bind] at h
            obtain ⟨ret, r1, h1, h2⟩ := (bindP_ok _ _ _).mp h
            obtain ⟨hl, hd⟩ := ihU vs none bs ret r1 hb h1
            have hsb : (sR e).structBegin bs = bs := rfl
            have hse : (sR e).structEnd r1 = .ok r1 := rfl
            rw [hsb, hd]
            simp only [hse]
            cases ret with
            | some p => obtain ⟨id, pv⟩ := p; simp only [runF, Out.ok.injEq, Prod.mk.injEq] at h2; obtain ⟨rfl, rfl⟩ := h2; exact ⟨hl, rfl⟩
            | none =>
              simp only at h2 ⊢
              split at h2
              · simp only [runF, Out.ok.injEq, Prod.mk.injEq] at h2; obtain ⟨rfl, rfl⟩ := h2; exact ⟨hl, rfl⟩
              · simp [runF] at h2
          | enum =>
            simp only [hfind] at h ⊢
            obtain ⟨hl, hm⟩ := leafI_conv e 4 (by decide) _ bs v r h
            refine ⟨hl, ?_⟩
            have hq : (sR e).readI32 bs = Binary.readI e 4 bs := rfl
            rw [hq]; exact hm
          | typedef t =>
            simp only [hfind] at h ⊢
            exact ihT t bs v r hb h
    · intro el n acc bs xs r hb h
      cases n with
      | zero => simp only [adecN, runF, Out.ok.injEq, Prod.mk.injEq] at h; obtain ⟨rfl, rfl⟩ := h; exact ⟨by omega, by simp [decN]⟩
      | succ n =>
        simp only [adecN] at h
        rw [runF_bind] at h
        obtain ⟨v, r1, h1, h2⟩ := (bindP_ok _ _ _).mp h
        obtain ⟨hl, hd⟩ := ihT el bs v r1 hb h1
        obtain ⟨hn, hd2⟩ := ihN el n _ r1 xs r (by omega) h2
        refine ⟨by omega, ?_⟩
        simp only [decN, hd]
        exact hd2
    · intro k v n acc bs xs r hb h
      cases n with
      | zero => simp only [adecPairs, runF, Out.ok.injEq, Prod.mk.injEq] at h; obtain ⟨rfl, rfl⟩ := h; exact ⟨by omega, by simp [decPairs]⟩
      | succ n =>
        simp only [adecPairs] at h
        rw [runF_bind] at h
        obtain ⟨kv, r1, h1, h2⟩ := (bindP_ok _ _ _).mp h
        rw [runF_bind] at h2
        obtain ⟨vv, r2, h3, h4⟩ := (bindP_ok _ _ _).mp h2
        obtain ⟨hl1, hd1⟩ := ihT k bs kv r1 hb h1
        obtain ⟨hl2, hd2⟩ := ihT v r1 vv r2 (by omega) h3
        obtain ⟨hn, hd3⟩ := ihP k v n _ r2 xs r (by omega) h4
        refine ⟨by omega, ?_⟩
        simp only [decPairs, hd1, hd2]
        exact hd3
    · intro fs slots bs out r hb h
      simp only [adecFields] at h
      rw [runF_bind, runF_readFieldBegin] at h
      obtain ⟨⟨t, id⟩, r0, h1, h2⟩ := (bindP_ok _ _ _).mp h
      have hlt := fieldBegin_lt e bs _ r0 h1
      simp only [decFields]
      have hfb : (sR e).fieldBegin bs = Binary.readFieldBegin e bs := rfl
      rw [hfb, h1]
      simp only
      by_cases hs : t = .stop
      · simp only [hs, if_true, runF, Out.ok.injEq, Prod.mk.injEq] at h2 ⊢
        obtain ⟨rfl, rfl⟩ := h2
        exact ⟨hlt, rfl, rfl⟩
      · simp only [hs, if_false] at h2 ⊢
        cases hfind : fs.find? (fun fl => fl.id == id && d.ttype fl.ty == t) with
        | some fl =>
          simp only [hfind] at h2 ⊢
          rw [runF_bind] at h2
          obtain ⟨v, r1, h3, h4⟩ := (bindP_ok _ _ _).mp h2
          obtain ⟨hl1, hd1⟩ := ihT fl.ty r0 v r1 (by omega) h3
          obtain ⟨hl2, hd2⟩ := ihF fs _ r1 out r (by omega) h4
          rw [hd1]
          exact ⟨by omega, hd2⟩
        | none =>
          simp only [hfind] at h2 ⊢
          rw [runF_bind] at h2
          obtain ⟨u, r1, h3, h4⟩ := (bindP_ok _ _ _).mp h2
          obtain ⟨hsk, hl1⟩ := skip_conv_binRd e sf t r0 r1 (by omega) h3
          obtain ⟨hl2, hd2⟩ := ihF fs slots r1 out r (by omega) h4
          rw [hsk]
          exact ⟨by omega, hd2⟩
    · intro vs ret bs out r hb h
      simp only [adecUnion] at h
      rw [runF_bind, runF_readFieldBegin] at h
      obtain ⟨⟨t, id⟩, r0, h1, h2⟩ := (bindP_ok _ _ _).mp h
      have hlt := fieldBegin_lt e bs _ r0 h1
      simp only [decUnion]
      have hfb : (sR e).fieldBegin bs = Binary.readFieldBegin e bs := rfl
      rw [hfb, h1]
      simp only
      by_cases hs : t = .stop
      · simp only [hs, if_true, runF, Out.ok.injEq, Prod.mk.injEq] at h2 ⊢
        obtain ⟨rfl, rfl⟩ := h2
        exact ⟨hlt, rfl, rfl⟩
      · simp only [hs, if_false] at h2 ⊢
        cases hfind : vs.find? (fun x => x.1 == id && !(x.2 == .void)) with
        | some pr =>
          obtain ⟨pid, ty⟩ := pr
          simp only [hfind] at h2 ⊢
          by_cases hret : ret.isSome = true
          · simp [hret, runF] at h2
          · simp only [hret, Bool.false_eq_true, if_false] at h2 ⊢
            rw [runF_bind] at h2
            obtain ⟨v, r1, h3, h4⟩ := (bindP_ok _ _ _).mp h2
            obtain ⟨hl1, hd1⟩ := ihT ty r0 v r1 (by omega) h3
            obtain ⟨hl2, hd2⟩ := ihU vs _ r1 out r (by omega) h4
            rw [hd1]
            exact ⟨by omega, hd2⟩
        | none =>
          simp only [hfind] at h2 ⊢
          rw [runF_bind] at h2
          obtain ⟨u, r1, h3, h4⟩ := (bindP_ok _ _ _).mp h2
          obtain ⟨hsk, hl1⟩ := skip_conv_binRd e sf t r0 r1 (by omega) h3
          obtain ⟨hl2, hd2⟩ := ihU vs ret r1 out r (by omega) h4
          rw [hsk]
          exact ⟨by omega, hd2⟩

end Pilota.TGen
