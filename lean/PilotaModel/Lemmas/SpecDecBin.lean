import PilotaModel.Lemmas.SpecBin
/-  The reference's binary decoder recovers the value from every legal encoding. -/
namespace Pilota.Thrift.SpecBin
open Pilota Pilota.Thrift Pilota.Thrift.Spec

theorem be_length (w n : Nat) : (be w n).length = w := by
  induction w generalizing n with
  | zero => rfl
  | succ w ih => simp [be, ih]

theorem ofBe_be (w n : Nat) : ofBe (be w n) = n % 256 ^ w := by
  induction w with
  | zero => simp [be, ofBe, Nat.mod_one]
  | succ w ih =>
    simp only [be, ofBe, be_length, ih]
    have h1 : (UInt8.ofNat (n / 256 ^ w % 256)).toNat = n / 256 ^ w % 256 := by
      simp [UInt8.toNat_ofNat']
    rw [h1, Nat.pow_succ, Nat.mod_mul]
    rw [Nat.add_comm]

theorem twos_lt (w : Nat) (hw : 0 < w) (n : Int) (h : inS w n) : twos w n < 256 ^ w := by
  rw [twos_eq w n h]; exact toU_lt w n

theorem signed_twos (w : Nat) (hw : 0 < w) (n : Int) (h : inS w n) : signed w (twos w n) = n := by
  unfold signed twos
  unfold inS at h
  have hp := pow256_pos w
  have he := pow256_even w hw
  generalize 256 ^ w = M at *
  by_cases h0 : 0 ≤ n
  · simp only [h0, if_true]
    have : n.toNat < M / 2 := by omega
    simp only [this, if_true]; omega
  · simp only [h0, if_false]
    have : ¬ (M - (-n).toNat < M / 2) := by omega
    simp only [this, if_false]; omega

theorem take_append (a r : Bytes) : take a.length (a ++ r) = .ok (a, r) := by simp [take]
theorem take_append' (n : Nat) (a r : Bytes) (h : a.length = n) : take n (a ++ r) = .ok (a, r) := by
  subst h; exact take_append a r

theorem int_be_twos (w : Nat) (hw : 0 < w) (n : Int) (h : inS w n) (r : Bytes) :
    int w (be w (twos w n) ++ r) = .ok (n, r) := by
  simp only [int, take_append' w _ r (be_length w _), ofBe_be, Nat.mod_eq_of_lt (twos_lt w hw n h), signed_twos w hw n h]

theorem count_be (n : Nat) (h : n < 2 ^ 31) (r : Bytes) : count (be 4 n ++ r) = .ok (n, r) := by
  have e31 : (2:Nat) ^ 31 = 2147483648 := by decide
  have e4 : (256:Nat) ^ 4 = 4294967296 := by decide
  rw [e31] at h
  have hs : signed 4 n = (n : Int) := by
    unfold signed; rw [e4]
    have : n < 4294967296 / 2 := by omega
    simp [this]
  simp only [count, int, take_append' 4 _ r (be_length 4 _), ofBe_be, e4, Nat.mod_eq_of_lt (show n < 4294967296 by omega)]
  rw [hs]
  have : ¬ ((n : Int) < 0) := by omega
  simp [this]

theorem binCode_inv (t : TType) (c : Nat) (hc : binCode t = some c) : binTypeOfCode c = some t ∧ c ≠ 0 ∧ c < 256 := by
  cases t <;> simp [binCode] at hc <;> subst hc <;> exact ⟨rfl, by decide, by decide⟩

theorem typeByte_code (t : TType) (c : Nat) (hc : binCode t = some c) (r : Bytes) :
    typeByte (UInt8.ofNat c :: r) = .ok (t, r) ∧ binTypeOfCode c = some t ∧ (UInt8.ofNat c).toNat = c ∧ c ≠ 0 := by
  obtain ⟨h1, h2, h3⟩ := binCode_inv t c hc
  have h4 : (UInt8.ofNat c).toNat = c := u8_toNat_ofNat_lt c h3
  refine ⟨?_, h1, h4, h2⟩
  unfold typeByte
  simp only [h4, h1]

theorem payload_be (p r : Bytes) (hp : p.length < 2 ^ 31) : payload (be 4 p.length ++ (p ++ r)) = .ok (p, r) := by
  simp only [payload, count_be _ hp, take_append]

theorem listHdr_code (et : TType) (c : Nat) (hc : binCode et = some c) (n : Nat) (hn : n < 2 ^ 31) (r : Bytes) :
    listHdr (UInt8.ofNat c :: (be 4 n ++ r)) = .ok ((et, n), r) := by
  simp only [listHdr, (typeByte_code et c hc _).1, count_be _ hn]

theorem mapHdr_code (kt vt : TType) (ck cv : Nat) (hk : binCode kt = some ck) (hv : binCode vt = some cv) (n : Nat) (hn : n < 2 ^ 31)
    (r : Bytes) : mapHdr (UInt8.ofNat ck :: UInt8.ofNat cv :: (be 4 n ++ r)) = .ok ((kt, vt, n), r) := by
  simp only [mapHdr, (typeByte_code kt ck hk _).1, listHdr_code vt cv hv n hn r]

theorem fieldHdr_code (t : TType) (c : Nat) (hc : binCode t = some c) (id : Int) (hid : inS 2 id) (r : Bytes) :
    fieldHdr (UInt8.ofNat c :: (be 2 (twos 2 id) ++ r)) = .ok (some (t, id), r) := by
  obtain ⟨_, h2, h3, h4⟩ := typeByte_code t c hc []
  have hne : ¬ (UInt8.ofNat c = 0) := by
    intro h0; apply h4; rw [← h3, h0]; rfl
  simp only [fieldHdr, hne, if_false, h3, h2, int_be_twos 2 (by decide) id hid]

theorem fieldHdr_stop (r : Bytes) : fieldHdr ((0 : UInt8) :: r) = .ok (none, r) := by simp [fieldHdr]

theorem dec_boolT (f : Nat) (x : UInt8) (hx : x ≠ 0) (r : Bytes) : decode (f+1) .bool ([x] ++ r) = .ok (.bool true, r) := by
  simp [decode, boolVal, hx]
theorem dec_boolF (f : Nat) (r : Bytes) : decode (f+1) .bool ([0] ++ r) = .ok (.bool false, r) := by simp [decode, boolVal]
theorem dec_i8 (f : Nat) (n : Int) (hn : inS 1 n) (r : Bytes) : decode (f+1) .i8 (be 1 (twos 1 n) ++ r) = .ok (.i8 n, r) := by
  simp [decode, int_be_twos 1 (by decide) n hn]
theorem dec_i16 (f : Nat) (n : Int) (hn : inS 2 n) (r : Bytes) : decode (f+1) .i16 (be 2 (twos 2 n) ++ r) = .ok (.i16 n, r) := by
  simp [decode, int_be_twos 2 (by decide) n hn]
theorem dec_i32 (f : Nat) (n : Int) (hn : inS 4 n) (r : Bytes) : decode (f+1) .i32 (be 4 (twos 4 n) ++ r) = .ok (.i32 n, r) := by
  simp [decode, int_be_twos 4 (by decide) n hn]
theorem dec_i64 (f : Nat) (n : Int) (hn : inS 8 n) (r : Bytes) : decode (f+1) .i64 (be 8 (twos 8 n) ++ r) = .ok (.i64 n, r) := by
  simp [decode, int_be_twos 8 (by decide) n hn]
theorem dec_dbl (f : Nat) (b : Nat) (hb : b < 2 ^ 64) (r : Bytes) : decode (f+1) .double (be 8 b ++ r) = .ok (.dbl b, r) := by
  have e : (256:Nat) ^ 8 = 2 ^ 64 := by decide
  have : b % 256 ^ 8 = b := Nat.mod_eq_of_lt (by omega)
  simp [decode, take_append' 8 _ r (be_length 8 _), ofBe_be, this]
theorem dec_bin (f : Nat) (p : Bytes) (hp : p.length < 2 ^ 31) (r : Bytes) :
    decode (f+1) .binary (be 4 p.length ++ p ++ r) = .ok (.bin p, r) := by
  simp only [decode, List.append_assoc, payload_be p r hp]
theorem dec_uuid (f : Nat) (p : Bytes) (hp : p.length = 16) (r : Bytes) : decode (f+1) .uuid (p ++ r) = .ok (.uuid p, r) := by
  simp [decode, take_append' 16 _ r hp]

mutual
theorem decode_of_enc (v : TVal) (bs : Bytes) (h : Enc v bs) (f : Nat) (hf : v.size ≤ f) (r : Bytes) :
    decode f v.ttype (bs ++ r) = .ok (v, r) := by
  cases f with
  | zero => cases v <;> simp [TVal.size] at hf
  | succ f =>
    cases h with
    | boolT x hx => exact dec_boolT f x hx r
    | boolF => exact dec_boolF f r
    | i8 n hn => exact dec_i8 f n hn r
    | i16 n hn => exact dec_i16 f n hn r
    | i32 n hn => exact dec_i32 f n hn r
    | i64 n hn => exact dec_i64 f n hn r
    | dbl b hb => exact dec_dbl f b hb r
    | bin p hp => exact dec_bin f p hp r
    | uuid p hp => exact dec_uuid f _ hp r
    | struct fs bs hfs =>
      simp [TVal.size] at hf
      simp only [TVal.ttype, decode, decodeFields_of_enc fs bs hfs f hf r]
    | list et c xs b hc hl hx =>
      simp [TVal.size] at hf
      simp only [TVal.ttype, decode, List.cons_append, List.append_assoc, listHdr_code et c hc _ hl, decodeVals_of_enc et xs b hx f hf r]
    | set et c xs b hc hl hx =>
      simp [TVal.size] at hf
      simp only [TVal.ttype, decode, List.cons_append, List.append_assoc, listHdr_code et c hc _ hl, decodeVals_of_enc et xs b hx f hf r]
    | map kt vt ck cv kvs b hk hv hl hx =>
      simp [TVal.size] at hf
      simp only [TVal.ttype, decode, List.cons_append, List.append_assoc, mapHdr_code kt vt ck cv hk hv _ hl,
        decodePairs_of_enc kt vt kvs b hx f hf r]
theorem decodeFields_of_enc (fs : TFields) (bs : Bytes) (h : EncFields fs bs) (f : Nat) (hf : fs.size ≤ f) (r : Bytes) :
    decodeFields f (bs ++ r) = .ok (fs, r) := by
  cases f with
  | zero => cases fs <;> simp [TFields.size] at hf
  | succ f =>
    cases h with
    | nil => simp only [decodeFields, List.cons_append, List.nil_append, fieldHdr_stop]
    | cons id v rest c a b hid hc hv hr =>
      simp [TFields.size] at hf
      simp only [decodeFields, List.cons_append, List.append_assoc, fieldHdr_code v.ttype c hc id hid]
      rw [decode_of_enc v a hv f (by omega)]; dsimp only
      rw [decodeFields_of_enc rest b hr f (by omega)]
theorem decodeVals_of_enc (et : TType) (xs : TVals) (bs : Bytes) (h : EncVals et xs bs) (f : Nat) (hf : xs.size ≤ f) (r : Bytes) :
    decodeVals f et xs.length (bs ++ r) = .ok (xs, r) := by
  cases f with
  | zero => cases xs <;> simp [TVals.size] at hf
  | succ f =>
    cases h with
    | nil => simp [decodeVals, TVals.length]
    | cons _ v vs a b ht hv hr =>
      simp [TVals.size] at hf
      simp only [TVals.length, decodeVals, List.append_assoc]
      rw [← ht, decode_of_enc v a hv f (by omega)]; dsimp only
      rw [ht, decodeVals_of_enc et vs b hr f (by omega)]
theorem decodePairs_of_enc (kt vt : TType) (kvs : TPairs) (bs : Bytes) (h : EncPairs kt vt kvs bs) (f : Nat) (hf : kvs.size ≤ f) (r : Bytes) :
    decodePairs f kt vt kvs.length (bs ++ r) = .ok (kvs, r) := by
  cases f with
  | zero => cases kvs <;> simp [TPairs.size] at hf
  | succ f =>
    cases h with
    | nil => simp [decodePairs, TPairs.length]
    | cons _ _ k v rest a b c hk hv ek ev hr =>
      simp [TPairs.size] at hf
      simp only [TPairs.length, decodePairs, List.append_assoc]
      rw [← hk, decode_of_enc k a ek f (by omega)]; dsimp only
      rw [← hv, decode_of_enc v b ev f (by omega)]; dsimp only
      rw [hk, hv, decodePairs_of_enc kt vt rest c hr f (by omega)]
end

end Pilota.Thrift.SpecBin
