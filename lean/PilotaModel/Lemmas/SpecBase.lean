import PilotaModel.Lemmas.BinaryRT
import PilotaModel.Thrift.Spec
/-  The reference's own byte-order and two's-complement definitions coincide with the model's. -/
namespace Pilota.Thrift.Spec
open Pilota Pilota.Thrift

theorem le_eq (w n : Nat) : le w n = natToLE w n := by
  induction w generalizing n with
  | zero => rfl
  | succ w ih => simp [le, natToLE, ih]

theorem natToBE_succ (w n : Nat) : natToBE (w + 1) n = natToBE w (n / 256) ++ [UInt8.ofNat (n % 256)] := by
  simp [natToBE, natToLE]

theorem be_snoc (w n : Nat) : be (w + 1) n = be w (n / 256) ++ [UInt8.ofNat (n % 256)] := by
  induction w generalizing n with
  | zero => simp [be]
  | succ w ih =>
    rw [be, ih n]
    have h1 : n / 256 ^ (w + 1) = n / 256 / 256 ^ w := by
      rw [Nat.pow_succ, Nat.mul_comm, Nat.div_div_eq_div_mul]
    rw [be, h1]
    simp

theorem be_eq (w n : Nat) : be w n = natToBE w n := by
  induction w generalizing n with
  | zero => rfl
  | succ w ih => rw [be_snoc, natToBE_succ, ih]

theorem twos_eq (w : Nat) (i : Int) (h : inS w i) : twos w i = toU w i := by
  unfold twos toU
  unfold inS at h
  have hp := pow256_pos w
  by_cases h0 : 0 ≤ i
  · simp only [h0, if_true]
    have hlt : i < ((256 ^ w : Nat) : Int) := by
      have : ((256 ^ w / 2 : Nat) : Int) ≤ ((256 ^ w : Nat) : Int) := by
        have := Nat.div_le_self (256 ^ w) 2; omega
      omega
    rw [Int.emod_eq_of_lt h0 hlt]
  · simp only [h0, if_false]
    have hM : ((256 ^ w / 2 : Nat) : Int) ≤ ((256 ^ w : Nat) : Int) := by
      have := Nat.div_le_self (256 ^ w) 2; omega
    have h2 : (i + ((256 ^ w : Nat) : Int)) % ((256 ^ w : Nat) : Int) = i % ((256 ^ w : Nat) : Int) := by simp
    have h3 : (i + ((256 ^ w : Nat) : Int)) % ((256 ^ w : Nat) : Int) = i + ((256 ^ w : Nat) : Int) :=
      Int.emod_eq_of_lt (by omega) (by omega)
    rw [← h2, h3]
    omega

/-- a `w`-byte two's-complement integer, big-endian: the reference and the model agree. -/
theorem be_twos (w : Nat) (i : Int) (h : inS w i) : be w (twos w i) = Binary.i .be w i := by
  rw [be_eq, twos_eq w i h]; rfl

/-- the i32 length / count prefix. -/
theorem be_len (n : Nat) (h : n < 2 ^ 31) : be 4 n = Binary.i .be 4 (toS 4 n) := by
  rw [be_eq]
  simp only [Binary.i, encFixed]
  rw [toU_toS 4 (by decide)]
  have e4 : (256:Nat) ^ 4 = 4294967296 := by decide
  have e31 : (2:Nat) ^ 31 = 2147483648 := by decide
  rw [e4]; rw [e31] at h
  rw [Nat.mod_eq_of_lt (by omega)]

theorem be_dbl (b : Nat) : be 8 b = encFixed .be 8 b := by rw [be_eq]; rfl
theorem le_dbl (b : Nat) : le 8 b = encFixed .le 8 b := by rw [le_eq]; rfl

theorem binCode_value (t : TType) (h : t.isValue = true) : binCode t = some t.toByte := by
  cases t <;> simp [TType.isValue] at h <;> rfl

theorem binCode_some (t : TType) (c : Nat) (h : binCode t = some c) : t.isValue = true ∧ c = t.toByte := by
  cases t <;> simp [binCode] at h <;> subst h <;> exact ⟨rfl, rfl⟩

end Pilota.Thrift.Spec
