import PilotaModel.Lemmas.IdlNom
/-
  C16 at the level of the parser: every `impl Parser` of the model is `Good`:
  no panic branch is reachable, results are suffixes of the input, and the recursion budget `d`
  is exhausted only by inputs with at least `d` nesting characters.
-/
namespace Pilota.Idl

/-! ### a small closure tactic -/

variable {w : Nat}

theorem Good.ite {α} {c : Prop} [Decidable c] {p q : P α} (hp : Good w p) (hq : Good w q) :
    Good w (if c then p else q) := by split <;> assumption

theorem Good.skip_tag_nest {β} {t : List Char} {q : P β} (ht : 1 ≤ nest t) (hq : Good w q) :
    Good (w + 1) (Idl.skip (Idl.tag t) q) := Good.andThen_tag_nest ht (fun _ => hq)


syntax "good_step" : tactic
macro_rules | `(tactic| good_step) => `(tactic| assumption)
macro_rules | `(tactic| good_step) => `(tactic| with_reducible intro _)
macro_rules | `(tactic| good_step) => `(tactic| with_reducible exact Good.ret _)
macro_rules | `(tactic| good_step) => `(tactic| with_reducible exact Good.tag _)
macro_rules | `(tactic| good_step) => `(tactic| with_reducible exact Good.eof)
macro_rules | `(tactic| good_step) => `(tactic| with_reducible exact Good.satisfy _)
macro_rules | `(tactic| good_step) => `(tactic| with_reducible exact Good.oneOf _)
macro_rules | `(tactic| good_step) => `(tactic| with_reducible exact Good.noneOf _)
macro_rules | `(tactic| good_step) => `(tactic| with_reducible exact Good.takeWhile _)
macro_rules | `(tactic| good_step) => `(tactic| with_reducible exact Good.takeTill _)
macro_rules | `(tactic| good_step) => `(tactic| with_reducible exact Good.takeUntil _)
macro_rules | `(tactic| good_step) => `(tactic| with_reducible exact Good.digit1)
macro_rules | `(tactic| good_step) => `(tactic| with_reducible exact Good.hexDigit1)
macro_rules | `(tactic| good_step) => `(tactic| with_reducible exact Good.multispace1)
macro_rules | `(tactic| good_step) => `(tactic| with_reducible exact Good.tagNoCase_e)
macro_rules | `(tactic| good_step) => `(tactic| with_reducible exact Good.alt_nil)
macro_rules | `(tactic| good_step) => `(tactic| with_reducible apply Good.alt_cons)
macro_rules | `(tactic| good_step) => `(tactic| with_reducible apply Good.pmap)
macro_rules | `(tactic| good_step) => `(tactic| with_reducible apply Good.mapRes)
macro_rules | `(tactic| good_step) => `(tactic| with_reducible apply Good.opt)
macro_rules | `(tactic| good_step) => `(tactic| with_reducible apply Good.peek)
macro_rules | `(tactic| good_step) => `(tactic| with_reducible apply Good.pnot)
macro_rules | `(tactic| good_step) => `(tactic| with_reducible apply Good.recognize)
macro_rules | `(tactic| good_step) => `(tactic| with_reducible apply Good.many0)
macro_rules | `(tactic| good_step) => `(tactic| with_reducible apply Good.many1)
macro_rules | `(tactic| good_step) => `(tactic| with_reducible apply Good.separatedList1)
macro_rules | `(tactic| good_step) => `(tactic| with_reducible apply Good.manyTill)
macro_rules | `(tactic| good_step) => `(tactic| with_reducible apply Good.escaped)
macro_rules | `(tactic| good_step) => `(tactic| with_reducible apply Good.permutation2)
macro_rules | `(tactic| good_step) => `(tactic| with_reducible apply Good.terminated)
macro_rules | `(tactic| good_step) => `(tactic| with_reducible apply Good.skip)
macro_rules | `(tactic| good_step) => `(tactic| with_reducible apply Good.andThen)
macro_rules | `(tactic| good_step) => `(tactic| with_reducible apply Good.andThen_tag_nest (by decide))
macro_rules | `(tactic| good_step) => `(tactic| with_reducible apply Good.skip_tag_nest (by decide))

macro "good_tac" : tactic => `(tactic| repeat good_step)

theorem Good.failP {α} : Good w (fun _ => (PR.fail : PR α)) := fun _ => trivial
theorem Good.fuelP {α} : Good 0 (fun _ => (PR.fuel : PR α)) := fun _ => Nat.not_lt_zero _

/-! ### lexical layer -/

theorem good_comment : Good w comment := by unfold comment; good_tac
macro_rules | `(tactic| good_step) => `(tactic| with_reducible exact good_comment)
theorem good_blank : Good w blank := by unfold blank; good_tac
macro_rules | `(tactic| good_step) => `(tactic| with_reducible exact good_blank)
theorem good_listSeparator : Good w listSeparator := by unfold listSeparator; good_tac
macro_rules | `(tactic| good_step) => `(tactic| with_reducible exact good_listSeparator)
theorem good_alnumOrUnderscore : Good w alnumOrUnderscore := Good.satisfy _
macro_rules | `(tactic| good_step) => `(tactic| with_reducible exact good_alnumOrUnderscore)
theorem good_keyword {α} (t : List Char) (v : α) : Good w (keyword t v) := by
  unfold keyword; good_tac
macro_rules | `(tactic| good_step) => `(tactic| with_reducible exact good_keyword _ _)
theorem good_ident : Good w Ident.parse := by unfold Ident.parse; good_tac
macro_rules | `(tactic| good_step) => `(tactic| with_reducible exact good_ident)
theorem good_path : Good w Path.parse := by
  unfold Path.parse; good_tac
macro_rules | `(tactic| good_step) => `(tactic| with_reducible exact good_path)
theorem good_quoted (q : Char) : Good w (quoted q) := by unfold quoted; good_tac
macro_rules | `(tactic| good_step) => `(tactic| with_reducible exact good_quoted _)
theorem good_literal : Good w Literal.parse := by unfold Literal.parse; good_tac
macro_rules | `(tactic| good_step) => `(tactic| with_reducible exact good_literal)
theorem good_annKey : Good w annKey := by unfold annKey; good_tac
macro_rules | `(tactic| good_step) => `(tactic| with_reducible exact good_annKey)
theorem good_annotation : Good w annotation := by
  unfold annotation
  good_tac
macro_rules | `(tactic| good_step) => `(tactic| with_reducible exact good_annotation)
theorem good_annotations : Good w Annotations.parse := by
  unfold Annotations.parse; good_tac
macro_rules | `(tactic| good_step) => `(tactic| with_reducible exact good_annotations)
theorem good_cppType : Good w CppType.parse := by
  unfold CppType.parse; good_tac
macro_rules | `(tactic| good_step) => `(tactic| with_reducible exact good_cppType)

/-! ### types -/

theorem good_typeParse {ty : P Ty} (h : Good w ty) : Good w (typeParse ty) := by
  unfold typeParse; good_tac

theorem good_ty : ∀ d, Good d (Ty.parse d)
  | 0 => Good.fuelP
  | d + 1 => by
    have ih := good_typeParse (good_ty d)
    unfold Ty.parse
    good_tac

theorem good_type (d : Nat) : Good d (Type.parse d) := good_typeParse (good_ty d)
macro_rules | `(tactic| good_step) => `(tactic| with_reducible exact good_type _)

/-! ### constants -/

theorem alt_cons_ok {α} {p : P α} {ps : List (P α)} {s a r} (h : alt (p :: ps) s = .ok a r) :
    p s = .ok a r ∨ (p s = .err ∧ alt ps s = .ok a r) := by
  simp only [alt] at h
  cases e : p s <;> simp only [e] at h
  · exact Or.inl h
  · exact Or.inr ⟨rfl, h⟩
  all_goals cases h

theorem bind_ok {α β} {x : PR α} {f : α → List Char → PR β} {b r} (h : x.bind f = .ok b r) :
    ∃ a r1, x = .ok a r1 ∧ f a r1 = .ok b r := by
  cases x <;> simp only [PR.bind] at h
  · exact ⟨_, _, rfl, h⟩
  all_goals cases h

theorem andThen_ok {α β} {p : P α} {f : α → P β} {s b r} (h : andThen p f s = .ok b r) :
    ∃ a r1, p s = .ok a r1 ∧ f a r1 = .ok b r := bind_ok h

/-- `unsigned` returns values in `0 ..= i64::MAX` … -/
theorem unsigned_range {s v r} (h : IntConstant.unsigned s = .ok v r) : 0 ≤ v ∧ v ≤ i64Max := by
  unfold IntConstant.unsigned at h
  rcases alt_cons_ok h with h1 | ⟨_, h⟩
  · obtain ⟨_, s1, _, h2⟩ := andThen_ok h1
    obtain ⟨ds, r', _, h4⟩ := bind_ok (x := hexDigit1 s1) h2
    unfold parseI64Hex at h4
    by_cases hle : (hexVal ds : Int) ≤ i64Max
    · simp only [hle, if_true, PR.ok.injEq] at h4; obtain ⟨rfl, _⟩ := h4
      exact ⟨by omega, hle⟩
    · simp [hle] at h4
  rcases alt_cons_ok h with h1 | ⟨_, h⟩
  · obtain ⟨ds, r', _, h4⟩ := bind_ok (x := digit1 s) h1
    unfold parseI64Dec at h4
    by_cases hle : (decVal ds : Int) ≤ i64Max
    · simp only [hle, if_true, PR.ok.injEq] at h4; obtain ⟨rfl, _⟩ := h4
      exact ⟨by omega, hle⟩
    · simp [hle] at h4
  · simp [alt] at h

theorem good_unsigned {w : Nat} : Good w IntConstant.unsigned := by unfold IntConstant.unsigned; good_tac

/-- … so `IntConstant(-d.0)` cannot overflow: the panic branch of the negation is unreachable -/
theorem good_intConstant {w : Nat} : Good w IntConstant.parse := by
  have ih : Good w (pmapChecked negI64 IntConstant.unsigned) :=
    Good.pmapChecked _ good_unsigned (by
      intro s a r h
      have hr := unsigned_range h
      refine ⟨-a, ?_⟩
      unfold negI64; split
      · rename_i he; subst he; unfold i64Min at hr; omega
      · rfl)
  have hu := @good_unsigned w
  unfold IntConstant.parse
  good_tac
macro_rules | `(tactic| good_step) => `(tactic| with_reducible exact good_intConstant)

theorem good_exponent {w : Nat} : Good w exponent := by
  unfold exponent; good_tac
macro_rules | `(tactic| good_step) => `(tactic| with_reducible exact good_exponent)

theorem good_doubleConstant {w : Nat} : Good w DoubleConstant.parse := by
  unfold DoubleConstant.parse; good_tac
macro_rules | `(tactic| good_step) => `(tactic| with_reducible exact good_doubleConstant)

theorem good_constValue : ∀ d, Good d (ConstValue.parse d)
  | 0 => Good.fuelP
  | d + 1 => by
    have ih := good_constValue d
    unfold ConstValue.parse
    good_tac
macro_rules | `(tactic| good_step) => `(tactic| with_reducible exact good_constValue _)

end Pilota.Idl

namespace Pilota.Idl

/-! ### fields, definitions, file -/

theorem good_constant (d : Nat) : Good d (Constant.parse d) := by unfold Constant.parse; good_tac
theorem good_attribute {w : Nat} : Good w Attribute.parse := by unfold Attribute.parse; good_tac
macro_rules | `(tactic| good_step) => `(tactic| with_reducible exact good_attribute)
theorem good_field (d : Nat) : Good d (Field.parse d) := by unfold Field.parse; good_tac
macro_rules | `(tactic| good_step) => `(tactic| with_reducible exact good_field _)
theorem good_structLike (d : Nat) : Good d (StructLike.parse d) := by unfold StructLike.parse; good_tac
macro_rules | `(tactic| good_step) => `(tactic| with_reducible exact good_structLike _)
theorem good_struct (d : Nat) : Good d (Struct.parse d) := by unfold Struct.parse; good_tac
theorem good_union (d : Nat) : Good d (Union.parse d) := by unfold Union.parse; good_tac
theorem good_exception (d : Nat) : Good d (Exception.parse d) := by unfold Exception.parse; good_tac
theorem good_enumValue {w : Nat} : Good w EnumValue.parse := by unfold EnumValue.parse; good_tac
macro_rules | `(tactic| good_step) => `(tactic| with_reducible exact good_enumValue)
theorem good_enum {w : Nat} : Good w Enum.parse := by unfold Enum.parse; good_tac
theorem good_function (d : Nat) : Good d (Function.parse d) := by unfold Function.parse; good_tac
macro_rules | `(tactic| good_step) => `(tactic| with_reducible exact good_function _)
theorem good_service (d : Nat) : Good d (Service.parse d) := by unfold Service.parse; good_tac
theorem good_typedef (d : Nat) : Good d (Typedef.parse d) := by unfold Typedef.parse; good_tac
theorem good_scope {w : Nat} : Good w Scope.parse := by
  unfold Scope.parse
  apply Good.alt_of_forall
  intro p hp
  obtain ⟨t, _, rfl⟩ := List.mem_map.mp hp
  exact Good.tag t
macro_rules | `(tactic| good_step) => `(tactic| with_reducible exact good_scope)
theorem good_namespace {w : Nat} : Good w Namespace.parse := by unfold Namespace.parse; good_tac
theorem good_include {w : Nat} : Good w Include.parse := by unfold Include.parse; good_tac
theorem good_cppInclude {w : Nat} : Good w CppInclude.parse := by unfold CppInclude.parse; good_tac
theorem good_itemKeyword {w : Nat} : Good w itemKeyword := by unfold itemKeyword; good_tac

theorem good_item (d : Nat) : Good d (Item.parse d) := by
  unfold Item.parse
  apply Good.andThen good_itemKeyword
  intro kw
  repeat' (first
    | exact Good.failP
    | exact Good.pmap _ good_include | exact Good.pmap _ good_cppInclude | exact Good.pmap _ good_namespace
    | exact Good.pmap _ (good_typedef d) | exact Good.pmap _ (good_constant d) | exact Good.pmap _ good_enum
    | exact Good.pmap _ (good_struct d) | exact Good.pmap _ (good_union d) | exact Good.pmap _ (good_exception d)
    | exact Good.pmap _ (good_service d)
    | apply Good.ite)
macro_rules | `(tactic| good_step) => `(tactic| with_reducible exact good_item _)

theorem good_fileD (d : Nat) : Good d (File.parseD d) := by unfold File.parseD; good_tac

theorem map_ok {α β} {x : PR α} {f : α → β} {b r} (h : x.map f = .ok b r) : ∃ a, x = .ok a r ∧ b = f a := by
  obtain ⟨a, r1, h1, h2⟩ := bind_ok h
  simp only [PR.ok.injEq] at h2
  obtain ⟨rfl, rfl⟩ := h2
  exact ⟨a, h1, rfl⟩

/-- `many_till(p, eof)` succeeds only at the end of the input -/
theorem manyTillF_eof_rest {α} (p : P α) : ∀ n s x r, manyTillF p eof n s = .ok x r → r = []
  | 0, _, _, _, h => by simp [manyTillF] at h
  | n + 1, s, x, r, h => by
    simp only [manyTillF] at h
    cases s with
    | nil => simp [eof] at h; exact h.2
    | cons c cs =>
      simp only [eof] at h
      obtain ⟨a, r1, _, h2⟩ := bind_ok h
      split at h2
      · cases h2
      · obtain ⟨y, h3, _⟩ := map_ok h2
        exact manyTillF_eof_rest p n r1 y r h3

theorem file_parse_rest (s : List Char) (f : File) (r : List Char) (h : File.parse s = .ok f r) : r = [] := by
  unfold File.parse File.parseD at h
  obtain ⟨_, s1, _, h2⟩ := andThen_ok h
  unfold pmap at h2
  obtain ⟨y, h3, _⟩ := map_ok h2
  exact manyTillF_eof_rest _ _ _ _ _ h3

/-- `File::parse`: the budget `input.length + 2` is never exhausted, no panic branch is taken. -/
theorem file_parse_inv (s : List Char) : (File.parse s).Inv (s.length + 2) s := good_fileD (s.length + 2) s

end Pilota.Idl
