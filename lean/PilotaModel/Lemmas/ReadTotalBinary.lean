import PilotaModel.Lemmas.ReadBasics
import PilotaModel.Thrift.Weight
/-
  Binary / LE reading interpreter on EVERY input: never panics, consumes at least what it builds,
  never runs out of the top-level budget, and does not look past the bytes it consumes.
-/
namespace Pilota.Thrift.Binary
open Pilota Pilota.Thrift

theorem readVal_nopanic (e : Endian) : ∀ f,
    (∀ t bs m, readVal e f t bs ≠ .panic m) ∧ (∀ bs m, readFields e f bs ≠ .panic m) ∧
    (∀ et n bs m, readN e f et n bs ≠ .panic m) ∧ (∀ kt vt n bs m, readPairs e f kt vt n bs ≠ .panic m) := by
  intro f
  induction f with
  | zero => simp [readVal, readFields, readN, readPairs]
  | succ f ih =>
    obtain ⟨ih1, ih2, ih3, ih4⟩ := ih
    refine ⟨?_, ?_, ?_, ?_⟩
    · intro t bs m
      cases t <;> simp only [readVal] <;> osplit
    · intro bs m
      simp only [readFields]; osplit
    · intro et n bs m
      cases n <;> simp only [readN] <;> osplit
    · intro kt vt n bs m
      cases n <;> simp only [readPairs] <;> osplit

/-- what is built is paid for by the bytes consumed (3 units per byte). -/
theorem readVal_weight (e : Endian) : ∀ f,
    (∀ t bs v r, readVal e f t bs = .ok (v, r) → v.weight + 3 * r.length ≤ 3 * bs.length) ∧
    (∀ bs fs r, readFields e f bs = .ok (fs, r) → fs.weight + 3 * r.length ≤ 3 * bs.length) ∧
    (∀ et n bs xs r, readN e f et n bs = .ok (xs, r) → xs.weight + 3 * r.length ≤ 3 * bs.length) ∧
    (∀ kt vt n bs kvs r, readPairs e f kt vt n bs = .ok (kvs, r) → kvs.weight + 3 * r.length ≤ 3 * bs.length) := by
  intro f
  induction f with
  | zero => simp [readVal, readFields, readN, readPairs]
  | succ f ih =>
    obtain ⟨ih1, ih2, ih3, ih4⟩ := ih
    refine ⟨?_, ?_, ?_, ?_⟩
    · intro t bs v r h
      cases t <;> simp only [readVal] at h <;> osplit_at h <;> grind [TVal.weight]
    · intro bs fs r h
      simp only [readFields] at h; osplit_at h <;> grind [TFields.weight]
    · intro et n bs xs r h
      cases n <;> simp only [readN] at h <;> osplit_at h <;> grind [TVals.weight]
    · intro kt vt n bs kvs r h
      cases n <;> simp only [readPairs] at h <;> osplit_at h <;> grind [TPairs.weight]

theorem TVal.weight_pos (v : TVal) : 1 ≤ v.weight := by
  cases v <;> simp [TVal.weight]
  case struct fs => cases fs <;> simp [TFields.weight]; omega

theorem readVal_len {e f t bs v r} (h : readVal e f t bs = .ok (v, r)) : r.length + 1 ≤ bs.length := by
  have := (readVal_weight e f).1 t bs v r h
  have := TVal.weight_pos v
  omega
theorem readFields_len {e f bs fs r} (h : readFields e f bs = .ok (fs, r)) : r.length + 1 ≤ bs.length := by
  have := (readVal_weight e f).2.1 bs fs r h
  have : 1 ≤ fs.weight := by cases fs <;> simp [TFields.weight]; omega
  omega
theorem readN_len {e f et n bs xs r} (h : readN e f et n bs = .ok (xs, r)) : r.length ≤ bs.length := by
  have := (readVal_weight e f).2.2.1 et n bs xs r h
  omega
theorem readPairs_len {e f kt vt n bs xs r} (h : readPairs e f kt vt n bs = .ok (xs, r)) : r.length ≤ bs.length := by
  have := (readVal_weight e f).2.2.2 kt vt n bs xs r h
  omega

attribute [grind →] readVal_len readFields_len readN_len readPairs_len

/-- the budgets under which the four functions cannot run out of fuel, on any input. -/
theorem readVal_nofuel (e : Endian) : ∀ f,
    (∀ t bs, 3 * bs.length + 2 ≤ f → readVal e f t bs ≠ .fuel) ∧
    (∀ bs, 3 * bs.length + 1 ≤ f → readFields e f bs ≠ .fuel) ∧
    (∀ et n bs, 3 * bs.length + 3 ≤ f → readN e f et n bs ≠ .fuel) ∧
    (∀ kt vt n bs, 3 * bs.length + 3 ≤ f → readPairs e f kt vt n bs ≠ .fuel) := by
  intro f
  induction f with
  | zero => simp
  | succ f ih =>
    obtain ⟨ih1, ih2, ih3, ih4⟩ := ih
    refine ⟨?_, ?_, ?_, ?_⟩
    · intro t bs hf h
      cases t <;> simp only [readVal] at h <;> osplit_at h <;> first | (simp_all; done) | grind
    · intro bs hf h
      simp only [readFields] at h; osplit_at h <;> first | (simp_all; done) | grind
    · intro et n bs hf h
      cases n <;> simp only [readN] at h <;> osplit_at h <;> first | (simp_all; done) | grind
    · intro kt vt n bs hf h
      cases n <;> simp only [readPairs] at h <;> osplit_at h <;> first | (simp_all; done) | grind

/-- a successful read does not depend on the bytes after those it consumed, nor on spare fuel. -/
theorem readVal_ext (e : Endian) (q : Bytes) : ∀ f,
    (∀ t p v r f', f ≤ f' → readVal e f t p = .ok (v, r) → readVal e f' t (p ++ q) = .ok (v, r ++ q)) ∧
    (∀ p fs r f', f ≤ f' → readFields e f p = .ok (fs, r) → readFields e f' (p ++ q) = .ok (fs, r ++ q)) ∧
    (∀ et n p xs r f', f ≤ f' → readN e f et n p = .ok (xs, r) → readN e f' et n (p ++ q) = .ok (xs, r ++ q)) ∧
    (∀ kt vt n p xs r f', f ≤ f' → readPairs e f kt vt n p = .ok (xs, r) → readPairs e f' kt vt n (p ++ q) = .ok (xs, r ++ q)) := by
  intro f
  induction f with
  | zero => simp [readVal, readFields, readN, readPairs]
  | succ f ih =>
    obtain ⟨ih1, ih2, ih3, ih4⟩ := ih
    refine ⟨?_, ?_, ?_, ?_⟩
    · intro t p v r f' hf h
      obtain ⟨g, rfl⟩ : ∃ g, f' = g + 1 := ⟨f' - 1, by omega⟩
      cases t <;> simp only [readVal] at h ⊢ <;> osplit_at h <;> first | (simp_all; done) | grind
    · intro p fs r f' hf h
      obtain ⟨g, rfl⟩ : ∃ g, f' = g + 1 := ⟨f' - 1, by omega⟩
      simp only [readFields] at h ⊢; osplit_at h <;> first | (simp_all; done) | grind
    · intro et n p xs r f' hf h
      obtain ⟨g, rfl⟩ : ∃ g, f' = g + 1 := ⟨f' - 1, by omega⟩
      cases n <;> simp only [readN] at h ⊢ <;> osplit_at h <;> first | (simp_all; done) | grind
    · intro kt vt n p xs r f' hf h
      obtain ⟨g, rfl⟩ : ∃ g, f' = g + 1 := ⟨f' - 1, by omega⟩
      cases n <;> simp only [readPairs] at h ⊢ <;> osplit_at h <;> first | (simp_all; done) | grind

end Pilota.Thrift.Binary
