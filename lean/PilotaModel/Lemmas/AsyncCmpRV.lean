import PilotaModel.Lemmas.AsyncCmp
import PilotaModel.Lemmas.AsyncBinRV
/-  The async compact reading interpreter and skipper on flat bytes vs. the in-memory reader. -/
namespace Pilota.Thrift.Async
open Pilota Pilota.Thrift Pilota.Thrift.Compact

namespace ACmp
open ABin (runF_ret runF_fail)

/-! ### (A) in-memory reader accepts → async reader returns the same value, state and rest -/
mutual
theorem readVal_of_sync (f : Nat) (t : TType) (s : CR) (bs : Bytes) (v : TVal) (s' : CR) (r : Bytes)
    (h : Compact.readVal f t s bs = .ok (v, s', r)) : runF (readVal f t s) bs = .ok ((v, s'), r) := by
  cases f with
  | zero => simp [Compact.readVal] at h
  | succ f =>
    cases t with
    | stop => simp [Compact.readVal] at h
    | void => simp [Compact.readVal] at h
    | bool =>
      simp only [Compact.readVal] at h
      simp only [readVal, runF_bind, runF_readBool, bindP]
      cases hx : Compact.readBool s bs <;> simp_all [pack]
    | i8 =>
      simp only [Compact.readVal] at h
      simp only [readVal, runF_bind, ABin.runF_readI, bindP]
      cases hx : Binary.readI .be 1 bs <;> simp_all
    | i16 =>
      simp only [Compact.readVal] at h
      simp only [readVal, runF_bind, runF_readVarS, bindP]
      cases hx : Pilota.readVarS 2 bs <;> simp_all
    | i32 =>
      simp only [Compact.readVal] at h
      simp only [readVal, runF_bind, runF_readVarS, bindP]
      cases hx : Pilota.readVarS 4 bs <;> simp_all
    | i64 =>
      simp only [Compact.readVal] at h
      simp only [readVal, runF_bind, runF_readVarS, bindP]
      cases hx : Pilota.readVarS 8 bs <;> simp_all
    | double =>
      simp only [Compact.readVal] at h
      simp only [readVal, runF_bind, ABin.runF_readU, bindP]
      cases hx : Binary.readU .le 8 bs <;> simp_all
    | binary =>
      simp only [Compact.readVal] at h
      simp only [readVal, runF_bind, runF_readBytes, bindP]
      cases hx : Compact.readBytes bs <;> simp_all
    | uuid =>
      simp only [Compact.readVal] at h
      simp only [readVal, runF]
      cases hx : Binary.takeN 16 bs <;> simp_all
    | struct =>
      simp only [Compact.readVal] at h
      simp only [readVal, runF_bind]
      cases hx : Compact.readFields f (readStructBegin s) bs with
      | ok p =>
        obtain ⟨fs, s1, r1⟩ := p
        simp only [hx] at h
        cases hy : Compact.readStructEnd s1 with
        | ok s2 =>
          simp only [hy, Out.ok.injEq, Prod.mk.injEq] at h
          obtain ⟨rfl, rfl, rfl⟩ := h
          simp [readFields_of_sync f _ bs fs s1 r1 hx, bindP, runF_bind, runF_readStructEnd, hy]
        | err k => simp [hy] at h
        | panic m => simp [hy] at h
        | fuel => simp [hy] at h
      | err k => simp [hx] at h
      | panic m => simp [hx] at h
      | fuel => simp [hx] at h
    | list =>
      simp only [Compact.readVal] at h
      simp only [readVal, runF_bind]
      cases hx : Compact.readCollBegin bs with
      | ok p =>
        obtain ⟨⟨et, n⟩, r1⟩ := p
        simp only [hx] at h
        cases hy : Compact.readN f et n s r1 with
        | ok q =>
          obtain ⟨xs, s2, r2⟩ := q
          simp only [hy, Out.ok.injEq, Prod.mk.injEq] at h
          obtain ⟨rfl, rfl, rfl⟩ := h
          simp [readCollBegin_of_sync bs _ hx, readN_of_sync f et n s r1 xs s2 r2 hy, bindP]
        | err k => simp [hy] at h
        | panic m => simp [hy] at h
        | fuel => simp [hy] at h
      | err k => simp [hx] at h
      | panic m => simp [hx] at h
      | fuel => simp [hx] at h
    | set =>
      simp only [Compact.readVal] at h
      simp only [readVal, runF_bind]
      cases hx : Compact.readCollBegin bs with
      | ok p =>
        obtain ⟨⟨et, n⟩, r1⟩ := p
        simp only [hx] at h
        cases hy : Compact.readN f et n s r1 with
        | ok q =>
          obtain ⟨xs, s2, r2⟩ := q
          simp only [hy, Out.ok.injEq, Prod.mk.injEq] at h
          obtain ⟨rfl, rfl, rfl⟩ := h
          simp [readCollBegin_of_sync bs _ hx, readN_of_sync f et n s r1 xs s2 r2 hy, bindP]
        | err k => simp [hy] at h
        | panic m => simp [hy] at h
        | fuel => simp [hy] at h
      | err k => simp [hx] at h
      | panic m => simp [hx] at h
      | fuel => simp [hx] at h
    | map =>
      simp only [Compact.readVal] at h
      simp only [readVal, runF_bind]
      cases hx : Compact.readMapBegin bs with
      | ok p =>
        obtain ⟨⟨kt, vt, n⟩, r1⟩ := p
        simp only [hx] at h
        cases hy : Compact.readPairs f kt vt n s r1 with
        | ok q =>
          obtain ⟨xs, s2, r2⟩ := q
          simp only [hy, Out.ok.injEq, Prod.mk.injEq] at h
          obtain ⟨rfl, rfl, rfl⟩ := h
          simp [readMapBegin_of_sync bs _ hx, readPairs_of_sync f kt vt n s r1 xs s2 r2 hy, bindP]
        | err k => simp [hy] at h
        | panic m => simp [hy] at h
        | fuel => simp [hy] at h
      | err k => simp [hx] at h
      | panic m => simp [hx] at h
      | fuel => simp [hx] at h
theorem readFields_of_sync (f : Nat) (s : CR) (bs : Bytes) (fs : TFields) (s' : CR) (r : Bytes)
    (h : Compact.readFields f s bs = .ok (fs, s', r)) : runF (readFields f s) bs = .ok ((fs, s'), r) := by
  cases f with
  | zero => simp [Compact.readFields] at h
  | succ f =>
    simp only [Compact.readFields] at h
    simp only [readFields, runF_bind, runF_readFieldBegin]
    cases hx : Compact.readFieldBegin s bs with
    | ok p =>
      obtain ⟨⟨t, id⟩, s1, r1⟩ := p
      simp only [hx] at h
      by_cases hs : t = .stop
      · simp only [hs, if_true, Out.ok.injEq, Prod.mk.injEq] at h
        obtain ⟨rfl, rfl, rfl⟩ := h
        simp [pack, bindP, hs]
      · simp only [hs, if_false] at h
        cases hy : Compact.readVal f t s1 r1 with
        | ok q =>
          obtain ⟨v, s2, r2⟩ := q
          simp only [hy] at h
          cases hz : Compact.readFields f s2 r2 with
          | ok q2 =>
            obtain ⟨rest, s3, r3⟩ := q2
            simp only [hz, Out.ok.injEq, Prod.mk.injEq] at h
            obtain ⟨rfl, rfl, rfl⟩ := h
            simp [pack, bindP, hs, runF_bind, readVal_of_sync f t s1 r1 v s2 r2 hy, readFields_of_sync f s2 r2 rest s3 r3 hz]
          | err k => simp [hz] at h
          | panic m => simp [hz] at h
          | fuel => simp [hz] at h
        | err k => simp [hy] at h
        | panic m => simp [hy] at h
        | fuel => simp [hy] at h
    | err k => simp [hx] at h
    | panic m => simp [hx] at h
    | fuel => simp [hx] at h
theorem readN_of_sync (f : Nat) (et : TType) (n : Nat) (s : CR) (bs : Bytes) (xs : TVals) (s' : CR) (r : Bytes)
    (h : Compact.readN f et n s bs = .ok (xs, s', r)) : runF (readN f et n s) bs = .ok ((xs, s'), r) := by
  cases f with
  | zero => simp [Compact.readN] at h
  | succ f =>
    cases n with
    | zero =>
      simp only [Compact.readN, Out.ok.injEq, Prod.mk.injEq] at h
      obtain ⟨rfl, rfl, rfl⟩ := h
      simp [readN]
    | succ n =>
      simp only [Compact.readN] at h
      simp only [readN, runF_bind]
      cases hy : Compact.readVal f et s bs with
      | ok q =>
        obtain ⟨v, s2, r2⟩ := q
        simp only [hy] at h
        cases hz : Compact.readN f et n s2 r2 with
        | ok q2 =>
          obtain ⟨rest, s3, r3⟩ := q2
          simp only [hz, Out.ok.injEq, Prod.mk.injEq] at h
          obtain ⟨rfl, rfl, rfl⟩ := h
          simp [bindP, readVal_of_sync f et s bs v s2 r2 hy, readN_of_sync f et n s2 r2 rest s3 r3 hz]
        | err k => simp [hz] at h
        | panic m => simp [hz] at h
        | fuel => simp [hz] at h
      | err k => simp [hy] at h
      | panic m => simp [hy] at h
      | fuel => simp [hy] at h
theorem readPairs_of_sync (f : Nat) (kt vt : TType) (n : Nat) (s : CR) (bs : Bytes) (xs : TPairs) (s' : CR) (r : Bytes)
    (h : Compact.readPairs f kt vt n s bs = .ok (xs, s', r)) : runF (readPairs f kt vt n s) bs = .ok ((xs, s'), r) := by
  cases f with
  | zero => simp [Compact.readPairs] at h
  | succ f =>
    cases n with
    | zero =>
      simp only [Compact.readPairs, Out.ok.injEq, Prod.mk.injEq] at h
      obtain ⟨rfl, rfl, rfl⟩ := h
      simp [readPairs]
    | succ n =>
      simp only [Compact.readPairs] at h
      simp only [readPairs, runF_bind]
      cases hy : Compact.readVal f kt s bs with
      | ok q =>
        obtain ⟨k, s2, r2⟩ := q
        simp only [hy] at h
        cases hy' : Compact.readVal f vt s2 r2 with
        | ok q' =>
          obtain ⟨v, s2', r2'⟩ := q'
          simp only [hy'] at h
          cases hz : Compact.readPairs f kt vt n s2' r2' with
          | ok q2 =>
            obtain ⟨rest, s3, r3⟩ := q2
            simp only [hz, Out.ok.injEq, Prod.mk.injEq] at h
            obtain ⟨rfl, rfl, rfl⟩ := h
            simp [bindP, readVal_of_sync f kt s bs k s2 r2 hy, readVal_of_sync f vt s2 r2 v s2' r2' hy',
              readPairs_of_sync f kt vt n s2' r2' rest s3 r3 hz]
          | err k => simp [hz] at h
          | panic m => simp [hz] at h
          | fuel => simp [hz] at h
        | err k => simp [hy'] at h
        | panic m => simp [hy'] at h
        | fuel => simp [hy'] at h
      | err k => simp [hy] at h
      | panic m => simp [hy] at h
      | fuel => simp [hy] at h
end


/-! ### the pending bool of a field header is consumed by the bool that follows it -/

theorem readFieldBegin_pending (s : CR) (hs : s.pendingBool = none) (bs : Bytes) (t : TType) (id : Int) (s1 : CR) (r : Bytes)
    (h : Compact.readFieldBegin s bs = .ok ((t, id), s1, r)) : s1.pendingBool = none ∨ t = .bool := by
  unfold Compact.readFieldBegin at h
  cases hx : Compact.readByte bs with
  | ok p =>
    obtain ⟨b, r0⟩ := p
    simp only [hx] at h
    generalize hs0 : (if b % 16 = 1 then ({ s with pendingBool := some true } : CR)
      else if b % 16 = 2 then { s with pendingBool := some false } else s) = s0 at h
    have key : ttypeOfCompact (b % 16) = some t ∧ s1.pendingBool = s0.pendingBool := by
      cases ht : ttypeOfCompact (b % 16) with
      | none => simp [ht] at h
      | some t' =>
        simp only [ht] at h
        cases t' <;> simp only [] at h <;>
          first
          | (simp only [Out.ok.injEq, Prod.mk.injEq] at h; exact ⟨by rw [h.1.1], by rw [← h.2.1]⟩)
          | (split at h
             · split at h
               · simp only [Out.ok.injEq, Prod.mk.injEq] at h; exact ⟨by rw [h.1.1], by rw [← h.2.1]⟩
               · cases h
             · cases hy : Pilota.readVarS 2 r0 with
               | ok q => simp only [hy, Out.ok.injEq, Prod.mk.injEq] at h; exact ⟨by rw [h.1.1], by rw [← h.2.1]⟩
               | err k => simp [hy] at h
               | panic m => simp [hy] at h
               | fuel => simp [hy] at h)
    obtain ⟨kt, kp⟩ := key
    by_cases h1 : b % 16 = 1
    · right; rw [h1] at kt; simpa [ttypeOfCompact] using kt.symm
    · by_cases h2 : b % 16 = 2
      · right; rw [h2] at kt; simpa [ttypeOfCompact] using kt.symm
      · left; rw [kp, ← hs0]; simp [h1, h2, hs]
  | err k => simp [hx] at h
  | panic m => simp [hx] at h
  | fuel => simp [hx] at h

theorem readBool_pending (s : CR) (bs : Bytes) (b : Bool) (s' : CR) (r : Bytes)
    (h : Compact.readBool s bs = .ok (b, s', r)) : s'.pendingBool = none := by
  unfold Compact.readBool at h
  cases hp : s.pendingBool with
  | some x => simp only [hp, Out.ok.injEq, Prod.mk.injEq] at h; rw [← h.2.1]
  | none =>
    simp only [hp] at h
    cases hx : Compact.readByte bs with
    | ok p =>
      obtain ⟨x, r0⟩ := p
      simp only [hx] at h
      split at h
      · simp only [Out.ok.injEq, Prod.mk.injEq] at h; rw [← h.2.1]; exact hp
      · split at h
        · simp only [Out.ok.injEq, Prod.mk.injEq] at h; rw [← h.2.1]; exact hp
        · cases h
    | err k => simp [hx] at h
    | panic m => simp [hx] at h
    | fuel => simp [hx] at h

mutual
theorem readVal_pending (f : Nat) (t : TType) (s : CR) (bs : Bytes) (v : TVal) (s' : CR) (r : Bytes)
    (h : runF (readVal f t s) bs = .ok ((v, s'), r)) (hp : s.pendingBool = none ∨ t = .bool) : s'.pendingBool = none := by
  cases f with
  | zero => simp [readVal, runF] at h
  | succ f =>
    cases t with
    | stop => simp [readVal] at h
    | void => simp [readVal] at h
    | bool =>
      simp only [readVal, runF_bind, runF_readBool, bindP_ok, runF_ret, Out.ok.injEq, Prod.mk.injEq] at h
      obtain ⟨⟨b, s1⟩, r1, h1, ⟨_, rfl⟩, _⟩ := h
      exact readBool_pending s bs b s1 r1 ((pack_ok _ _ _ _).mp h1)
    | i8 =>
      simp only [readVal, runF_bind, bindP_ok, runF_ret, Out.ok.injEq, Prod.mk.injEq] at h
      obtain ⟨_, _, _, ⟨_, rfl⟩, _⟩ := h
      exact hp.resolve_right (by decide)
    | i16 =>
      simp only [readVal, runF_bind, bindP_ok, runF_ret, Out.ok.injEq, Prod.mk.injEq] at h
      obtain ⟨_, _, _, ⟨_, rfl⟩, _⟩ := h
      exact hp.resolve_right (by decide)
    | i32 =>
      simp only [readVal, runF_bind, bindP_ok, runF_ret, Out.ok.injEq, Prod.mk.injEq] at h
      obtain ⟨_, _, _, ⟨_, rfl⟩, _⟩ := h
      exact hp.resolve_right (by decide)
    | i64 =>
      simp only [readVal, runF_bind, bindP_ok, runF_ret, Out.ok.injEq, Prod.mk.injEq] at h
      obtain ⟨_, _, _, ⟨_, rfl⟩, _⟩ := h
      exact hp.resolve_right (by decide)
    | double =>
      simp only [readVal, runF_bind, bindP_ok, runF_ret, Out.ok.injEq, Prod.mk.injEq] at h
      obtain ⟨_, _, _, ⟨_, rfl⟩, _⟩ := h
      exact hp.resolve_right (by decide)
    | binary =>
      simp only [readVal, runF_bind, bindP_ok, runF_ret, Out.ok.injEq, Prod.mk.injEq] at h
      obtain ⟨_, _, _, ⟨_, rfl⟩, _⟩ := h
      exact hp.resolve_right (by decide)
    | uuid =>
      simp only [readVal, runF] at h
      cases hx : Binary.takeN 16 bs with
      | ok p => simp only [hx, Out.ok.injEq, Prod.mk.injEq] at h; rw [← h.1.2]; exact hp.resolve_right (by decide)
      | err k => simp [hx] at h
      | panic m => simp [hx] at h
      | fuel => simp [hx] at h
    | struct =>
      simp only [readVal, runF_bind, bindP_ok, runF_readStructEnd, runF_ret] at h
      obtain ⟨⟨fs, s1⟩, r1, h1, h2⟩ := h
      have hs1 := readFields_pending f (readStructBegin s) bs fs s1 r1 h1 (by simpa [readStructBegin] using hp.resolve_right (by decide))
      obtain ⟨s2, r2, h3, h4⟩ := h2
      simp only [Out.ok.injEq, Prod.mk.injEq] at h4
      obtain ⟨⟨_, rfl⟩, _⟩ := h4
      unfold Compact.readStructEnd at h3
      cases hst : s1.stack with
      | nil => simp [hst] at h3
      | cons l st => simp only [hst, Out.ok.injEq, Prod.mk.injEq] at h3; rw [← h3.1]; exact hs1
    | list =>
      simp only [readVal, runF_bind, bindP_ok, runF_ret, Out.ok.injEq, Prod.mk.injEq] at h
      obtain ⟨⟨et, n⟩, r1, _, ⟨xs, s2⟩, r2, h2, ⟨_, rfl⟩, _⟩ := h
      exact readN_pending f et n s r1 xs s2 r2 h2 (hp.resolve_right (by decide))
    | set =>
      simp only [readVal, runF_bind, bindP_ok, runF_ret, Out.ok.injEq, Prod.mk.injEq] at h
      obtain ⟨⟨et, n⟩, r1, _, ⟨xs, s2⟩, r2, h2, ⟨_, rfl⟩, _⟩ := h
      exact readN_pending f et n s r1 xs s2 r2 h2 (hp.resolve_right (by decide))
    | map =>
      simp only [readVal, runF_bind, bindP_ok, runF_ret, Out.ok.injEq, Prod.mk.injEq] at h
      obtain ⟨⟨kt, vt, n⟩, r1, _, ⟨xs, s2⟩, r2, h2, ⟨_, rfl⟩, _⟩ := h
      exact readPairs_pending f kt vt n s r1 xs s2 r2 h2 (hp.resolve_right (by decide))
theorem readFields_pending (f : Nat) (s : CR) (bs : Bytes) (fs : TFields) (s' : CR) (r : Bytes)
    (h : runF (readFields f s) bs = .ok ((fs, s'), r)) (hp : s.pendingBool = none) : s'.pendingBool = none := by
  cases f with
  | zero => simp [readFields, runF] at h
  | succ f =>
    simp only [readFields, runF_bind, runF_readFieldBegin, bindP_ok] at h
    obtain ⟨⟨⟨t, id⟩, s1⟩, r1, h1, h2⟩ := h
    have h1' := (pack_ok _ _ _ _).mp h1
    have hp1 := readFieldBegin_pending s hp bs t id s1 r1 h1'
    by_cases hs : t = .stop
    · simp only [hs, if_true, runF_ret, Out.ok.injEq, Prod.mk.injEq] at h2
      obtain ⟨⟨_, rfl⟩, _⟩ := h2
      subst hs
      exact hp1.resolve_right (by decide)
    · simp only [hs, if_false, runF_bind, bindP_ok, runF_ret, Out.ok.injEq, Prod.mk.injEq] at h2
      obtain ⟨⟨v, s2⟩, r2, h3, ⟨rest, s3⟩, r3, h4, ⟨_, rfl⟩, _⟩ := h2
      exact readFields_pending f s2 r2 rest s3 r3 h4 (readVal_pending f t s1 r1 v s2 r2 h3 hp1)
theorem readN_pending (f : Nat) (et : TType) (n : Nat) (s : CR) (bs : Bytes) (xs : TVals) (s' : CR) (r : Bytes)
    (h : runF (readN f et n s) bs = .ok ((xs, s'), r)) (hp : s.pendingBool = none) : s'.pendingBool = none := by
  cases f with
  | zero => simp [readN, runF] at h
  | succ f =>
    cases n with
    | zero =>
      simp only [readN, runF_ret, Out.ok.injEq, Prod.mk.injEq] at h
      obtain ⟨⟨_, rfl⟩, _⟩ := h; exact hp
    | succ n =>
      simp only [readN, runF_bind, bindP_ok, runF_ret, Out.ok.injEq, Prod.mk.injEq] at h
      obtain ⟨⟨v, s1⟩, r1, h1, ⟨vs, s2⟩, r2, h2, ⟨_, rfl⟩, _⟩ := h
      exact readN_pending f et n s1 r1 vs s2 r2 h2 (readVal_pending f et s bs v s1 r1 h1 (Or.inl hp))
theorem readPairs_pending (f : Nat) (kt vt : TType) (n : Nat) (s : CR) (bs : Bytes) (xs : TPairs) (s' : CR) (r : Bytes)
    (h : runF (readPairs f kt vt n s) bs = .ok ((xs, s'), r)) (hp : s.pendingBool = none) : s'.pendingBool = none := by
  cases f with
  | zero => simp [readPairs, runF] at h
  | succ f =>
    cases n with
    | zero =>
      simp only [readPairs, runF_ret, Out.ok.injEq, Prod.mk.injEq] at h
      obtain ⟨⟨_, rfl⟩, _⟩ := h; exact hp
    | succ n =>
      simp only [readPairs, runF_bind, bindP_ok, runF_ret, Out.ok.injEq, Prod.mk.injEq] at h
      obtain ⟨⟨k, s1⟩, r1, h1, ⟨v, s1'⟩, r1', h1', ⟨vs, s2⟩, r2, h2, ⟨_, rfl⟩, _⟩ := h
      have p1 := readVal_pending f kt s bs k s1 r1 h1 (Or.inl hp)
      have p2 := readVal_pending f vt s1 r1 v s1' r1' h1' (Or.inl p1)
      exact readPairs_pending f kt vt n s1' r1' vs s2 r2 h2 p2
end


/-! ### every value takes at least one byte (a bool only when none is pending) -/

theorem readByte_lt (bs : Bytes) (a : Nat) (r : Bytes) (h : runF readByte bs = .ok (a, r)) : r.length < bs.length :=
  runF_need_lt 1 (by decide) _ bs a r h

theorem gatherVar_lt (m : Nat) (hm : 0 < m) (bs : Bytes) (a : Bytes) (r : Bytes) (h : runF (gatherVar m) bs = .ok (a, r)) :
    r.length < bs.length := by
  cases m with
  | zero => omega
  | succ m => exact runF_need_lt 1 (by decide) _ bs a r h

theorem readVarS_lt (w : Nat) (hw : 0 < varMaxSize w) (bs : Bytes) (a : Int) (r : Bytes) (h : runF (readVarS w) bs = .ok (a, r)) :
    r.length < bs.length := ABin.bind_lt _ _ (gatherVar_lt _ hw) bs a r h

theorem readVarU_lt (w : Nat) (hw : 0 < varMaxSize w) (bs : Bytes) (a : Nat) (r : Bytes) (h : runF (readVarU w) bs = .ok (a, r)) :
    r.length < bs.length := ABin.bind_lt _ _ (gatherVar_lt _ hw) bs a r h

theorem readVal_lt (f : Nat) (t : TType) (s : CR) (hp : s.pendingBool = none) (bs : Bytes) (x : TVal × CR) (r : Bytes)
    (h : runF (readVal f t s) bs = .ok (x, r)) : r.length < bs.length := by
  cases f with
  | zero => simp [readVal, runF] at h
  | succ f =>
    cases t with
    | stop => simp [readVal] at h
    | void => simp [readVal] at h
    | bool =>
      refine ABin.bind_lt _ _ (fun bs a r h => ?_) bs x r h
      simp only [readBool, hp] at h
      exact ABin.bind_lt _ _ readByte_lt bs a r h
    | i8 => exact ABin.bind_lt _ _ (ABin.readI_lt .be 1 (by decide)) bs x r h
    | i16 => exact ABin.bind_lt _ _ (readVarS_lt 2 (by decide)) bs x r h
    | i32 => exact ABin.bind_lt _ _ (readVarS_lt 4 (by decide)) bs x r h
    | i64 => exact ABin.bind_lt _ _ (readVarS_lt 8 (by decide)) bs x r h
    | double => exact ABin.bind_lt _ _ (ABin.readU_lt .le 8 (by decide)) bs x r h
    | binary => exact ABin.bind_lt _ _ (fun bs a r h => ABin.bind_lt _ _ (readVarU_lt 4 (by decide)) bs a r h) bs x r h
    | uuid => exact runF_need_lt 16 (by decide) _ bs x r h
    | struct =>
      refine ABin.bind_lt _ _ (fun bs a r h => ?_) bs x r h
      cases f with
      | zero => simp [readFields, runF] at h
      | succ f => exact ABin.bind_lt _ _ (fun bs a r h => ABin.bind_lt _ _ readByte_lt bs a r h) bs a r h
    | list => exact ABin.bind_lt _ _ (fun bs a r h => ABin.bind_lt _ _ readByte_lt bs a r h) bs x r h
    | set => exact ABin.bind_lt _ _ (fun bs a r h => ABin.bind_lt _ _ readByte_lt bs a r h) bs x r h
    | map => exact ABin.bind_lt _ _ (fun bs a r h => ABin.bind_lt _ _ (readVarU_lt 4 (by decide)) bs a r h) bs x r h

theorem readN_consumes (f : Nat) (et : TType) (n : Nat) (s : CR) (hp : s.pendingBool = none) (bs : Bytes) (x : TVals × CR) (r : Bytes)
    (h : runF (readN f et n s) bs = .ok (x, r)) : n + r.length ≤ bs.length := by
  induction n generalizing f s bs x with
  | zero =>
    cases f with
    | zero => simp [readN, runF] at h
    | succ f => simp only [readN, runF_ret, Out.ok.injEq, Prod.mk.injEq] at h; rw [h.2]; omega
  | succ n ih =>
    cases f with
    | zero => simp [readN, runF] at h
    | succ f =>
      simp only [readN, runF_bind, bindP_ok, runF_ret, Out.ok.injEq, Prod.mk.injEq] at h
      obtain ⟨⟨v, s1⟩, r1, h1, ⟨vs, s2⟩, r2, h2, _, rfl⟩ := h
      have := readVal_lt f et s hp bs _ r1 h1
      have := ih f s1 (readVal_pending f et s bs v s1 r1 h1 (Or.inl hp)) r1 _ h2
      omega

theorem readPairs_consumes (f : Nat) (kt vt : TType) (n : Nat) (s : CR) (hp : s.pendingBool = none) (bs : Bytes) (x : TPairs × CR) (r : Bytes)
    (h : runF (readPairs f kt vt n s) bs = .ok (x, r)) : n + r.length ≤ bs.length := by
  induction n generalizing f s bs x with
  | zero =>
    cases f with
    | zero => simp [readPairs, runF] at h
    | succ f => simp only [readPairs, runF_ret, Out.ok.injEq, Prod.mk.injEq] at h; rw [h.2]; omega
  | succ n ih =>
    cases f with
    | zero => simp [readPairs, runF] at h
    | succ f =>
      simp only [readPairs, runF_bind, bindP_ok, runF_ret, Out.ok.injEq, Prod.mk.injEq] at h
      obtain ⟨⟨k, s1⟩, r1, h1, ⟨v, s1'⟩, r1', h1', ⟨vs, s2⟩, r2, h2, _, rfl⟩ := h
      have p1 := readVal_pending f kt s bs k s1 r1 h1 (Or.inl hp)
      have p2 := readVal_pending f vt s1 r1 v s1' r1' h1' (Or.inl p1)
      have := readVal_lt f kt s hp bs _ r1 h1
      have := runF_le _ _ _ _ h1'
      have := ih f s1' p2 r1' _ h2
      omega

/-! ### (B) async reader accepts → in-memory reader returns the same value, state and rest -/
mutual
theorem sync_of_readVal (f : Nat) (t : TType) (s : CR) (bs : Bytes) (hb : bs.length < 2 ^ 63)
    (hp : s.pendingBool = none ∨ t = .bool) (v : TVal) (s' : CR) (r : Bytes)
    (h : runF (readVal f t s) bs = .ok ((v, s'), r)) : Compact.readVal f t s bs = .ok (v, s', r) := by
  cases f with
  | zero => simp [readVal, runF] at h
  | succ f =>
    cases t with
    | stop => simp [readVal] at h
    | void => simp [readVal] at h
    | bool =>
      simp only [readVal, runF_bind, runF_readBool, bindP_ok, runF_ret, Out.ok.injEq, Prod.mk.injEq] at h
      obtain ⟨⟨b, s1⟩, r1, h1, ⟨rfl, rfl⟩, rfl⟩ := h
      simp [Compact.readVal, (pack_ok _ _ _ _).mp h1]
    | i8 =>
      simp only [readVal, runF_bind, ABin.runF_readI, bindP_ok, runF_ret, Out.ok.injEq, Prod.mk.injEq] at h
      obtain ⟨n, r1, h1, ⟨rfl, rfl⟩, rfl⟩ := h
      simp [Compact.readVal, h1]
    | i16 =>
      simp only [readVal, runF_bind, runF_readVarS, bindP_ok, runF_ret, Out.ok.injEq, Prod.mk.injEq] at h
      obtain ⟨n, r1, h1, ⟨rfl, rfl⟩, rfl⟩ := h
      simp [Compact.readVal, h1]
    | i32 =>
      simp only [readVal, runF_bind, runF_readVarS, bindP_ok, runF_ret, Out.ok.injEq, Prod.mk.injEq] at h
      obtain ⟨n, r1, h1, ⟨rfl, rfl⟩, rfl⟩ := h
      simp [Compact.readVal, h1]
    | i64 =>
      simp only [readVal, runF_bind, runF_readVarS, bindP_ok, runF_ret, Out.ok.injEq, Prod.mk.injEq] at h
      obtain ⟨n, r1, h1, ⟨rfl, rfl⟩, rfl⟩ := h
      simp [Compact.readVal, h1]
    | double =>
      simp only [readVal, runF_bind, ABin.runF_readU, bindP_ok, runF_ret, Out.ok.injEq, Prod.mk.injEq] at h
      obtain ⟨n, r1, h1, ⟨rfl, rfl⟩, rfl⟩ := h
      simp [Compact.readVal, h1]
    | binary =>
      simp only [readVal, runF_bind, runF_readBytes, bindP_ok, runF_ret, Out.ok.injEq, Prod.mk.injEq] at h
      obtain ⟨n, r1, h1, ⟨rfl, rfl⟩, rfl⟩ := h
      simp [Compact.readVal, h1]
    | uuid =>
      simp only [readVal, runF] at h
      cases hx : Binary.takeN 16 bs <;> simp_all [Compact.readVal]
    | struct =>
      simp only [readVal, runF_bind, bindP_ok, runF_readStructEnd, runF_ret] at h
      obtain ⟨⟨fs, s1⟩, r1, h1, s2, r2, h3, h4⟩ := h
      simp only [Out.ok.injEq, Prod.mk.injEq] at h4
      obtain ⟨⟨rfl, rfl⟩, rfl⟩ := h4
      have hs0 : (readStructBegin s).pendingBool = none := by simpa [readStructBegin] using hp.resolve_right (by decide)
      have hf := sync_of_readFields f (readStructBegin s) bs hb hs0 fs s1 r1 h1
      cases hse : Compact.readStructEnd s1 with
      | ok s2' =>
        simp only [hse, Out.ok.injEq, Prod.mk.injEq] at h3
        obtain ⟨rfl, rfl⟩ := h3
        simp [Compact.readVal, hf, hse]
      | err k => simp [hse] at h3
      | panic m => simp [hse] at h3
      | fuel => simp [hse] at h3
    | list =>
      simp only [readVal, runF_bind, bindP_ok, runF_ret, Out.ok.injEq, Prod.mk.injEq] at h
      obtain ⟨⟨et, n⟩, r1, h1, ⟨xs, s2⟩, r2, h2, ⟨rfl, rfl⟩, rfl⟩ := h
      have hp0 := hp.resolve_right (by decide)
      have hr1 := runF_le _ _ _ _ h1
      have hc := readN_consumes f et n s hp0 r1 _ r2 h2
      simp [Compact.readVal, sync_of_readCollBegin bs hb et n r1 h1 (by omega), sync_of_readN f et n s r1 (by omega) hp0 xs s2 r2 h2]
    | set =>
      simp only [readVal, runF_bind, bindP_ok, runF_ret, Out.ok.injEq, Prod.mk.injEq] at h
      obtain ⟨⟨et, n⟩, r1, h1, ⟨xs, s2⟩, r2, h2, ⟨rfl, rfl⟩, rfl⟩ := h
      have hp0 := hp.resolve_right (by decide)
      have hr1 := runF_le _ _ _ _ h1
      have hc := readN_consumes f et n s hp0 r1 _ r2 h2
      simp [Compact.readVal, sync_of_readCollBegin bs hb et n r1 h1 (by omega), sync_of_readN f et n s r1 (by omega) hp0 xs s2 r2 h2]
    | map =>
      simp only [readVal, runF_bind, bindP_ok, runF_ret, Out.ok.injEq, Prod.mk.injEq] at h
      obtain ⟨⟨kt, vt, n⟩, r1, h1, ⟨xs, s2⟩, r2, h2, ⟨rfl, rfl⟩, rfl⟩ := h
      have hp0 := hp.resolve_right (by decide)
      have hr1 := runF_le _ _ _ _ h1
      have hc := readPairs_consumes f kt vt n s hp0 r1 _ r2 h2
      simp [Compact.readVal, sync_of_readMapBegin bs hb kt vt n r1 h1 (by omega), sync_of_readPairs f kt vt n s r1 (by omega) hp0 xs s2 r2 h2]
theorem sync_of_readFields (f : Nat) (s : CR) (bs : Bytes) (hb : bs.length < 2 ^ 63) (hp : s.pendingBool = none)
    (fs : TFields) (s' : CR) (r : Bytes)
    (h : runF (readFields f s) bs = .ok ((fs, s'), r)) : Compact.readFields f s bs = .ok (fs, s', r) := by
  cases f with
  | zero => simp [readFields, runF] at h
  | succ f =>
    have h0 := h
    simp only [readFields, runF_bind, runF_readFieldBegin, bindP_ok] at h
    obtain ⟨⟨⟨t, id⟩, s1⟩, r1, h1, h2⟩ := h
    have h1' := (pack_ok _ _ _ _).mp h1
    have hp1 := readFieldBegin_pending s hp bs t id s1 r1 h1'
    have hr1 : r1.length ≤ bs.length := runF_le (readFieldBegin s) bs _ r1 (by rw [runF_readFieldBegin]; exact h1)
    by_cases hs : t = .stop
    · simp only [hs, if_true, runF_ret, Out.ok.injEq, Prod.mk.injEq] at h2
      obtain ⟨⟨rfl, rfl⟩, rfl⟩ := h2
      simp [Compact.readFields, h1', hs]
    · simp only [hs, if_false, runF_bind, bindP_ok, runF_ret, Out.ok.injEq, Prod.mk.injEq] at h2
      obtain ⟨⟨v, s2⟩, r2, h3, ⟨rest, s3⟩, r3, h4, ⟨rfl, rfl⟩, rfl⟩ := h2
      have hr2 := runF_le _ _ _ _ h3
      have p2 := readVal_pending f t s1 r1 v s2 r2 h3 hp1
      simp [Compact.readFields, h1', hs, sync_of_readVal f t s1 r1 (by omega) hp1 v s2 r2 h3,
        sync_of_readFields f s2 r2 (by omega) p2 rest s3 r3 h4]
theorem sync_of_readN (f : Nat) (et : TType) (n : Nat) (s : CR) (bs : Bytes) (hb : bs.length < 2 ^ 63) (hp : s.pendingBool = none)
    (xs : TVals) (s' : CR) (r : Bytes)
    (h : runF (readN f et n s) bs = .ok ((xs, s'), r)) : Compact.readN f et n s bs = .ok (xs, s', r) := by
  cases f with
  | zero => simp [readN, runF] at h
  | succ f =>
    cases n with
    | zero =>
      simp only [readN, runF_ret, Out.ok.injEq, Prod.mk.injEq] at h
      obtain ⟨⟨rfl, rfl⟩, rfl⟩ := h
      simp [Compact.readN]
    | succ n =>
      simp only [readN, runF_bind, bindP_ok, runF_ret, Out.ok.injEq, Prod.mk.injEq] at h
      obtain ⟨⟨v, s1⟩, r1, h1, ⟨vs, s2⟩, r2, h2, ⟨rfl, rfl⟩, rfl⟩ := h
      have hr1 := runF_le _ _ _ _ h1
      have p1 := readVal_pending f et s bs v s1 r1 h1 (Or.inl hp)
      simp [Compact.readN, sync_of_readVal f et s bs hb (Or.inl hp) v s1 r1 h1, sync_of_readN f et n s1 r1 (by omega) p1 vs s2 r2 h2]
theorem sync_of_readPairs (f : Nat) (kt vt : TType) (n : Nat) (s : CR) (bs : Bytes) (hb : bs.length < 2 ^ 63) (hp : s.pendingBool = none)
    (xs : TPairs) (s' : CR) (r : Bytes)
    (h : runF (readPairs f kt vt n s) bs = .ok ((xs, s'), r)) : Compact.readPairs f kt vt n s bs = .ok (xs, s', r) := by
  cases f with
  | zero => simp [readPairs, runF] at h
  | succ f =>
    cases n with
    | zero =>
      simp only [readPairs, runF_ret, Out.ok.injEq, Prod.mk.injEq] at h
      obtain ⟨⟨rfl, rfl⟩, rfl⟩ := h
      simp [Compact.readPairs]
    | succ n =>
      simp only [readPairs, runF_bind, bindP_ok, runF_ret, Out.ok.injEq, Prod.mk.injEq] at h
      obtain ⟨⟨k, s1⟩, r1, h1, ⟨v, s1'⟩, r1', h1', ⟨vs, s2⟩, r2, h2, ⟨rfl, rfl⟩, rfl⟩ := h
      have hr1 := runF_le _ _ _ _ h1
      have hr1' := runF_le _ _ _ _ h1'
      have p1 := readVal_pending f kt s bs k s1 r1 h1 (Or.inl hp)
      have p2 := readVal_pending f vt s1 r1 v s1' r1' h1' (Or.inl p1)
      simp [Compact.readPairs, sync_of_readVal f kt s bs hb (Or.inl hp) k s1 r1 h1,
        sync_of_readVal f vt s1 r1 (by omega) (Or.inl p1) v s1' r1' h1',
        sync_of_readPairs f kt vt n s1' r1' (by omega) p2 vs s2 r2 h2]
end

end ACmp
end Pilota.Thrift.Async
