import PilotaModel.Lemmas.LowerTyped
/-  C08 over typed values: what a reader that lacks struct fields (plain decoder) returns for a typed value of the writer's document,
    in closed form (`strip`), and that it is a typed value of the reader's document.  `strip` / `stripFields` are specification
    definitions (no Rust code is modelled here). -/
namespace Pilota.TGen
open Pilota Pilota.Thrift

/-- the fields of a typed wire struct that the reader keeps, values passed through `g`, in declaration order -/
def stripFields (g : STy → TVal → TVal) (keep : Field → Bool) : List Field → TFields → List (Int × TVal)
  | [], _ => []
  | _ :: _, .nil => []
  | fl :: fs, .cons id v r =>
    if fl.id == id then (if keep fl then (id, g fl.ty v) :: stripFields g keep fs r else stripFields g keep fs r)
    else stripFields g keep fs (.cons id v r)

section
variable (d : Doc)

/-- what a reader that lacks some struct fields (and uses the plain, non-retaining decoder) makes of a typed value: the value
without those fields, at every level; sets and maps rebuilt by insertion (elements that differ only in a removed field meet) -/
def strip (keep : String → Field → Bool) : Nat → STy → TVal → TVal
  | 0, _, w => w
  | f+1, .list e, .list t xs => .list t (mapV (strip keep f e) xs)
  | f+1, .set e, .set t xs => .set t (TVals.ofList ((mapV (strip keep f e) xs).toList.foldl setInsert []))
  | f+1, .map k v, .map kt vt kvs =>
    .map kt vt (TPairs.ofList ((mapP (strip keep f k) (strip keep f v) kvs).toList.foldl (fun a p => mapInsert a p.1 p.2) []))
  | f+1, .ref n, w => match d.find n with
    | some (.struct fs) => match w with
      | .struct wfs => .struct (TFields.ofList (stripFields (strip keep f) (keep n) fs wfs))
      | w => w
    | some (.union vs) => match w with
      | .struct (.cons id v .nil) => match vs.find? (fun x => x.1 == id && !(x.2 == .void)) with
        | some (_, ty) => .struct (.cons id (strip keep f ty v) .nil)
        | none => w
      | w => w
    | some (.typedef t) => strip keep f t w
    | _ => w
  | _+1, _, w => w
end

theorem mapV_toList (g : TVal → TVal) : ∀ (xs : TVals), (mapV g xs).toList = xs.toList.map g
  | .nil => rfl
  | .cons x xs => by simp [mapV, TVals.toList, mapV_toList g xs]
theorem mapP_toList (g h : TVal → TVal) : ∀ (xs : TPairs), (mapP g h xs).toList = xs.toList.map (fun p => (g p.1, h p.2))
  | .nil => rfl
  | .cons k v xs => by simp [mapP, TPairs.toList, mapP_toList g h xs]

/-- `finish` of the reader over slots that hold, for every kept field present on the wire, its stripped value -/
theorem hasFields_finish_strip (d : Doc) (P : STy → TVal → Bool) (g : STy → TVal → TVal) (keep : Field → Bool) :
    ∀ (fs : List Field) (wfs : TFields) (slots : List (Int × TVal)),
    fs.Pairwise (fun a b => a.id ≠ b.id) → hasFields d P fs wfs = true →
    (∀ fl ∈ fs, keep fl = true → slotGet slots fl.id = (slotGet wfs.toList fl.id).map (g fl.ty)) →
    finish (fs.filter keep) slots = .ok (stripFields g keep fs wfs) := by
  intro fs
  induction fs with
  | nil => intro wfs slots _ h _; cases wfs <;> simp [hasFields, stripFields, finish] at h ⊢
  | cons fl fs ih =>
    intro wfs slots hpw h hs
    have hp := List.pairwise_cons.mp hpw
    cases wfs with
    | nil =>
      simp only [hasFields, Bool.and_eq_true, Bool.not_eq_true', Option.isNone_iff_eq_none] at h
      have ih' := ih .nil slots hp.2 h.2 (fun x hx hk => hs x (by simp [hx]) hk)
      have hsn : stripFields g keep fs .nil = [] := by cases fs <;> rfl
      rw [hsn] at ih'
      simp only [stripFields]
      by_cases hk : keep fl = true
      · have h1 := hs fl (by simp) hk
        simp only [TFields.toList, slotGet, List.find?_nil, Option.map_none] at h1
        have h1' : slotGet slots fl.id = none := h1
        simp only [List.filter_cons, hk, if_true, finish, ih', h1', h.1.1, h.1.2]
        simp
      · simp only [List.filter_cons, hk, Bool.false_eq_true, if_false]; exact ih'
    | cons id v r =>
      simp only [hasFields] at h
      by_cases hid : (fl.id == id) = true
      · have hid' : fl.id = id := beq_iff_eq.mp hid
        simp only [hid, if_true, Bool.and_eq_true] at h
        have ih' := ih r slots hp.2 h.2 (by
          intro x hx hk
          rw [hs x (by simp [hx]) hk]
          have hne : (id == x.id) = false := by
            simp only [beq_eq_false_iff_ne]; intro heq; exact hp.1 x hx (by rw [hid', heq])
          simp [TFields.toList, slotGet, List.find?_cons, hne])
        simp only [stripFields, hid, if_true]
        by_cases hk : keep fl = true
        · have h1 := hs fl (by simp) hk
          have : slotGet slots fl.id = some (g fl.ty v) := by
            rw [h1]; simp [TFields.toList, slotGet, List.find?_cons, hid']
          simp only [List.filter_cons, hk, if_true, finish, ih']
          rw [this]; simp [hid']
        · simp only [List.filter_cons, hk, Bool.false_eq_true, if_false]; exact ih'
      · simp only [hid, Bool.false_eq_true, if_false, Bool.and_eq_true, Bool.not_eq_true', Option.isNone_iff_eq_none] at h
        have ih' := ih (.cons id v r) slots hp.2 h.2 (fun x hx hk => hs x (by simp [hx]) hk)
        simp only [stripFields, hid, Bool.false_eq_true, if_false]
        by_cases hk : keep fl = true
        · have h1 := hs fl (by simp) hk
          have hnone : slotGet (TFields.cons id v r).toList fl.id = none := by
            apply slotGet_none_of_not_mem
            intro q hq heq
            obtain ⟨fl', hfl', hid', _⟩ := hasFields_mem d P fs _ h.2 q hq
            exact hp.1 fl' hfl' (by rw [hid', heq])
          rw [hnone] at h1
          simp only [Option.map_none] at h1
          simp only [List.filter_cons, hk, if_true, finish, ih', h1, h.1.1, h.1.2]
          simp
        · simp only [List.filter_cons, hk, Bool.false_eq_true, if_false]; exact ih'

end Pilota.TGen

namespace Pilota.TGen
open Pilota Pilota.Thrift

section
variable (d : Doc) (dp : Option Nat)

/-- the plain reader's field loop over entries each of which it either knows (and reads as `φ id`) or skips -/
theorem projFields_mixed (fs : List Field) (φ : Int → TVal) (F : Nat) : ∀ (es slots : List (Int × TVal)),
    (∀ p ∈ es, inS 2 p.1 ∧
      ((∃ fl, fs.find? (fun x => x.id == p.1 && d.ttype x.ty == p.2.ttype) = some fl ∧ projTy d dp F fl.ty p.2 = some (.ok (φ p.1))) ∨
       (fs.find? (fun x => x.id == p.1 && d.ttype x.ty == p.2.ttype) = none ∧ admitsB dp p.2.need = true))) →
    ∃ slots', projFields d dp (F + es.length + 1) fs slots (TFields.ofList es) = some (.ok slots') ∧
      ∀ id, slotGet slots' id =
        if es.any (fun p => (fs.find? (fun x => x.id == p.1 && d.ttype x.ty == p.2.ttype)).isSome && p.1 == id) then some (φ id) else slotGet slots id := by
  intro es
  induction es with
  | nil => intro slots _; exact ⟨slots, by simp [TFields.ofList, projFields], by simp⟩
  | cons p es ih =>
    intro slots hacc
    obtain ⟨id, v⟩ := p
    obtain ⟨hin, hcase⟩ := hacc (id, v) (by simp)
    have hlen : F + ((id, v) :: es).length + 1 = (F + es.length + 1) + 1 := by simp; omega
    rw [hlen]
    simp only [TFields.ofList]
    rw [projFields]
    simp only [hin, not_true_eq_false, if_false]
    simp only at hcase
    rcases hcase with ⟨fl, hfind, hproj⟩ | ⟨hfind, hadm⟩
    · rw [hfind]
      have hmono : projTy d dp (F + es.length + 1) fl.ty v = some (.ok (φ id)) := projTy_mono d dp F _ (by omega) fl.ty v _ hproj
      simp only [hmono]
      obtain ⟨slots', hrun, hget⟩ := ih (slotSet slots id (φ id)) (fun q hq => hacc q (by simp [hq]))
      refine ⟨slots', hrun, ?_⟩
      intro j
      rw [hget j, slotGet_slotSet]
      simp only [List.any_cons, hfind, Option.isSome_some, Bool.true_and]
      by_cases hj : id = j
      · subst hj; simp
      · have : (id == j) = false := by simpa using hj
        simp only [this, hj, if_false, Bool.false_or]
    · rw [hfind]
      simp only [hadm, if_true]
      obtain ⟨slots', hrun, hget⟩ := ih slots (fun q hq => hacc q (by simp [hq]))
      refine ⟨slots', hrun, ?_⟩
      intro j
      rw [hget j]
      simp only [List.any_cons, hfind, Option.isSome_none, Bool.false_and, Bool.false_or]

end

section
variable (dw : Doc) (keep : String → Field → Bool) (dpr : Option Nat)

/-- **a reader that lacks struct fields, plain decoder: the typed value without those fields** -/
theorem tolerant_strip_all (hd : dw.fieldsOk)
    (hv : ∀ n vs, dw.find n = some (.union vs) → ∀ x ∈ vs, keepVariant keep n x = true) :
    ∀ (f : Nat) (ty : STy) (w : TVal), hasTy dw f ty w = true → admitsB dpr w.need = true →
      Back (restrict dw keep) dpr ty (strip dw keep f ty w) w := by
  intro f
  induction f with
  | zero => intro ty w h; simp [hasTy] at h
  | succ f ih =>
    intro ty w h ha
    cases ty with
    | bool => cases w <;> simp [hasTy] at h; exact ⟨1, by simp [projTy, strip]⟩
    | i8 => cases w <;> simp [hasTy] at h; exact ⟨1, by simp [projTy, strip]⟩
    | i16 => cases w <;> simp [hasTy] at h; exact ⟨1, by simp [projTy, strip]⟩
    | i32 => cases w <;> simp [hasTy] at h; exact ⟨1, by simp [projTy, strip]⟩
    | i64 => cases w <;> simp [hasTy] at h; exact ⟨1, by simp [projTy, strip]⟩
    | double => cases w <;> simp [hasTy] at h; exact ⟨1, by simp [projTy, strip]⟩
    | string => cases w <;> simp [hasTy] at h; exact ⟨1, by simp [projTy, strip]⟩
    | binary => cases w <;> simp [hasTy] at h; exact ⟨1, by simp [projTy, strip]⟩
    | uuid => cases w <;> simp [hasTy] at h; exact ⟨1, by simp [projTy, strip]⟩
    | void => cases w <;> simp [hasTy] at h
    | list e =>
      cases w <;> (try (simp [hasTy] at h; done))
      rename_i t xs
      simp only [hasTy, Bool.and_eq_true, beq_iff_eq] at h
      have hall := (allV_iff _ xs).mp h.2
      simp only [TVal.need] at ha
      have hA : All2 (Back (restrict dw keep) dpr e) (xs.toList.map (strip dw keep f e)) xs.toList := by
        have : ∀ (l : List TVal), (∀ x ∈ l, Back (restrict dw keep) dpr e (strip dw keep f e x) x) →
            All2 (Back (restrict dw keep) dpr e) (l.map (strip dw keep f e)) l := by
          intro l; induction l with
          | nil => intro _; exact .nil
          | cons a l ihl => intro hl; exact .cons (hl a (by simp)) (ihl (fun x hx => hl x (by simp [hx])))
        exact this _ (fun x hx => ih e x (hall x hx) (admitsB_mono dpr _ _ (by have := TVals.need_mem xs x hx; omega) ha))
      obtain ⟨G, hG⟩ := projN_all2 (restrict dw keep) dpr e hA
      refine ⟨G + 1, ?_⟩
      have := hG []
      rw [TVals.ofList_toList] at this
      simp only [projTy, this, strip, restrict_ttype, h.1, List.reverse_nil, List.nil_append]
      rw [← mapV_toList, TVals.ofList_toList]
    | set e =>
      cases w <;> (try (simp [hasTy] at h; done))
      rename_i t xs
      simp only [hasTy, Bool.and_eq_true, beq_iff_eq] at h
      have hall := (allV_iff _ xs).mp h.1.2
      simp only [TVal.need] at ha
      have hA : All2 (Back (restrict dw keep) dpr e) (xs.toList.map (strip dw keep f e)) xs.toList := by
        have : ∀ (l : List TVal), (∀ x ∈ l, Back (restrict dw keep) dpr e (strip dw keep f e x) x) →
            All2 (Back (restrict dw keep) dpr e) (l.map (strip dw keep f e)) l := by
          intro l; induction l with
          | nil => intro _; exact .nil
          | cons a l ihl => intro hl; exact .cons (hl a (by simp)) (ihl (fun x hx => hl x (by simp [hx])))
        exact this _ (fun x hx => ih e x (hall x hx) (admitsB_mono dpr _ _ (by have := TVals.need_mem xs x hx; omega) ha))
      obtain ⟨G, hG⟩ := projN_all2 (restrict dw keep) dpr e hA
      refine ⟨G + 1, ?_⟩
      have := hG []
      rw [TVals.ofList_toList] at this
      simp only [projTy, this, strip, restrict_ttype, h.1.1, List.reverse_nil, List.nil_append, mapV_toList]
    | map k v =>
      cases w <;> (try (simp [hasTy] at h; done))
      rename_i kt vt kvs
      simp only [hasTy, Bool.and_eq_true, beq_iff_eq] at h
      have hall := (allP_iff _ _ kvs).mp h.1.2
      simp only [TVal.need] at ha
      have hA : All2 (fun x y => Back (restrict dw keep) dpr k x.1 y.1 ∧ Back (restrict dw keep) dpr v x.2 y.2)
          (kvs.toList.map (fun p => (strip dw keep f k p.1, strip dw keep f v p.2))) kvs.toList := by
        have : ∀ (l : List (TVal × TVal)),
            (∀ x ∈ l, Back (restrict dw keep) dpr k (strip dw keep f k x.1) x.1 ∧ Back (restrict dw keep) dpr v (strip dw keep f v x.2) x.2) →
            All2 (fun x y => Back (restrict dw keep) dpr k x.1 y.1 ∧ Back (restrict dw keep) dpr v x.2 y.2)
              (l.map (fun p => (strip dw keep f k p.1, strip dw keep f v p.2))) l := by
          intro l; induction l with
          | nil => intro _; exact .nil
          | cons a l ihl => intro hl; exact .cons (hl a (by simp)) (ihl (fun x hx => hl x (by simp [hx])))
        exact this _ (fun x hx =>
          ⟨ih k x.1 (hall x hx).1 (admitsB_mono dpr _ _ (by have := (TPairs.need_mem kvs x hx).1; omega) ha),
           ih v x.2 (hall x hx).2 (admitsB_mono dpr _ _ (by have := (TPairs.need_mem kvs x hx).2; omega) ha)⟩)
      obtain ⟨G, hG⟩ := projPairs_all2 (restrict dw keep) dpr k v hA
      refine ⟨G + 1, ?_⟩
      have := hG []
      rw [TPairs.ofList_toList] at this
      simp only [projTy, this, strip, restrict_ttype, h.1.1.1, h.1.1.2, List.reverse_nil, List.nil_append, mapP_toList]
    | ref n =>
      simp only [hasTy] at h
      cases hn : dw.find n with
      | none => simp [hn] at h
      | some df =>
        cases df with
        | struct fs0 =>
          simp only [hn] at h
          cases w <;> (try (simp at h; done))
          rename_i wfs
          simp only at h
          simp only [TVal.need] at ha
          have hpw := hd n fs0 hn
          have hnr : (restrict dw keep).find n = some (.struct (fs0.filter (keep n))) := by rw [restrict_find, hn]; rfl
          have hmem := hasFields_mem dw (hasTy dw f) fs0 wfs h
          have hnd := hasFields_nodup dw (hasTy dw f) fs0 wfs hpw h
          let φ : Int → TVal := fun id => match fs0.find? (fun x => x.id == id), slotGet wfs.toList id with
            | some fl, some v => strip dw keep f fl.ty v
            | _, _ => .bool false
          have hφ : ∀ p ∈ wfs.toList, ∀ fl ∈ fs0, fl.id = p.1 → φ p.1 = strip dw keep f fl.ty p.2 := by
            intro p hp fl hfl hid
            have h1 : fs0.find? (fun x => x.id == p.1) = some fl := by
              apply find_unique fs0 hpw fl hfl
              · simpa using hid
              · intro x hx; simp only [beq_iff_eq] at hx; rw [hx, hid]
            have h2 := slotGet_of_mem wfs.toList hnd p hp
            show (match fs0.find? (fun x => x.id == p.1), slotGet wfs.toList p.1 with
              | some fl, some v => strip dw keep f fl.ty v | _, _ => .bool false) = _
            rw [h1, h2]
          -- the reader's view of each wire field
          have hview : ∀ p ∈ wfs.toList, ∃ fl ∈ fs0, fl.id = p.1 ∧ dw.ttype fl.ty = p.2.ttype ∧
              (fs0.filter (keep n)).find? (fun x => x.id == p.1 && (restrict dw keep).ttype x.ty == p.2.ttype) = (if keep n fl then some fl else none) := by
            intro p hp
            obtain ⟨fl, hfl, hid, _, htt, _⟩ := hmem p hp
            refine ⟨fl, hfl, hid, htt, ?_⟩
            simp only [restrict_ttype, List.find?_filter]
            by_cases hk : keep n fl = true
            · simp only [hk, if_true]
              apply find_unique fs0 hpw fl hfl
              · simp only [decide_eq_true_eq, Bool.and_eq_true, beq_iff_eq]; exact ⟨hk, hid, htt⟩
              · intro x hx; simp only [decide_eq_true_eq, Bool.and_eq_true, beq_iff_eq] at hx; rw [hx.2.1, hid]
            · simp only [hk, Bool.false_eq_true, if_false]
              rw [List.find?_eq_none]
              intro x hx hq
              simp only [decide_eq_true_eq, Bool.and_eq_true, beq_iff_eq] at hq
              have : x = fl := same_field fs0 hpw x fl hx hfl (by rw [hq.2.1, hid])
              rw [this] at hq; exact hk hq.1
          let Q : (Int × TVal) → Nat → Prop := fun p G => inS 2 p.1 ∧
            ((∃ fl, (fs0.filter (keep n)).find? (fun x => x.id == p.1 && (restrict dw keep).ttype x.ty == p.2.ttype) = some fl ∧
                projTy (restrict dw keep) dpr G fl.ty p.2 = some (.ok (φ p.1))) ∨
             ((fs0.filter (keep n)).find? (fun x => x.id == p.1 && (restrict dw keep).ttype x.ty == p.2.ttype) = none ∧ admitsB dpr p.2.need = true))
          have hQ : ∀ p ∈ wfs.toList, ∃ G, Q p G := by
            intro p hp
            obtain ⟨fl, hfl, hid, htt, hfind⟩ := hview p hp
            obtain ⟨_, _, _, hin, _, hty⟩ := hmem p hp
            have hneed : admitsB dpr p.2.need = true := admitsB_mono dpr _ _ (by have := TFields.need_mem wfs p hp; omega) ha
            by_cases hk : keep n fl = true
            · simp only [hk, if_true] at hfind
              obtain ⟨fl', hfl', hid', _, _, hty'⟩ := hmem p hp
              have hsame : fl' = fl := same_field fs0 hpw fl' fl hfl' hfl (by rw [hid, hid'])
              rw [hsame] at hty'
              obtain ⟨G, hG⟩ := ih fl.ty p.2 hty' hneed
              exact ⟨G, hin, .inl ⟨fl, hfind, by rw [hφ p hp fl hfl hid]; exact hG⟩⟩
            · simp only [hk, Bool.false_eq_true, if_false] at hfind
              exact ⟨0, hin, .inr ⟨hfind, hneed⟩⟩
          obtain ⟨F, hF⟩ := uniform_fuel Q (by
            intro p a b hab hq
            obtain ⟨hin, hc⟩ := hq
            refine ⟨hin, ?_⟩
            rcases hc with ⟨fl, h1, h2⟩ | hc
            · exact .inl ⟨fl, h1, projTy_mono _ dpr a b hab _ _ _ h2⟩
            · exact .inr hc) wfs.toList hQ
          obtain ⟨slots', hrun, hget⟩ := projFields_mixed (restrict dw keep) dpr (fs0.filter (keep n)) φ F wfs.toList [] hF
          rw [TFields.ofList_toList] at hrun
          have hfin : finish (fs0.filter (keep n)) slots' = .ok (stripFields (strip dw keep f) (keep n) fs0 wfs) := by
            apply hasFields_finish_strip dw (hasTy dw f) (strip dw keep f) (keep n) fs0 wfs slots' hpw h
            intro fl hfl hk
            rw [hget fl.id]
            by_cases hon : ∃ p ∈ wfs.toList, p.1 = fl.id
            · obtain ⟨p, hp, hpid⟩ := hon
              obtain ⟨fl', hfl', hid', _, hfind⟩ := hview p hp
              have hsame : fl' = fl := same_field fs0 hpw fl' fl hfl' hfl (by rw [hid', hpid])
              rw [hsame, hk] at hfind
              simp only [if_true] at hfind
              have hany : wfs.toList.any (fun p => ((fs0.filter (keep n)).find? (fun x => x.id == p.1 && (restrict dw keep).ttype x.ty == p.2.ttype)).isSome && p.1 == fl.id) = true :=
                List.any_eq_true.mpr ⟨p, hp, by simp only [hfind, Option.isSome_some, Bool.true_and, beq_iff_eq]; exact hpid⟩
              simp only [hany, if_true]
              have := slotGet_of_mem wfs.toList hnd p hp
              rw [hpid] at this
              rw [this, Option.map_some, ← hpid, hφ p hp fl hfl hpid.symm]
            · have hany : wfs.toList.any (fun p => ((fs0.filter (keep n)).find? (fun x => x.id == p.1 && (restrict dw keep).ttype x.ty == p.2.ttype)).isSome && p.1 == fl.id) = false := by
                cases hc : wfs.toList.any (fun p => ((fs0.filter (keep n)).find? (fun x => x.id == p.1 && (restrict dw keep).ttype x.ty == p.2.ttype)).isSome && p.1 == fl.id) with
                | false => rfl
                | true =>
                  obtain ⟨p, hp, hpp⟩ := List.any_eq_true.mp hc
                  simp only [Bool.and_eq_true, beq_iff_eq] at hpp
                  exact absurd ⟨p, hp, hpp.2⟩ hon
              simp only [hany, Bool.false_eq_true, if_false]
              have hnone : slotGet wfs.toList fl.id = none := slotGet_none_of_not_mem _ _ (fun q hq heq => hon ⟨q, hq, heq⟩)
              rw [hnone]; simp [slotGet]
          refine ⟨F + wfs.toList.length + 1 + 1, ?_⟩
          simp only [projTy, hnr, hrun, hfin, strip, hn]
        | union vs =>
          simp only [hn] at h
          cases w <;> (try (simp at h; done))
          rename_i wfs
          have hfilt : vs.filter (keepVariant keep n) = vs := List.filter_eq_self.mpr (fun x hx => hv n vs hn x hx)
          have hnr : (restrict dw keep).find n = some (.union vs) := by rw [restrict_find, hn]; simp [restrictDef, hfilt]
          cases wfs with
          | nil =>
            cases vs with
            | nil => simp at h
            | cons hd' tl =>
              obtain ⟨i, t⟩ := hd'
              cases t <;> simp at h
              exact ⟨2, by simp [projTy, hnr, projUnion, strip, hn]⟩
          | cons id v r =>
            cases r with
            | cons => simp at h
            | nil =>
              simp only at h
              cases hfind : vs.find? (fun x => x.1 == id && !(x.2 == .void)) with
              | none => simp [hfind] at h
              | some p =>
                obtain ⟨pid, ty⟩ := p
                simp only [hfind, Bool.and_eq_true, decide_eq_true_eq, beq_iff_eq] at h
                simp only [TVal.need, TFields.need] at ha
                obtain ⟨G, hG⟩ := ih ty v h.2 (admitsB_mono dpr _ _ (by omega) ha)
                refine ⟨G + 1 + 1 + 1, ?_⟩
                have hG' := projTy_mono _ dpr G (G + 1) (by omega) ty v _ hG
                simp only [projTy, hnr, projUnion, h.1.1, not_true_eq_false, if_false, hfind, Option.isSome_none, Bool.false_eq_true,
                  restrict_ttype, h.1.2, bne_self_eq_false, hG', strip, hn]
        | enum =>
          simp only [hn] at h
          cases w <;> (try (simp at h; done))
          have hnr : (restrict dw keep).find n = some .enum := by rw [restrict_find, hn]; rfl
          exact ⟨1, by simp [projTy, hnr, strip, hn]⟩
        | typedef t =>
          simp only [hn] at h
          have hnr : (restrict dw keep).find n = some (.typedef t) := by rw [restrict_find, hn]; rfl
          obtain ⟨G, hG⟩ := ih t w h ha
          exact ⟨G + 1, by simp [projTy, hnr, strip, hn, hG]⟩

end
end Pilota.TGen

namespace Pilota.TGen
open Pilota Pilota.Thrift

theorem strip_ttype (d : Doc) (keep : String → Field → Bool) : ∀ (f : Nat) (ty : STy) (w : TVal), (strip d keep f ty w).ttype = w.ttype := by
  intro f
  induction f with
  | zero => intro ty w; rfl
  | succ f ih =>
    intro ty w
    cases ty with
    | list e => cases w <;> simp [strip, TVal.ttype]
    | set e => cases w <;> simp [strip, TVal.ttype]
    | map k v => cases w <;> simp [strip, TVal.ttype]
    | ref n =>
      simp only [strip]
      cases hn : d.find n with
      | none => rfl
      | some df =>
        cases df with
        | struct fs => cases w <;> simp [TVal.ttype]
        | union vs =>
          cases w <;> simp only [] <;> try rfl
          rename_i wfs
          cases wfs with
          | nil => rfl
          | cons id v r =>
            cases r with
            | cons => rfl
            | nil => simp only []; split <;> rfl
        | enum => rfl
        | typedef t => simp only []; exact ih t w
    | _ => cases w <;> rfl

theorem stripFields_ids (g : STy → TVal → TVal) (keep : Field → Bool) : ∀ (fs : List Field) (wfs : TFields),
    ∀ p ∈ stripFields g keep fs wfs, ∃ fl ∈ fs, fl.id = p.1 := by
  intro fs
  induction fs with
  | nil => intro wfs p hp; simp [stripFields] at hp
  | cons fl fs ih =>
    intro wfs p hp
    cases wfs with
    | nil => simp [stripFields] at hp
    | cons id v r =>
      simp only [stripFields] at hp
      split at hp
      · rename_i hid
        split at hp
        · rcases List.mem_cons.mp hp with rfl | hp
          · exact ⟨fl, by simp, by simpa using hid⟩
          · obtain ⟨x, hx, hxp⟩ := ih r p hp; exact ⟨x, by simp [hx], hxp⟩
        · obtain ⟨x, hx, hxp⟩ := ih r p hp; exact ⟨x, by simp [hx], hxp⟩
      · obtain ⟨x, hx, hxp⟩ := ih _ p hp; exact ⟨x, by simp [hx], hxp⟩

/-- the kept fields of a typed wire struct form a typed struct of the reader's field list -/
theorem hasFields_strip (d d' : Doc) (P P' : STy → TVal → Bool) (g : STy → TVal → TVal) (keep : Field → Bool)
    (htt : ∀ t, d'.ttype t = d.ttype t) (hg : ∀ t x, (g t x).ttype = x.ttype) (hP : ∀ t x, P t x = true → P' t (g t x) = true) :
    ∀ (fs : List Field) (wfs : TFields), fs.Pairwise (fun a b => a.id ≠ b.id) → hasFields d P fs wfs = true →
      hasFields d' P' (fs.filter keep) (TFields.ofList (stripFields g keep fs wfs)) = true := by
  intro fs
  induction fs with
  | nil => intro wfs _ h; cases wfs <;> simp [hasFields, stripFields, TFields.ofList] at h ⊢
  | cons fl fs ih =>
    intro wfs hpw h
    have hp := List.pairwise_cons.mp hpw
    cases wfs with
    | nil =>
      simp only [hasFields, Bool.and_eq_true] at h
      have ih' := ih .nil hp.2 h.2
      have hsn : stripFields g keep fs .nil = [] := by cases fs <;> rfl
      rw [hsn] at ih'
      simp only [stripFields, TFields.ofList]
      by_cases hk : keep fl = true
      · simp only [List.filter_cons, hk, if_true, hasFields, Bool.and_eq_true]; exact ⟨h.1, ih'⟩
      · simp only [List.filter_cons, hk, Bool.false_eq_true, if_false]; exact ih'
    | cons id v r =>
      simp only [hasFields] at h
      by_cases hid : (fl.id == id) = true
      · simp only [hid, if_true, Bool.and_eq_true, decide_eq_true_eq, beq_iff_eq] at h
        have ih' := ih r hp.2 h.2
        simp only [stripFields, hid, if_true]
        by_cases hk : keep fl = true
        · simp only [List.filter_cons, hk, if_true, TFields.ofList, hasFields, hid, Bool.and_eq_true, decide_eq_true_eq, beq_iff_eq]
          exact ⟨⟨⟨h.1.1.1, by rw [htt, hg]; exact h.1.1.2⟩, hP _ _ h.1.2⟩, ih'⟩
        · simp only [List.filter_cons, hk, Bool.false_eq_true, if_false]; exact ih'
      · simp only [hid, Bool.false_eq_true, if_false, Bool.and_eq_true] at h
        have ih' := ih (.cons id v r) hp.2 h.2
        simp only [stripFields, hid, Bool.false_eq_true, if_false]
        by_cases hk : keep fl = true
        · simp only [List.filter_cons, hk, if_true]
          -- the reader's first field is absent from the stripped struct: its id differs from every entry's
          cases hs : stripFields g keep fs (.cons id v r) with
          | nil => rw [hs] at ih'; simp only [TFields.ofList] at ih' ⊢; simp only [hasFields, Bool.and_eq_true]; exact ⟨h.1, ih'⟩
          | cons p rest =>
            rw [hs] at ih'
            obtain ⟨i, x⟩ := p
            simp only [TFields.ofList] at ih' ⊢
            obtain ⟨y, hy, hyi⟩ := stripFields_ids g keep fs (.cons id v r) (i, x) (by rw [hs]; simp)
            have hne : (fl.id == i) = false := by
              simp only [beq_eq_false_iff_ne]; intro heq; exact hp.1 y hy (by rw [hyi, heq])
            simp only [hasFields, hne, Bool.false_eq_true, if_false, Bool.and_eq_true]
            exact ⟨h.1, ih'⟩
        · simp only [List.filter_cons, hk, Bool.false_eq_true, if_false]; exact ih'

end Pilota.TGen

namespace Pilota.TGen
open Pilota Pilota.Thrift

section
variable (dw : Doc) (keep : String → Field → Bool)

/-- … and what the reader returns is a typed value of the READER's document -/
theorem strip_typed_all (hd : dw.fieldsOk)
    (hv : ∀ n vs, dw.find n = some (.union vs) → ∀ x ∈ vs, keepVariant keep n x = true) :
    ∀ (f : Nat) (ty : STy) (w : TVal), hasTy dw f ty w = true → hasTy (restrict dw keep) f ty (strip dw keep f ty w) = true := by
  intro f
  induction f with
  | zero => intro ty w h; simp [hasTy] at h
  | succ f ih =>
    intro ty w h
    cases ty with
    | list e =>
      cases w <;> (try (simp [hasTy] at h; done))
      rename_i t xs
      simp only [hasTy, Bool.and_eq_true, beq_iff_eq] at h
      have hall := (allV_iff _ xs).mp h.2
      simp only [strip, hasTy, Bool.and_eq_true, beq_iff_eq, restrict_ttype]
      refine ⟨h.1, (allV_iff _ _).mpr ?_⟩
      rw [mapV_toList]
      intro y hy
      obtain ⟨x, hx, rfl⟩ := List.mem_map.mp hy
      exact ih e x (hall x hx)
    | set e =>
      cases w <;> (try (simp [hasTy] at h; done))
      rename_i t xs
      simp only [hasTy, Bool.and_eq_true, beq_iff_eq] at h
      have hall := (allV_iff _ xs).mp h.1.2
      simp only [strip, hasTy, Bool.and_eq_true, beq_iff_eq, restrict_ttype, mapV_toList, TVals.toList_ofList]
      obtain ⟨hsub, _⟩ := foldl_setInsert_sub (xs.toList.map (strip dw keep f e)) []
      refine ⟨⟨h.1.1, (allV_iff _ _).mpr ?_⟩, (distinctL_iff _).mpr (foldl_setInsert_nodup_acc _ [] (by simp))⟩
      rw [TVals.toList_ofList]
      intro y hy
      rcases hsub y hy with h0 | h0
      · cases h0
      · obtain ⟨x, hx, rfl⟩ := List.mem_map.mp h0
        exact ih e x (hall x hx)
    | map k v =>
      cases w <;> (try (simp [hasTy] at h; done))
      rename_i kt vt kvs
      simp only [hasTy, Bool.and_eq_true, beq_iff_eq] at h
      have hall := (allP_iff _ _ kvs).mp h.1.2
      simp only [strip, hasTy, Bool.and_eq_true, beq_iff_eq, restrict_ttype, mapP_toList, TPairs.toList_ofList]
      obtain ⟨hsub, _⟩ := foldl_mapInsert_sub (kvs.toList.map (fun p => (strip dw keep f k p.1, strip dw keep f v p.2))) []
      refine ⟨⟨⟨h.1.1.1, h.1.1.2⟩, (allP_iff _ _ _).mpr ?_⟩, (distinctL_iff _).mpr (foldl_mapInsert_keys_nodup _ [] (by simp))⟩
      rw [TPairs.toList_ofList]
      intro p hp
      obtain ⟨h1, h2⟩ := hsub p hp
      constructor
      · rcases h1 with h0 | h0
        · simp at h0
        · obtain ⟨q, hq, hqp⟩ := List.mem_map.mp h0
          obtain ⟨x, hx, rfl⟩ := List.mem_map.mp hq
          rw [← hqp]; exact ih k x.1 (hall x hx).1
      · rcases h2 with h0 | h0
        · simp at h0
        · obtain ⟨q, hq, hqp⟩ := List.mem_map.mp h0
          obtain ⟨x, hx, rfl⟩ := List.mem_map.mp hq
          rw [← hqp]; exact ih v x.2 (hall x hx).2
    | ref n =>
      simp only [hasTy] at h
      cases hn : dw.find n with
      | none => simp [hn] at h
      | some df =>
        cases df with
        | struct fs0 =>
          simp only [hn] at h
          cases w <;> (try (simp at h; done))
          rename_i wfs
          simp only at h
          have hnr : (restrict dw keep).find n = some (.struct (fs0.filter (keep n))) := by rw [restrict_find, hn]; rfl
          simp only [strip, hn, hasTy, hnr]
          exact hasFields_strip dw (restrict dw keep) (hasTy dw f) (hasTy (restrict dw keep) f) (strip dw keep f) (keep n)
            (restrict_ttype dw keep) (strip_ttype dw keep f) (fun t x hx => ih t x hx) fs0 wfs (hd n fs0 hn) h
        | union vs =>
          simp only [hn] at h
          cases w <;> (try (simp at h; done))
          rename_i wfs
          have hfilt : vs.filter (keepVariant keep n) = vs := List.filter_eq_self.mpr (fun x hx => hv n vs hn x hx)
          have hnr : (restrict dw keep).find n = some (.union vs) := by rw [restrict_find, hn]; simp [restrictDef, hfilt]
          cases wfs with
          | nil => simp only [strip, hn, hasTy, hnr]; exact h
          | cons id v r =>
            cases r with
            | cons => simp at h
            | nil =>
              simp only at h
              cases hfind : vs.find? (fun x => x.1 == id && !(x.2 == .void)) with
              | none => simp [hfind] at h
              | some p =>
                obtain ⟨pid, ty⟩ := p
                simp only [hfind, Bool.and_eq_true, decide_eq_true_eq, beq_iff_eq] at h
                simp only [strip, hn, hfind, hasTy, hnr, Bool.and_eq_true, decide_eq_true_eq, beq_iff_eq, restrict_ttype, strip_ttype]
                exact ⟨⟨h.1.1, h.1.2⟩, ih ty v h.2⟩
        | enum =>
          simp only [hn] at h
          cases w <;> (try (simp at h; done))
          have hnr : (restrict dw keep).find n = some .enum := by rw [restrict_find, hn]; rfl
          simp [strip, hn, hasTy, hnr]
        | typedef t =>
          simp only [hn] at h
          have hnr : (restrict dw keep).find n = some (.typedef t) := by rw [restrict_find, hn]; rfl
          simp only [strip, hn, hasTy, hnr]
          exact ih t w h
    | void => cases w <;> simp [hasTy] at h
    | _ => cases w <;> simp_all [hasTy, strip]

end
end Pilota.TGen
