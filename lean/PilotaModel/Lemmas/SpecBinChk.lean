import PilotaModel.Lemmas.SpecBin
/-  The executable membership test of the binary relation is sound. -/
namespace Pilota.Thrift.SpecBin
open Pilota Pilota.Thrift Pilota.Thrift.Spec

theorem stripPrefix_some (p bs r : Bytes) (h : stripPrefix p bs = some r) : bs = p ++ r := by
  induction p generalizing bs with
  | nil => simp [stripPrefix] at h; simp [h]
  | cons x xs ih =>
    cases bs with
    | nil => simp [stripPrefix] at h
    | cons b bs =>
      simp only [stripPrefix] at h
      split at h
      · rename_i hx; rw [hx, ih bs h]; simp
      · cases h

theorem bind_some {α β} (o : Option α) (f : α → Option β) (b : β) (h : o.bind f = some b) : ∃ a, o = some a ∧ f a = some b := by
  cases o with
  | none => simp at h
  | some a => exact ⟨a, rfl, by simpa using h⟩

mutual
theorem chk_sound (v : TVal) (bs r : Bytes) (h : chk v bs = some r) : ∃ a, bs = a ++ r ∧ Enc v a := by
  cases v with
  | bool b =>
    cases bs with
    | nil => simp [chk] at h
    | cons x rest =>
      simp only [chk] at h
      split at h
      · rename_i hc
        simp only [Option.some.injEq] at h; subst h
        cases b with
        | true => simp at hc; exact ⟨[x], rfl, Enc.boolT x hc⟩
        | false => simp at hc; subst hc; exact ⟨[0], rfl, Enc.boolF⟩
      · cases h
  | i8 n => simp only [chk] at h; split at h
            · rename_i hn; exact ⟨_, stripPrefix_some _ _ _ h, Enc.i8 n hn⟩
            · cases h
  | i16 n => simp only [chk] at h; split at h
             · rename_i hn; exact ⟨_, stripPrefix_some _ _ _ h, Enc.i16 n hn⟩
             · cases h
  | i32 n => simp only [chk] at h; split at h
             · rename_i hn; exact ⟨_, stripPrefix_some _ _ _ h, Enc.i32 n hn⟩
             · cases h
  | i64 n => simp only [chk] at h; split at h
             · rename_i hn; exact ⟨_, stripPrefix_some _ _ _ h, Enc.i64 n hn⟩
             · cases h
  | dbl b => simp only [chk] at h; split at h
             · rename_i hn; exact ⟨_, stripPrefix_some _ _ _ h, Enc.dbl b hn⟩
             · cases h
  | bin p => simp only [chk] at h; split at h
             · rename_i hn; exact ⟨_, stripPrefix_some _ _ _ h, Enc.bin p hn⟩
             · cases h
  | uuid p => simp only [chk] at h; split at h
              · rename_i hn; exact ⟨_, stripPrefix_some _ _ _ h, Enc.uuid p hn⟩
              · cases h
  | struct fs =>
    simp only [chk] at h
    obtain ⟨a, ha, he⟩ := chkFields_sound fs bs r h
    exact ⟨a, ha, Enc.struct fs a he⟩
  | list et xs =>
    simp only [chk] at h
    cases hc : binCode et with
    | none => simp [hc] at h
    | some c =>
      simp only [hc] at h
      split at h
      · rename_i hl
        obtain ⟨r1, h1, h2⟩ := bind_some _ _ _ h
        obtain ⟨a, ha, he⟩ := chkVals_sound et xs r1 r h2
        refine ⟨UInt8.ofNat c :: (be 4 xs.length ++ a), ?_, Enc.list et c xs a hc hl he⟩
        rw [stripPrefix_some _ _ _ h1, ha]; simp
      · cases h
  | set et xs =>
    simp only [chk] at h
    cases hc : binCode et with
    | none => simp [hc] at h
    | some c =>
      simp only [hc] at h
      split at h
      · rename_i hl
        obtain ⟨r1, h1, h2⟩ := bind_some _ _ _ h
        obtain ⟨a, ha, he⟩ := chkVals_sound et xs r1 r h2
        refine ⟨UInt8.ofNat c :: (be 4 xs.length ++ a), ?_, Enc.set et c xs a hc hl he⟩
        rw [stripPrefix_some _ _ _ h1, ha]; simp
      · cases h
  | map kt vt kvs =>
    simp only [chk] at h
    cases hk : binCode kt with
    | none => simp [hk] at h
    | some ck =>
      cases hv : binCode vt with
      | none => simp [hk, hv] at h
      | some cv =>
        simp only [hk, hv] at h
        split at h
        · rename_i hl
          obtain ⟨r1, h1, h2⟩ := bind_some _ _ _ h
          obtain ⟨a, ha, he⟩ := chkPairs_sound kt vt kvs r1 r h2
          refine ⟨UInt8.ofNat ck :: UInt8.ofNat cv :: (be 4 kvs.length ++ a), ?_, Enc.map kt vt ck cv kvs a hk hv hl he⟩
          rw [stripPrefix_some _ _ _ h1, ha]; simp
        · cases h
theorem chkVals_sound (et : TType) (xs : TVals) (bs r : Bytes) (h : chkVals et xs bs = some r) : ∃ a, bs = a ++ r ∧ EncVals et xs a := by
  cases xs with
  | nil => simp only [chkVals, Option.some.injEq] at h; exact ⟨[], by simp [h], EncVals.nil et⟩
  | cons v vs =>
    simp only [chkVals] at h
    split at h
    · rename_i ht
      obtain ⟨r1, h1, h2⟩ := bind_some _ _ _ h
      obtain ⟨a, ha, he⟩ := chk_sound v bs r1 h1
      obtain ⟨b, hb, hr⟩ := chkVals_sound et vs r1 r h2
      exact ⟨a ++ b, by rw [ha, hb]; simp, EncVals.cons et v vs a b ht he hr⟩
    · cases h
theorem chkFields_sound (fs : TFields) (bs r : Bytes) (h : chkFields fs bs = some r) : ∃ a, bs = a ++ r ∧ EncFields fs a := by
  cases fs with
  | nil => simp only [chkFields] at h; exact ⟨[0], stripPrefix_some _ _ _ h, EncFields.nil⟩
  | cons id v rest =>
    simp only [chkFields] at h
    cases hc : binCode v.ttype with
    | none => simp [hc] at h
    | some c =>
      simp only [hc] at h
      split at h
      · rename_i hid
        obtain ⟨r2, h12, h3⟩ := bind_some _ _ _ h
        obtain ⟨r1, h1, h2⟩ := bind_some _ _ _ h12
        obtain ⟨a, ha, he⟩ := chk_sound v r1 r2 h2
        obtain ⟨b, hb, hr⟩ := chkFields_sound rest r2 r h3
        refine ⟨UInt8.ofNat c :: (be 2 (twos 2 id) ++ (a ++ b)), ?_, EncFields.cons id v rest c a b hid hc he hr⟩
        rw [stripPrefix_some _ _ _ h1, ha, hb]; simp
      · cases h
theorem chkPairs_sound (kt vt : TType) (kvs : TPairs) (bs r : Bytes) (h : chkPairs kt vt kvs bs = some r) :
    ∃ a, bs = a ++ r ∧ EncPairs kt vt kvs a := by
  cases kvs with
  | nil => simp only [chkPairs, Option.some.injEq] at h; exact ⟨[], by simp [h], EncPairs.nil kt vt⟩
  | cons k v rest =>
    simp only [chkPairs] at h
    split at h
    · rename_i ht
      obtain ⟨r2, h12, h3⟩ := bind_some _ _ _ h
      obtain ⟨r1, h1, h2⟩ := bind_some _ _ _ h12
      obtain ⟨a, ha, he⟩ := chk_sound k bs r1 h1
      obtain ⟨b, hb, he2⟩ := chk_sound v r1 r2 h2
      obtain ⟨c, hc, hr⟩ := chkPairs_sound kt vt rest r2 r h3
      exact ⟨a ++ (b ++ c), by rw [ha, hb, hc]; simp, EncPairs.cons kt vt k v rest a b c ht.1 ht.2 he he2 hr⟩
    · cases h
end

/-- the checker accepts only legal encodings. -/
theorem check_sound (v : TVal) (bs : Bytes) (h : check v bs = true) : Enc v bs := by
  unfold check at h
  have h' : chk v bs = some [] := by simpa using h
  obtain ⟨a, ha, he⟩ := chk_sound v bs [] h'
  simp at ha; subst ha; exact he

end Pilota.Thrift.SpecBin
