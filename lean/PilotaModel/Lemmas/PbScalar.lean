import PilotaModel.Lemmas.PbVarint
import PilotaModel.Proto.Scalar
/-
  Keys and scalar codec modules: round trip, exact consumption, encoded_len = bytes written.
-/
namespace Pilota.Proto
open Pilota

theorem e32 : (2:Nat) ^ 32 = 4294967296 := by decide
theorem e64 : (2:Nat) ^ 64 = 18446744073709551616 := by decide
theorem e29 : (2:Nat) ^ 29 = 536870912 := by decide
theorem p4 : (256:Nat) ^ 4 = 4294967296 := by decide
theorem p8 : (256:Nat) ^ 8 = 18446744073709551616 := by decide

/-! ### keys -/

theorem WireType.code_lt (wt : WireType) : wt.code < 6 := by cases wt <;> decide
theorem WireType.ofCode_code (wt : WireType) : WireType.ofCode wt.code = some wt := by cases wt <;> rfl

theorem key_lt (tag : Nat) (wt : WireType) (h : tag ≤ maxTag) : tag * 8 + wt.code < 2 ^ 32 := by
  have := wt.code_lt
  unfold maxTag at h; rw [e29] at h; rw [e32]; omega

theorem decodeKey_keyBytes (tag : Nat) (wt : WireType) (h1 : minTag ≤ tag) (h2 : tag ≤ maxTag) (r : Bytes) :
    decodeKey (keyBytes tag wt ++ r) = .ok ((tag, wt), r) := by
  have hk := key_lt tag wt h2
  have hc := wt.code_lt
  unfold decodeKey keyBytes
  rw [decodeVarint_encode _ (Nat.lt_trans hk (by decide)) r]
  have h3 : ¬ tag * 8 + wt.code > 2 ^ 32 - 1 := by omega
  have h4 : (tag * 8 + wt.code) % 8 = wt.code := by omega
  have h5 : (tag * 8 + wt.code) / 8 = tag := by omega
  simp only [h3, if_false, h4, WireType.ofCode_code, h5]
  have : ¬ tag < minTag := by omega
  simp [this]

theorem encodeKey_ok (tag : Nat) (wt : WireType) (h1 : minTag ≤ tag) (h2 : tag ≤ maxTag) :
    encodeKey tag wt = .ok (keyBytes tag wt) := by
  simp [encodeKey, keyBytes, h1, h2]

theorem log2_key (t c : Nat) (ht : 1 ≤ t) (hc : c < 8) : Nat.log2 (t * 8 + c) = Nat.log2 t + 3 := by
  have ht0 : t ≠ 0 := by omega
  have h0 : t * 8 + c ≠ 0 := by omega
  apply Nat.le_antisymm
  · have : Nat.log2 (t * 8 + c) < Nat.log2 t + 3 + 1 := by
      rw [Nat.log2_lt h0]
      have := @Nat.lt_log2_self t
      have e : 2 ^ (t.log2 + 3 + 1) = 2 ^ (t.log2 + 1) * 8 := by
        rw [show t.log2 + 3 + 1 = t.log2 + 1 + 3 by omega, Nat.pow_add 2 (t.log2 + 1) 3]
      rw [e]; omega
    omega
  · have : ¬ Nat.log2 (t * 8 + c) < Nat.log2 t + 3 := by
      rw [Nat.log2_lt h0]
      have := @Nat.log2_self_le t ht0
      have e : 2 ^ (t.log2 + 3) = 2 ^ t.log2 * 8 := by rw [Nat.pow_add]
      rw [e]; omega
    omega

theorem keyLen_eq (tag : Nat) (wt : WireType) (h1 : minTag ≤ tag) (h2 : tag ≤ maxTag) :
    keyLen tag = (keyBytes tag wt).length := by
  have hk := key_lt tag wt h2
  have hk0 := key_lt tag .varint h2
  have hc := wt.code_lt
  unfold keyLen keyBytes encodeVarint
  have hm : tag * 8 % 2 ^ 32 = tag * 8 := Nat.mod_eq_of_lt (by simp [WireType.code] at hk0; exact hk0)
  rw [hm, encVar_length, encodedLenVarint_eq _ (by rw [e64]; rw [e32] at hk; omega)]
  unfold minTag at h1
  rw [varLen_eq_log _ (by omega), varLen_eq_log _ (by omega)]
  have a := log2_key tag 0 h1 (by omega)
  have b := log2_key tag wt.code h1 (by omega)
  simp only [Nat.add_zero] at a
  rw [a, b]

/-! ### integer conversions of the varint modules -/

theorem toS4_toU8 (n : Int) (h : inS 4 n) : toS 4 (toU 8 n) = n := by
  unfold toS toU inS at *
  rw [p4] at *; rw [p8]
  omega

theorem toS8_toU8 (n : Int) (h : inS 8 n) : toS 8 (toU 8 n) = n := toS_toU 8 (by decide) n h

theorem toS4_toU4 (n : Int) (h : inS 4 n) : toS 4 (toU 4 n) = n := toS_toU 4 (by decide) n h

theorem toU8_lt (n : Int) : toU 8 n < 2 ^ 64 := by have := toU_lt 8 n; rw [p8] at this; rw [e64]; exact this
theorem toU4_lt (n : Int) : toU 4 n < 2 ^ 32 := by have := toU_lt 4 n; rw [p4] at this; rw [e32]; exact this

theorem toU4_nonneg (n : Int) (h0 : 0 ≤ n) (h : n < 2 ^ 32) : ((toU 4 n : Nat) : Int) = n := by
  unfold toU; rw [p4]
  have : (2:Int) ^ 32 = 4294967296 := by decide
  rw [this] at h
  omega

theorem toU8_nonneg (n : Int) (h0 : 0 ≤ n) (h : n < 2 ^ 64) : ((toU 8 n : Nat) : Int) = n := by
  unfold toU; rw [p8]
  have : (2:Int) ^ 64 = 18446744073709551616 := by decide
  rw [this] at h
  omega

theorem zigzag4_lt (n : Int) (h : inS 4 n) : zigzag n < 2 ^ 32 := by
  have := zigzag_lt 4 (by decide) n h; rw [p4] at this; rw [e32]; exact this
theorem zigzag8_lt (n : Int) (h : inS 8 n) : zigzag n < 2 ^ 64 := by
  have := zigzag_lt 8 (by decide) n h; rw [p8] at this; rw [e64]; exact this

namespace Codec

/-- every varint module sends a `u64` to `encode_varint`. -/
theorem toU64_lt (c : Codec) (v : SVal) : c.toU64 v < 2 ^ 64 := by
  cases c <;> simp only [toU64]
  case bool => split <;> decide
  case int32 => exact toU8_lt _
  case int64 => exact toU8_lt _
  case uint32 => exact Nat.lt_trans (toU4_lt _) (by decide)
  case uint64 => exact toU8_lt _
  case sint32 => exact Nat.lt_trans (Nat.mod_lt _ (by decide)) (by decide)
  case sint64 => exact Nat.mod_lt _ (by decide)
  all_goals decide

/-- `from_uint64 (to_uint64 v) = v` on the values the Rust type holds. -/
theorem fromU64_toU64 (c : Codec) (v : SVal) (hs : c.shape = .varint) (hv : c.ok v = true) : c.fromU64 (c.toU64 v) = v := by
  cases c <;> simp [shape] at hs <;> cases v <;> simp [ok] at hv <;> simp only [toU64, fromU64, SVal.asInt, SVal.asBool]
  case bool.bool b => cases b <;> rfl
  case int32.int n => rw [toS4_toU8 n hv]
  case int64.int n => rw [toS8_toU8 n hv]
  case uint32.int n =>
    have := toU4_lt n
    rw [Nat.mod_eq_of_lt this, toU4_nonneg n hv.1 hv.2]
  case uint64.int n =>
    have := toU8_lt n
    rw [Nat.mod_eq_of_lt this, toU8_nonneg n hv.1 hv.2]
  case sint32.int n =>
    have := zigzag4_lt n hv
    rw [Nat.mod_eq_of_lt this, Nat.mod_eq_of_lt this, unzigzag_zigzag]
  case sint64.int n =>
    have := zigzag8_lt n hv
    rw [Nat.mod_eq_of_lt this, Nat.mod_eq_of_lt this, unzigzag_zigzag]

theorem fromFixed_toFixed (c : Codec) (w : Nat) (v : SVal) (hs : c.shape = .fixed w) (hv : c.ok v = true) :
    c.fromFixed (c.toFixed v % 256 ^ w) = v := by
  cases c <;> simp [shape] at hs <;> subst hs <;> cases v <;> simp [ok] at hv <;>
    simp only [toFixed, fromFixed, SVal.asInt, SVal.asBits]
  case float.f32 b => rw [p4, ← e32, Nat.mod_eq_of_lt hv]
  case double.f64 b => rw [p8, ← e64, Nat.mod_eq_of_lt hv]
  case fixed32.int n =>
    have := toU_lt 4 n
    rw [Nat.mod_eq_of_lt this, toU4_nonneg n hv.1 hv.2]
  case fixed64.int n =>
    have := toU_lt 8 n
    rw [Nat.mod_eq_of_lt this, toU8_nonneg n hv.1 hv.2]
  case sfixed32.int n =>
    have := toU_lt 4 n
    rw [Nat.mod_eq_of_lt this, toS4_toU4 n hv]
  case sfixed64.int n =>
    have := toU_lt 8 n
    rw [Nat.mod_eq_of_lt this, toS8_toU8 n hv]

theorem copyToBytes_append (a r : Bytes) : copyToBytes a.length (a ++ r) = .ok (a, r) := by
  simp [copyToBytes]

theorem mergeBytes_enc (b r : Bytes) (h : b.length < 2 ^ 64) :
    mergeBytes (encodeVarint b.length ++ (b ++ r)) = .ok (b, r) := by
  unfold mergeBytes
  rw [decodeVarint_encode _ h]
  simp [copyToBytes_append]

/-- the byte-string values carry a `usize` length. -/
def lenOk (v : SVal) : Prop := v.asBytes.length < 2 ^ 64

instance (v : SVal) : Decidable (lenOk v) := by unfold lenOk; exact inferInstance

theorem ok_shape_bs (c : Codec) (v : SVal) (hs : c.shape = .lenDelim) (hv : c.ok v = true) : ∃ b, v = .bs b := by
  cases c <;> simp [shape] at hs <;> cases v <;> simp [ok] at hv <;> exact ⟨_, rfl⟩

/-- `merge` reads back what `encode` wrote after the key, and nothing more. -/
theorem mergePayload_enc (c : Codec) (v : SVal) (hv : c.ok v = true) (hl : lenOk v) (r : Bytes) :
    c.mergePayload (c.encPayload v ++ r) = .ok (v, r) := by
  unfold mergePayload encPayload
  cases hs : c.shape with
  | varint =>
    simp only [decodeVarint_encode _ (c.toU64_lt v) r, fromU64_toU64 c v hs hv]
  | fixed w =>
    simp only
    have hlen : ¬ (natToLE w (c.toFixed v) ++ r).length < w := by simp [natToLE_length]
    simp only [hlen, if_false]
    rw [copyToBytes_append' ]
    · simp only [leToNat_natToLE, fromFixed_toFixed c w v hs hv]
    · exact natToLE_length _ _
  | lenDelim =>
    obtain ⟨b, rfl⟩ := ok_shape_bs c v hs hv
    simp only [SVal.asBytes, List.append_assoc]
    rw [mergeBytes_enc b r hl]
    have : ¬ (c = .string && !validUtf8 b) = true := by
      cases c <;> simp [shape] at hs <;> simp_all [ok]
    simp [this]
where
  copyToBytes_append' {w : Nat} {a r : Bytes} (h : a.length = w) : copyToBytes w (a ++ r) = .ok (a, r) := by
    subst h; exact copyToBytes_append a r

theorem merge_enc (c : Codec) (v : SVal) (hv : c.ok v = true) (hl : lenOk v) (r : Bytes) :
    c.merge c.wt (c.encPayload v ++ r) = .ok (v, r) := by
  simp [merge, checkWireType, mergePayload_enc c v hv hl r]

theorem payloadLen_eq (c : Codec) (v : SVal) (hl : lenOk v) : c.payloadLen v = (c.encPayload v).length := by
  unfold payloadLen encPayload
  cases hs : c.shape with
  | varint => simp only [encodeVarint, encVar_length, encodedLenVarint_eq _ (c.toU64_lt v)]
  | fixed w => simp [natToLE_length]
  | lenDelim => simp only [encodeVarint, List.length_append, encVar_length, encodedLenVarint_eq _ hl]

theorem encodedLen_eq (c : Codec) (tag : Nat) (h1 : minTag ≤ tag) (h2 : tag ≤ maxTag) (v : SVal) (hl : lenOk v) :
    c.encodedLen tag v = (c.encode tag v).length := by
  simp [encodedLen, encode, keyLen_eq tag c.wt h1 h2, payloadLen_eq c v hl]

/-- whole field: key then value, from `encode`'s output followed by anything. -/
theorem field_rt (c : Codec) (tag : Nat) (h1 : minTag ≤ tag) (h2 : tag ≤ maxTag) (v : SVal) (hv : c.ok v = true)
    (hl : lenOk v) (r : Bytes) :
    decodeKey (c.encode tag v ++ r) = .ok ((tag, c.wt), c.encPayload v ++ r) ∧
    c.merge c.wt (c.encPayload v ++ r) = .ok (v, r) := by
  refine ⟨?_, merge_enc c v hv hl r⟩
  unfold encode
  rw [List.append_assoc, decodeKey_keyBytes tag c.wt h1 h2]

end Codec
end Pilota.Proto
