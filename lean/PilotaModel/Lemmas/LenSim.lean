import PilotaModel.Lemmas.Varint
import PilotaModel.Thrift.Len
namespace Pilota.Thrift.Len
open Pilota Pilota.Thrift Pilota.Thrift.Compact

theorem binOp_eq (e : Endian) (o : Op) (hwf : o.wf = true) : binOp o = (Binary.wOp e o).length := by
  cases o <;> simp [Op.wf] at hwf <;> simp [binOp, Binary.wOp, Binary.i, encFixed_length] <;> omega

theorem binLen_eq (e : Endian) (ops : List Op) (hwf : ∀ o ∈ ops, o.wf = true) : binLen ops = (Binary.run e ops).length := by
  induction ops with
  | nil => rfl
  | cons o os ih =>
    simp only [binLen, List.map_cons, List.sum_cons, Binary.run, List.flatMap_cons, List.length_append] at *
    rw [binOp_eq e o (hwf o (by simp)), ih (fun o ho => hwf o (by simp [ho]))]

theorem fieldHeader_length (last : Int) (ct : Nat) (id : Int) :
    (fieldHeader last ct id).length = fieldHeaderLen last id := by
  unfold fieldHeader fieldHeaderLen
  simp only
  split <;> simp [encVar_length]; omega

/-- lock-step simulation: whenever the writer accepts an op, the length machine accepts it,
reaches the same state, and reports exactly the number of bytes the writer appended. -/
theorem len_sim (s : CW) (o : Op) (hwf : o.wf = true) (s' : CW) (b : Bytes) (h : wStep s o = .ok (s', b)) :
    cmpStep s o = .ok (s', b.length) := by
  cases o <;> simp only [wStep, cmpStep] at h ⊢
  case structBegin => cases h; rfl
  case structEnd =>
    split at h
    · cases h
    · rename_i hp; simp only [hp]
      cases hst : s.stack <;> simp [hst] at h ⊢
      obtain ⟨rfl, rfl⟩ := h; simp
  case fieldBegin t id =>
    split at h
    · rename_i ht; simp only [ht, if_true]
      split at h
      · cases h
      · rename_i hp; simp only [hp]; cases h; rfl
    · rename_i ht; simp only [ht, if_false]
      cases hc : compactOf t <;> simp [hc] at h ⊢
      obtain ⟨rfl, rfl⟩ := h
      simp [fieldHeader_length]
  case fieldEnd => split at h <;> simp_all
  case fieldStop => split at h <;> simp_all; obtain ⟨rfl, rfl⟩ := h; simp
  case bool bv =>
    cases hp : s.pending <;> simp [hp] at h ⊢
    · obtain ⟨rfl, rfl⟩ := h; simp
    · obtain ⟨rfl, rfl⟩ := h; simp [fieldHeader_length]
  case i8 n => cases h; simp [Binary.i]
  case i16 n => cases h; simp [encVar_length]
  case i32 n => cases h; simp [encVar_length]
  case i64 n => cases h; simp [encVar_length]
  case dbl n => cases h; simp
  case bytes bs => cases h; simp [encVar_length]
  case uuid bs => cases h; simp [Op.wf] at hwf; simp [hwf]
  case listBegin et n =>
    cases hc : compactOf et <;> simp [hc] at h ⊢
    obtain ⟨rfl, rfl⟩ := h
    unfold collHeader; split <;> simp [encVar_length] <;> omega
  case setBegin et n =>
    cases hc : compactOf et <;> simp [hc] at h ⊢
    obtain ⟨rfl, rfl⟩ := h
    unfold collHeader; split <;> simp [encVar_length] <;> omega
  case listEnd => cases h; rfl
  case setEnd => cases h; rfl
  case mapEnd => cases h; rfl
  case mapBegin kt vt n =>
    split at h
    · rename_i hn; simp only [hn, if_true]; cases h; rfl
    · rename_i hn; simp only [hn, if_false]
      cases hk : compactOf kt <;> cases hv : compactOf vt <;> simp [hk, hv] at h ⊢
      obtain ⟨rfl, rfl⟩ := h; simp [encVar_length]
  case msgBegin name mt seq => cases h; simp [encVar_length]; omega
  case msgEnd => split at h <;> simp_all

end Pilota.Thrift.Len
