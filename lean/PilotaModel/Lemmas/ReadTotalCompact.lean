import PilotaModel.Lemmas.ReadBasicsCompact
import PilotaModel.Lemmas.ReadTotalBinary
/-
  Compact reading interpreter on EVERY input and from EVERY reader state: never panics, consumes at
  least what it builds, never runs out of the top-level budget, does not look past what it consumes.
  A pending bool (value carried by a field header) is worth one unit of the measure.
-/
namespace Pilota.Thrift.Compact
open Pilota Pilota.Thrift

theorem readVal_nopanic : ∀ f,
    (∀ t s bs m, readVal f t s bs ≠ .panic m) ∧ (∀ s bs m, readFields f s bs ≠ .panic m) ∧
    (∀ et n s bs m, readN f et n s bs ≠ .panic m) ∧ (∀ kt vt n s bs m, readPairs f kt vt n s bs ≠ .panic m) := by
  intro f
  induction f with
  | zero => simp [readVal, readFields, readN, readPairs]
  | succ f ih =>
    obtain ⟨ih1, ih2, ih3, ih4⟩ := ih
    refine ⟨?_, ?_, ?_, ?_⟩
    · intro t s bs m
      cases t <;> simp only [readVal] <;> osplit
    · intro s bs m
      simp only [readFields]; osplit
    · intro et n s bs m
      cases n <;> simp only [readN] <;> osplit
    · intro kt vt n s bs m
      cases n <;> simp only [readPairs] <;> osplit

theorem readVal_weight : ∀ f,
    (∀ t s bs v s' r, readVal f t s bs = .ok (v, s', r) → v.weight + 3 * r.length + mu s' ≤ 3 * bs.length + mu s) ∧
    (∀ s bs fs s' r, readFields f s bs = .ok (fs, s', r) → fs.weight + 3 * r.length + mu s' ≤ 3 * bs.length + mu s) ∧
    (∀ et n s bs xs s' r, readN f et n s bs = .ok (xs, s', r) → xs.weight + 3 * r.length + mu s' ≤ 3 * bs.length + mu s) ∧
    (∀ kt vt n s bs kvs s' r, readPairs f kt vt n s bs = .ok (kvs, s', r) → kvs.weight + 3 * r.length + mu s' ≤ 3 * bs.length + mu s) := by
  intro f
  induction f with
  | zero => simp [readVal, readFields, readN, readPairs]
  | succ f ih =>
    obtain ⟨ih1, ih2, ih3, ih4⟩ := ih
    refine ⟨?_, ?_, ?_, ?_⟩
    · intro t s bs v s' r h
      cases t <;> simp only [readVal] at h <;> osplit_at h <;> grind [TVal.weight, mu_le]
    · intro s bs fs s' r h
      simp only [readFields] at h; osplit_at h <;> grind [TFields.weight, mu_le]
    · intro et n s bs xs s' r h
      cases n <;> simp only [readN] at h <;> osplit_at h <;> grind [TVals.weight, mu_le]
    · intro kt vt n s bs kvs s' r h
      cases n <;> simp only [readPairs] at h <;> osplit_at h <;> grind [TPairs.weight, mu_le]

theorem readVal_len {f t s bs v s' r} (h : readVal f t s bs = .ok (v, s', r)) : 3 * r.length + mu s' + 1 ≤ 3 * bs.length + mu s := by
  have := readVal_weight f |>.1 t s bs v s' r h
  have := Binary.TVal.weight_pos v
  omega
theorem readFields_len {f s bs fs s' r} (h : readFields f s bs = .ok (fs, s', r)) : 3 * r.length + mu s' + 1 ≤ 3 * bs.length + mu s := by
  have := readVal_weight f |>.2.1 s bs fs s' r h
  have : 1 ≤ fs.weight := by cases fs <;> simp [TFields.weight]; omega
  omega
theorem readN_len {f et n s bs xs s' r} (h : readN f et n s bs = .ok (xs, s', r)) : 3 * r.length + mu s' ≤ 3 * bs.length + mu s := by
  have := readVal_weight f |>.2.2.1 et n s bs xs s' r h
  omega
theorem readPairs_len {f kt vt n s bs xs s' r} (h : readPairs f kt vt n s bs = .ok (xs, s', r)) : 3 * r.length + mu s' ≤ 3 * bs.length + mu s := by
  have := readVal_weight f |>.2.2.2 kt vt n s bs xs s' r h
  omega

attribute [grind →] readVal_len readFields_len readN_len readPairs_len

theorem readVal_nofuel : ∀ f,
    (∀ t s bs, 3 * bs.length + mu s + 2 ≤ f → readVal f t s bs ≠ .fuel) ∧
    (∀ s bs, 3 * bs.length + mu s + 1 ≤ f → readFields f s bs ≠ .fuel) ∧
    (∀ et n s bs, 3 * bs.length + mu s + 3 ≤ f → readN f et n s bs ≠ .fuel) ∧
    (∀ kt vt n s bs, 3 * bs.length + mu s + 3 ≤ f → readPairs f kt vt n s bs ≠ .fuel) := by
  intro f
  induction f with
  | zero => simp
  | succ f ih =>
    obtain ⟨ih1, ih2, ih3, ih4⟩ := ih
    refine ⟨?_, ?_, ?_, ?_⟩
    · intro t s bs hf h
      cases t <;> simp only [readVal] at h <;> osplit_at h <;> first | (simp_all; done) | grind [mu_le]
    · intro s bs hf h
      simp only [readFields] at h; osplit_at h <;> first | (simp_all; done) | grind [mu_le]
    · intro et n s bs hf h
      cases n <;> simp only [readN] at h <;> osplit_at h <;> first | (simp_all; done) | grind [mu_le]
    · intro kt vt n s bs hf h
      cases n <;> simp only [readPairs] at h <;> osplit_at h <;> first | (simp_all; done) | grind [mu_le]

theorem readVal_ext (q : Bytes) : ∀ f,
    (∀ t s p v s' r f', f ≤ f' → readVal f t s p = .ok (v, s', r) → readVal f' t s (p ++ q) = .ok (v, s', r ++ q)) ∧
    (∀ s p fs s' r f', f ≤ f' → readFields f s p = .ok (fs, s', r) → readFields f' s (p ++ q) = .ok (fs, s', r ++ q)) ∧
    (∀ et n s p xs s' r f', f ≤ f' → readN f et n s p = .ok (xs, s', r) → readN f' et n s (p ++ q) = .ok (xs, s', r ++ q)) ∧
    (∀ kt vt n s p xs s' r f', f ≤ f' → readPairs f kt vt n s p = .ok (xs, s', r) → readPairs f' kt vt n s (p ++ q) = .ok (xs, s', r ++ q)) := by
  intro f
  induction f with
  | zero => simp [readVal, readFields, readN, readPairs]
  | succ f ih =>
    obtain ⟨ih1, ih2, ih3, ih4⟩ := ih
    refine ⟨?_, ?_, ?_, ?_⟩
    · intro t s p v s' r f' hf h
      obtain ⟨g, rfl⟩ : ∃ g, f' = g + 1 := ⟨f' - 1, by omega⟩
      cases t <;> simp only [readVal] at h ⊢ <;> osplit_at h <;> first | (simp_all; done) | grind
    · intro s p fs s' r f' hf h
      obtain ⟨g, rfl⟩ : ∃ g, f' = g + 1 := ⟨f' - 1, by omega⟩
      simp only [readFields] at h ⊢; osplit_at h <;> first | (simp_all; done) | grind
    · intro et n s p xs s' r f' hf h
      obtain ⟨g, rfl⟩ : ∃ g, f' = g + 1 := ⟨f' - 1, by omega⟩
      cases n <;> simp only [readN] at h ⊢ <;> osplit_at h <;> first | (simp_all; done) | grind
    · intro kt vt n s p xs s' r f' hf h
      obtain ⟨g, rfl⟩ : ∃ g, f' = g + 1 := ⟨f' - 1, by omega⟩
      cases n <;> simp only [readPairs] at h ⊢ <;> osplit_at h <;> first | (simp_all; done) | grind

end Pilota.Thrift.Compact
