import PilotaModel.Lemmas.Tolerant
import PilotaModel.Lemmas.OpsRun
/-
  Compact protocol: the emitted decoder run on the compact encoding of a wire value equals the
  value-level shadow `projTy`, from every reader state without a pending bool, and restores that state.
  The shadow is the one used for the binary family: nothing in the emitted decoders depends on the
  protocol beyond the reader record `Rd`.
-/
namespace Pilota.TGen
open Pilota Pilota.Thrift Pilota.Thrift.Compact

variable (d : Doc)

abbrev dpC : Option Nat := some skipDepth

def withRestC {α} (s : CR) (rest : Bytes) (o : Out α) : Out (α × (CR × Bytes)) := mapOut (fun v => (v, (s, rest))) o

/-- skipping a well-typed value that is not carried in a field header -/
theorem cskip_enc (v : TVal) (hw : v.wt = true) (hd : v.need ≤ skipDepth) (cr : CR) (hp : cr.pendingBool = none) (rest : Bytes) :
    cmpRd.skip v.ttype (cr, enc v ++ rest) = .ok (cr, rest) := by
  obtain ⟨bs, h1, h2⟩ := Pilota.Props.C07.compact_skip_exact v hw {} rfl (skipDepth : Int) (by exact_mod_cast hd)
  have hb : bs = enc v := by
    have := run_ops v hw {} rfl
    rw [this] at h1; cases h1; rfl
  subst hb
  simp [cmpRd, h2 cr hp rest, mapOut]

/-- skipping a bool FIELD: the value sits in the reader's pending slot, no byte is consumed -/
theorem cskip_bool_pending (b : Bool) (cr : CR) (hp : cr.pendingBool = some b) (bs : Bytes) :
    cmpRd.skip .bool (cr, bs) = .ok ({ cr with pendingBool := none }, bs) := by
  simp only [cmpRd, Skip.cskip, Skip.cskipVal]
  have : 3 * bs.length + 3 = (3 * bs.length + 2) + 1 := by omega
  rw [this, Skip.rdSkip]
  simp [skipDepth, Skip.compactPrims, Skip.compactLeaf, Skip.dropS, readBool, hp, mapOut]
  all_goals (intro h; cases h)

theorem cfieldBegin_nil (cr : CR) (last : Int) (rest : Bytes) :
    cmpRd.fieldBegin (cr, encFields last .nil ++ rest) = .ok ((.stop, 0), (cr, rest)) := by
  simp [cmpRd, encFields, readFieldBegin_stop, mapOut]

/-- a bool field: the header carries the value, which lands in the pending slot -/
theorem cfieldBegin_bool (cr : CR) (id : Int) (b : Bool) (r : TFields) (hid : inS 2 id) (rest : Bytes) :
    cmpRd.fieldBegin (cr, encFields cr.last (.cons id (.bool b) r) ++ rest) =
      .ok ((.bool, id), ({ cr with last := id, pendingBool := some b }, encFields id r ++ rest)) := by
  simp only [cmpRd, encFields, List.append_assoc]
  rw [readFieldBegin_hdr cr (boolByte b) .bool (by cases b <;> simp [boolByte]) (by cases b <;> simp [boolByte, ttypeOfCompact]) id hid]
  cases b <;> simp [mapOut, boolByte]

/-- any other field: header, then the value's encoding -/
theorem cfieldBegin_val (cr : CR) (id : Int) (v : TVal) (r : TFields) (hid : inS 2 id) (hnb : v.ttype ≠ .bool) (rest : Bytes) :
    cmpRd.fieldBegin (cr, encFields cr.last (.cons id v r) ++ rest) =
      .ok ((v.ttype, id), ({ cr with last := id }, enc v ++ (encFields id r ++ rest))) := by
  obtain ⟨ct, h1, h2, h3, h4, h5⟩ := compactOf_value v.ttype (Binary.val_ttype_isValue v)
  have hne := h5 hnb
  have henc : encFields cr.last (.cons id v r) = fieldHeader cr.last ct id ++ (enc v ++ encFields id r) := by
    cases v <;> simp [TVal.ttype] at hnb <;> simp [encFields, TVal.ttype] at h1 ⊢ <;> simp [h1]
  rw [henc]
  simp only [cmpRd, List.append_assoc]
  rw [readFieldBegin_hdr cr ct v.ttype ⟨h2, h3⟩ h4 id hid]
  simp [mapOut, hne.1, hne.2]

theorem cbase_dec (v : TVal) (ty : STy) (hw : v.wt = true) (f : Nat) (cr : CR) (hp : cr.pendingBool = none) (rest : Bytes)
    (hb : (match ty, v with
      | .bool, .bool _ | .i8, .i8 _ | .i16, .i16 _ | .i32, .i32 _ | .i64, .i64 _ | .double, .dbl _
      | .string, .bin _ | .binary, .bin _ | .uuid, .uuid _ => true
      | _, _ => false) = true) :
    decTy cmpRd d (f + 1) ty (cr, enc v ++ rest) = .ok (v, (cr, rest)) := by
  cases v <;> cases ty <;> simp at hb <;> simp [TVal.wt] at hw
  case bool.bool b =>
    rw [decTy]
    cases b <;> simp [cmpRd, enc, readBool, hp, boolByte, readByte, Binary.readByte, mapOut]
  case i8.i8 n => rw [decTy]; simp [cmpRd, enc, Binary.readI_i .be 1 (by decide) n hw, mapOut]
  case i16.i16 n => rw [decTy]; simp [cmpRd, enc, readVarS_zigzag 2 (Or.inl rfl) n hw, mapOut]
  case i32.i32 n => rw [decTy]; simp [cmpRd, enc, readVarS_zigzag 4 (Or.inr (Or.inl rfl)) n hw, mapOut]
  case i64.i64 n => rw [decTy]; simp [cmpRd, enc, readVarS_zigzag 8 (Or.inr (Or.inr rfl)) n hw, mapOut]
  case dbl.double b =>
    have : b % 256 ^ 8 = b := Nat.mod_eq_of_lt (by have : (256:Nat)^8 = 2^64 := by decide
                                                   omega)
    rw [decTy]; simp [cmpRd, enc, Binary.readU_enc, this, mapOut]
  case bin.string bs => rw [decTy]; simp [cmpRd, enc, List.append_assoc, readBytes_enc bs rest hw, mapOut]
  case bin.binary bs => rw [decTy]; simp [cmpRd, enc, List.append_assoc, readBytes_enc bs rest hw, mapOut]
  case uuid.uuid bs => rw [decTy]; simp [cmpRd, enc, Binary.takeN_append' 16 bs rest hw, mapOut]

end Pilota.TGen

namespace Pilota.TGen
open Pilota Pilota.Thrift Pilota.Thrift.Compact

variable (d : Doc)

/-- the correspondence statements at fuel `f` (compact): value position … -/
def CorrTC (f : Nat) : Prop := ∀ ty w cr rest o, w.wt = true → cr.pendingBool = none → projTy d dpC f ty w = some o →
  decTy cmpRd d f ty (cr, enc w ++ rest) = withRestC cr rest o
/-- … and a bool carried in the field header (pending slot) -/
def CorrBC (f : Nat) : Prop := ∀ ty b (cr : CR) rest o, cr.pendingBool = some b → projTy d dpC f ty (.bool b) = some o →
  decTy cmpRd d f ty (cr, rest) = withRestC { cr with pendingBool := none } rest o
def CorrNC (f : Nat) : Prop := ∀ el xs et acc cr rest o, xs.wt et = true → cr.pendingBool = none → projN d dpC f el xs acc = some o →
  decN cmpRd d f el xs.length acc (cr, encVals xs ++ rest) = withRestC cr rest o
def CorrPC (f : Nat) : Prop := ∀ k v kvs kt vt acc cr rest o, kvs.wt kt vt = true → cr.pendingBool = none → projPairs d dpC f k v kvs acc = some o →
  decPairs cmpRd d f k v kvs.length acc (cr, encPairs kvs ++ rest) = withRestC cr rest o
def CorrFC (f : Nat) : Prop := ∀ fs slots wfs (cr : CR) rest o, wfs.wt = true → cr.pendingBool = none → projFields d dpC f fs slots wfs = some o →
  decFields cmpRd d f fs slots (cr, encFields cr.last wfs ++ rest) = withRestC { cr with last := lastOf cr.last wfs } rest o
def CorrUC (f : Nat) : Prop := ∀ vs ret wfs (cr : CR) rest o, wfs.wt = true → cr.pendingBool = none → projUnion d dpC f vs ret wfs = some o →
  decUnion cmpRd d f vs ret (cr, encFields cr.last wfs ++ rest) = withRestC { cr with last := lastOf cr.last wfs } rest o

theorem corrNC_succ (f : Nat) (hT : CorrTC d f) (hN : CorrNC d f) : CorrNC d (f + 1) := by
  intro el xs et acc cr rest o hw hp h
  cases xs with
  | nil =>
    simp only [projN] at h; cases h
    simp [decN, TVals.length, encVals, withRestC, mapOut]
  | cons x xs =>
    simp [TVals.wt] at hw
    obtain ⟨⟨_, hx⟩, hxs⟩ := hw
    simp only [projN] at h
    simp only [TVals.length, encVals, List.append_assoc, decN]
    cases hpx : projTy d dpC f el x with
    | none => simp [hpx] at h
    | some ox =>
      rw [hT el x cr _ ox hx hp hpx]
      cases ox with
      | ok v =>
        simp only [hpx] at h
        simp only [withRestC, mapOut]
        exact hN el xs et _ cr rest o hxs hp h
      | err k => simp [hpx] at h; subst h; rfl
      | panic m => simp [hpx] at h; subst h; rfl
      | fuel => simp [hpx] at h; subst h; rfl

theorem corrPC_succ (f : Nat) (hT : CorrTC d f) (hP : CorrPC d f) : CorrPC d (f + 1) := by
  intro k v kvs kt vt acc cr rest o hw hp h
  cases kvs with
  | nil =>
    simp only [projPairs] at h; cases h
    simp [decPairs, TPairs.length, encPairs, withRestC, mapOut]
  | cons a b r =>
    simp [TPairs.wt] at hw
    obtain ⟨⟨⟨⟨_, _⟩, ha⟩, hb⟩, hr⟩ := hw
    simp only [projPairs] at h
    simp only [TPairs.length, encPairs, List.append_assoc, decPairs]
    cases hpa : projTy d dpC f k a with
    | none => simp [hpa] at h
    | some oa =>
      rw [hT k a cr _ oa ha hp hpa]
      cases oa with
      | ok ka =>
        simp only [hpa] at h
        simp only [withRestC, mapOut]
        cases hpb : projTy d dpC f v b with
        | none => simp [hpb] at h
        | some ob =>
          rw [hT v b cr _ ob hb hp hpb]
          cases ob with
          | ok vb =>
            simp only [hpb] at h
            simp only [withRestC, mapOut]
            exact hP k v r kt vt _ cr rest o hr hp h
          | err x => simp [hpb] at h; subst h; rfl
          | panic m => simp [hpb] at h; subst h; rfl
          | fuel => simp [hpb] at h; subst h; rfl
      | err x => simp [hpa] at h; subst h; rfl
      | panic m => simp [hpa] at h; subst h; rfl
      | fuel => simp [hpa] at h; subst h; rfl

end Pilota.TGen

namespace Pilota.TGen
open Pilota Pilota.Thrift Pilota.Thrift.Compact

variable (d : Doc)

theorem cr_last_self (cr : CR) : ({ cr with last := cr.last } : CR) = cr := by cases cr; rfl

theorem cr_after_bool (cr : CR) (hp : cr.pendingBool = none) (id : Int) (b : Bool) :
    ({ ({ cr with last := id, pendingBool := some b } : CR) with pendingBool := none } : CR) = { cr with last := id } := by
  cases cr; simp at hp; subst hp; rfl

theorem admitsC (n : Nat) (h : admitsB dpC n = true) : n ≤ skipDepth := by
  simpa [admitsB, dpC] using h

theorem bool_of_ttype (v : TVal) (h : v.ttype = .bool) : ∃ b, v = .bool b := by
  cases v <;> simp [TVal.ttype] at h; exact ⟨_, rfl⟩

theorem corrFC_succ (f : Nat) (hT : CorrTC d f) (hB : CorrBC d f) (hF : CorrFC d f) : CorrFC d (f + 1) := by
  intro fs slots wfs cr rest o hw hp h
  cases wfs with
  | nil =>
    simp only [projFields] at h; cases h
    rw [decFields, cfieldBegin_nil]; cases cr; simp [withRestC, mapOut, lastOf]
  | cons id v r =>
    simp [TFields.wt] at hw
    obtain ⟨⟨hid, hv⟩, hr⟩ := hw
    simp only [projFields, hid, not_true_eq_false, if_false] at h
    have hns : v.ttype ≠ .stop := Binary.ttype_isValue_ne_stop _ (Binary.val_ttype_isValue v)
    by_cases hbool : v.ttype = .bool
    · obtain ⟨b, rfl⟩ := bool_of_ttype v hbool
      rw [decFields, cfieldBegin_bool cr id b r hid]
      simp only [TVal.ttype] at h hns ⊢
      simp only [hns, if_false]
      have hp' : ({ cr with last := id } : CR).pendingBool = none := hp
      cases hfind : fs.find? (fun fl => fl.id == id && d.ttype fl.ty == TType.bool) with
      | some fl =>
        simp only [hfind] at h ⊢
        cases hpv : projTy d dpC f fl.ty (.bool b) with
        | none => simp [hpv] at h
        | some ov =>
          rw [hB fl.ty b _ _ ov rfl hpv]
          cases ov with
          | ok pv =>
            simp only [hpv] at h
            simp only [withRestC, mapOut, cr_after_bool cr hp id b]
            have := hF fs _ r { cr with last := id } rest o hr hp' h
            simpa [lastOf, withRestC, mapOut] using this
          | err x => simp [hpv] at h; subst h; rfl
          | panic m => simp [hpv] at h; subst h; rfl
          | fuel => simp [hpv] at h; subst h; rfl
      | none =>
        simp only [hfind] at h ⊢
        by_cases hadm : admitsB dpC (TVal.bool b).need = true
        · simp only [hadm, if_true] at h
          rw [cskip_bool_pending b _ rfl]
          simp only [cr_after_bool cr hp id b]
          have := hF fs slots r { cr with last := id } rest o hr hp' h
          simpa [lastOf] using this
        · simp [hadm] at h
    · rw [decFields, cfieldBegin_val cr id v r hid hbool]
      simp only [hns, if_false]
      have hp' : ({ cr with last := id } : CR).pendingBool = none := hp
      cases hfind : fs.find? (fun fl => fl.id == id && d.ttype fl.ty == v.ttype) with
      | some fl =>
        simp only [hfind] at h ⊢
        cases hpv : projTy d dpC f fl.ty v with
        | none => simp [hpv] at h
        | some ov =>
          rw [hT fl.ty v _ _ ov hv hp' hpv]
          cases ov with
          | ok pv =>
            simp only [hpv] at h
            simp only [withRestC, mapOut]
            have := hF fs _ r { cr with last := id } rest o hr hp' h
            simpa [lastOf, withRestC, mapOut] using this
          | err x => simp [hpv] at h; subst h; rfl
          | panic m => simp [hpv] at h; subst h; rfl
          | fuel => simp [hpv] at h; subst h; rfl
      | none =>
        simp only [hfind] at h ⊢
        by_cases hadm : admitsB dpC v.need = true
        · simp only [hadm, if_true] at h
          rw [cskip_enc v hv (admitsC _ hadm) _ hp']
          have := hF fs slots r { cr with last := id } rest o hr hp' h
          simpa [lastOf] using this
        · simp [hadm] at h

end Pilota.TGen

namespace Pilota.TGen
open Pilota Pilota.Thrift Pilota.Thrift.Compact

variable (d : Doc)

theorem corrUC_succ (f : Nat) (hT : CorrTC d f) (hB : CorrBC d f) (hU : CorrUC d f) : CorrUC d (f + 1) := by
  intro vs ret wfs cr rest o hw hp h
  cases wfs with
  | nil =>
    simp only [projUnion] at h; cases h
    rw [decUnion, cfieldBegin_nil]; cases cr; simp [withRestC, mapOut, lastOf]
  | cons id v r =>
    simp [TFields.wt] at hw
    obtain ⟨⟨hid, hv⟩, hr⟩ := hw
    simp only [projUnion, hid, not_true_eq_false, if_false] at h
    have hns : v.ttype ≠ .stop := Binary.ttype_isValue_ne_stop _ (Binary.val_ttype_isValue v)
    have hp' : ({ cr with last := id } : CR).pendingBool = none := hp
    by_cases hbool : v.ttype = .bool
    · obtain ⟨b, rfl⟩ := bool_of_ttype v hbool
      rw [decUnion, cfieldBegin_bool cr id b r hid]
      simp only [TVal.ttype] at h hns ⊢
      simp only [hns, if_false]
      cases hfind : vs.find? (fun x => x.1 == id && !(x.2 == .void)) with
      | some p =>
        obtain ⟨pid, ty⟩ := p
        simp only [hfind] at h ⊢
        by_cases hret : ret.isSome = true
        · simp only [hret, if_true] at h ⊢
          cases h; rfl
        · simp only [hret, if_false] at h ⊢
          by_cases htt : (d.ttype ty != TType.bool) = true
          · simp [htt] at h
          · simp only [htt, if_false] at h
            cases hpv : projTy d dpC f ty (.bool b) with
            | none => simp [hpv] at h
            | some ov =>
              rw [hB ty b _ _ ov rfl hpv]
              cases ov with
              | ok pv =>
                simp only [hpv] at h
                simp only [withRestC, mapOut, cr_after_bool cr hp id b]
                have := hU vs _ r { cr with last := id } rest o hr hp' h
                simpa [lastOf, withRestC, mapOut] using this
              | err x => simp [hpv] at h; subst h; rfl
              | panic m => simp [hpv] at h; subst h; rfl
              | fuel => simp [hpv] at h; subst h; rfl
      | none =>
        simp only [hfind] at h ⊢
        by_cases hadm : admitsB dpC (TVal.bool b).need = true
        · simp only [hadm, if_true] at h
          rw [cskip_bool_pending b _ rfl]
          simp only [cr_after_bool cr hp id b]
          have := hU vs ret r { cr with last := id } rest o hr hp' h
          simpa [lastOf, withRestC, mapOut] using this
        · simp [hadm] at h
    · rw [decUnion, cfieldBegin_val cr id v r hid hbool]
      simp only [hns, if_false]
      cases hfind : vs.find? (fun x => x.1 == id && !(x.2 == .void)) with
      | some p =>
        obtain ⟨pid, ty⟩ := p
        simp only [hfind] at h ⊢
        by_cases hret : ret.isSome = true
        · simp only [hret, if_true] at h ⊢
          cases h; rfl
        · simp only [hret, if_false] at h ⊢
          by_cases htt : (d.ttype ty != v.ttype) = true
          · simp [htt] at h
          · simp only [htt, if_false] at h
            cases hpv : projTy d dpC f ty v with
            | none => simp [hpv] at h
            | some ov =>
              rw [hT ty v _ _ ov hv hp' hpv]
              cases ov with
              | ok pv =>
                simp only [hpv] at h
                simp only [withRestC, mapOut]
                have := hU vs _ r { cr with last := id } rest o hr hp' h
                simpa [lastOf, withRestC, mapOut] using this
              | err x => simp [hpv] at h; subst h; rfl
              | panic m => simp [hpv] at h; subst h; rfl
              | fuel => simp [hpv] at h; subst h; rfl
      | none =>
        simp only [hfind] at h ⊢
        by_cases hadm : admitsB dpC v.need = true
        · simp only [hadm, if_true] at h
          rw [cskip_enc v hv (admitsC _ hadm) _ hp']
          have := hU vs ret r { cr with last := id } rest o hr hp' h
          simpa [lastOf, withRestC, mapOut] using this
        · simp [hadm] at h

/-- a bool carried by the field header, decoded through any chain of typedefs -/
theorem corrBC_succ (f : Nat) (hB : CorrBC d f) : CorrBC d (f + 1) := by
  intro ty b cr rest o hp h
  cases ty with
  | bool =>
    simp only [projTy] at h; cases h
    rw [decTy]; simp [cmpRd, readBool, hp, mapOut, withRestC]
  | ref n =>
    simp only [projTy] at h
    rw [decTy]
    cases hfind : d.find n with
    | none => simp [hfind] at h ⊢; subst h; rfl
    | some df =>
      cases df with
      | struct fs => simp [hfind] at h
      | union vs => simp [hfind] at h
      | enum => simp [hfind] at h
      | typedef t =>
        simp only [hfind] at h ⊢
        exact hB t b cr rest o hp h
  | void => simp only [projTy] at h; cases h; rw [decTy]; rfl
  | _ => simp [projTy] at h

end Pilota.TGen

namespace Pilota.TGen
open Pilota Pilota.Thrift Pilota.Thrift.Compact

variable (d : Doc)

theorem clistBegin_enc (et : TType) (xs : TVals) (he : et.isValue = true) (hx : xs.wt et = true) (hl : xs.length < 2 ^ 31)
    (cr : CR) (rest : Bytes) :
    cmpRd.listBegin (cr, collHeader ((compactOf et).getD 0) xs.length ++ (encVals xs ++ rest)) =
      .ok ((et, xs.length), (cr, encVals xs ++ rest)) := by
  simp only [cmpRd]
  rw [readCollBegin_hdr et he _ hl _ (by have := vals_length_le xs et hx; simp only [List.length_append]; omega)]
  rfl

theorem cmapBegin_empty (cr : CR) (rest : Bytes) :
    cmpRd.mapBegin (cr, (0 : UInt8) :: rest) = .ok ((.stop, .stop, 0), (cr, rest)) := by
  simp only [cmpRd]
  rw [readMapBegin_empty]
  rfl

theorem cmapBegin_enc (kt vt : TType) (kvs : TPairs) (hk : kt.isValue = true) (hv : vt.isValue = true) (hx : kvs.wt kt vt = true)
    (hne : kvs.length ≠ 0) (hl : kvs.length < 2 ^ 31) (cr : CR) (rest : Bytes) :
    cmpRd.mapBegin (cr, encVar (kvs.length % 2 ^ 32) ++ (UInt8.ofNat ((compactOf kt).getD 0 * 16 + (compactOf vt).getD 0) :: (encPairs kvs ++ rest))) =
      .ok ((kt, vt, kvs.length), (cr, encPairs kvs ++ rest)) := by
  simp only [cmpRd]
  rw [readMapBegin_hdr kt vt hk hv _ hne hl _ (by have := pairs_length_le kvs kt vt hx; simp only [List.length_append]; omega)]
  rfl

theorem corrTC_succ (f : Nat) (hT : CorrTC d f) (hN : CorrNC d f) (hP : CorrPC d f)
    (hF : CorrFC d f) (hU : CorrUC d f) : CorrTC d (f + 1) := by
  intro ty w cr rest o hw hp h
  cases ty with
  | list el =>
    cases w <;> simp only [projTy] at h <;> try (cases h; done)
    rename_i et xs
    simp [TVal.wt] at hw
    obtain ⟨⟨he, hl⟩, hx⟩ := hw
    simp only [enc, List.append_assoc]
    rw [decTy, clistBegin_enc et xs he hx hl]
    simp only
    cases hpn : projN d dpC f el xs [] with
    | none => simp [hpn] at h
    | some oy =>
      rw [hN el xs et [] cr rest oy hx hp hpn]
      cases oy <;> simp [hpn] at h <;> subst h <;> rfl
  | set el =>
    cases w <;> simp only [projTy] at h <;> try (cases h; done)
    rename_i et xs
    simp [TVal.wt] at hw
    obtain ⟨⟨he, hl⟩, hx⟩ := hw
    simp only [enc, List.append_assoc]
    rw [decTy, clistBegin_enc et xs he hx hl]
    simp only
    cases hpn : projN d dpC f el xs [] with
    | none => simp [hpn] at h
    | some oy =>
      rw [hN el xs et [] cr rest oy hx hp hpn]
      cases oy <;> simp [hpn] at h <;> subst h <;> rfl
  | map k v =>
    cases w <;> simp only [projTy] at h <;> try (cases h; done)
    rename_i kt vt kvs
    simp [TVal.wt] at hw
    obtain ⟨⟨⟨hk, hv⟩, hl⟩, hx⟩ := hw
    cases kvs with
    | nil =>
      simp only [enc, TPairs.length, if_true, List.cons_append, List.nil_append]
      rw [decTy, cmapBegin_empty]
      simp only
      cases f with
      | zero => simp only [projPairs] at h; cases h; rfl
      | succ f => simp only [projPairs] at h; cases h; simp [decPairs, withRestC, mapOut]
    | cons k0 v0 kr =>
      have hne : (TPairs.cons k0 v0 kr).length ≠ 0 := by simp [TPairs.length]
      simp only [enc, hne, if_false, List.append_assoc, List.cons_append]
      rw [decTy, cmapBegin_enc kt vt _ hk hv hx hne hl]
      simp only
      cases hpp : projPairs d dpC f k v (TPairs.cons k0 v0 kr) [] with
      | none => simp [hpp] at h
      | some oy =>
        rw [hP k v (TPairs.cons k0 v0 kr) kt vt [] cr rest oy hx hp hpp]
        cases oy <;> simp [hpp] at h <;> subst h <;> rfl
  | ref n =>
    simp only [projTy] at h
    rw [decTy]
    cases hfind : d.find n with
    | none => simp [hfind] at h ⊢; subst h; rfl
    | some df =>
      cases df with
      | struct fs =>
        simp only [hfind] at h ⊢
        cases w <;> simp only at h <;> try (cases h; done)
        rename_i wfs
        simp [TVal.wt] at hw
        simp only [enc]
        cases hpf : projFields d dpC f fs [] wfs with
        | none => simp [hpf] at h
        | some os =>
          have hb : cmpRd.structBegin (cr, encFields 0 wfs ++ rest) = (readStructBegin cr, encFields (readStructBegin cr).last wfs ++ rest) := rfl
          rw [hb, hF fs [] wfs (readStructBegin cr) rest os hw (by simp [readStructBegin, hp]) hpf]
          cases os with
          | ok slots =>
            simp only [hpf] at h
            simp only [withRestC, mapOut]
            have hse : cmpRd.structEnd ({ readStructBegin cr with last := lastOf (readStructBegin cr).last wfs }, rest) = .ok (cr, rest) := by
              cases cr; simp [cmpRd, readStructBegin, readStructEnd, mapOut]
            rw [hse]
            simp only
            cases hfin : finish fs slots <;> simp [hfin] at h ⊢ <;> subst h <;> rfl
          | err x => simp [hpf] at h; subst h; rfl
          | panic m => simp [hpf] at h; subst h; rfl
          | fuel => simp [hpf] at h; subst h; rfl
      | union vs =>
        simp only [hfind] at h ⊢
        cases w <;> simp only at h <;> try (cases h; done)
        rename_i wfs
        simp [TVal.wt] at hw
        simp only [enc]
        cases hpu : projUnion d dpC f vs none wfs with
        | none => simp [hpu] at h
        | some os =>
          have hb : cmpRd.structBegin (cr, encFields 0 wfs ++ rest) = (readStructBegin cr, encFields (readStructBegin cr).last wfs ++ rest) := rfl
          rw [hb, hU vs none wfs (readStructBegin cr) rest os hw (by simp [readStructBegin, hp]) hpu]
          cases os with
          | ok ret =>
            simp only [hpu] at h
            simp only [withRestC, mapOut]
            have hse : cmpRd.structEnd ({ readStructBegin cr with last := lastOf (readStructBegin cr).last wfs }, rest) = .ok (cr, rest) := by
              cases cr; simp [cmpRd, readStructBegin, readStructEnd, mapOut]
            rw [hse]
            simp only
            cases ret with
            | some p => obtain ⟨id, v⟩ := p; simp at h; subst h; rfl
            | none =>
              simp only at h ⊢
              split at h <;> (cases h; first | rfl | skip)
              all_goals (split <;> simp_all [withRestC, mapOut])
          | err x => simp [hpu] at h; subst h; rfl
          | panic m => simp [hpu] at h; subst h; rfl
          | fuel => simp [hpu] at h; subst h; rfl
      | enum =>
        simp only [hfind] at h ⊢
        cases w <;> simp only at h <;> try (cases h; done)
        rename_i n
        cases h
        have := cbase_dec d (.i32 n) .i32 hw 0 cr hp rest rfl
        rw [decTy] at this
        simp only [withRestC, mapOut]
        exact this
      | typedef t =>
        simp only [hfind] at h ⊢
        exact hT t w cr rest o hw hp h
  | void => simp only [projTy] at h; cases h; rw [decTy]; rfl
  | bool => cases w <;> simp only [projTy] at h <;> try (cases h; done)
            cases h; exact cbase_dec d _ .bool hw f cr hp rest rfl
  | i8 => cases w <;> simp only [projTy] at h <;> try (cases h; done)
          cases h; exact cbase_dec d _ .i8 hw f cr hp rest rfl
  | i16 => cases w <;> simp only [projTy] at h <;> try (cases h; done)
           cases h; exact cbase_dec d _ .i16 hw f cr hp rest rfl
  | i32 => cases w <;> simp only [projTy] at h <;> try (cases h; done)
           cases h; exact cbase_dec d _ .i32 hw f cr hp rest rfl
  | i64 => cases w <;> simp only [projTy] at h <;> try (cases h; done)
           cases h; exact cbase_dec d _ .i64 hw f cr hp rest rfl
  | double => cases w <;> simp only [projTy] at h <;> try (cases h; done)
              cases h; exact cbase_dec d _ .double hw f cr hp rest rfl
  | string => cases w <;> simp only [projTy] at h <;> try (cases h; done)
              cases h; exact cbase_dec d _ .string hw f cr hp rest rfl
  | binary => cases w <;> simp only [projTy] at h <;> try (cases h; done)
              cases h; exact cbase_dec d _ .binary hw f cr hp rest rfl
  | uuid => cases w <;> simp only [projTy] at h <;> try (cases h; done)
            cases h; exact cbase_dec d _ .uuid hw f cr hp rest rfl

theorem corrC_all : ∀ f : Nat, CorrTC d f ∧ CorrBC d f ∧ CorrNC d f ∧ CorrPC d f ∧ CorrFC d f ∧ CorrUC d f := by
  intro f
  induction f with
  | zero =>
    refine ⟨?_, ?_, ?_, ?_, ?_, ?_⟩
    · intro ty w cr rest o _ _ h; simp only [projTy] at h; cases h; rfl
    · intro ty b cr rest o _ h; simp only [projTy] at h; cases h; rfl
    · intro el xs et acc cr rest o _ _ h; simp only [projN] at h; cases h; rfl
    · intro k v kvs kt vt acc cr rest o _ _ h; simp only [projPairs] at h; cases h; rfl
    · intro fs slots wfs cr rest o _ _ h; simp only [projFields] at h; cases h; rfl
    · intro vs ret wfs cr rest o _ _ h; simp only [projUnion] at h; cases h; rfl
  | succ f ih =>
    obtain ⟨hT, hB, hN, hP, hF, hU⟩ := ih
    exact ⟨corrTC_succ d f hT hN hP hF hU, corrBC_succ d f hB, corrNC_succ d f hT hN, corrPC_succ d f hT hP,
      corrFC_succ d f hT hB hF, corrUC_succ d f hT hB hU⟩

end Pilota.TGen
