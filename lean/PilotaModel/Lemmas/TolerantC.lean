import PilotaModel.Lemmas.Tolerant
import PilotaModel.Lemmas.OpsRun
/-
  Compact protocol: the emitted decoder run on the compact encoding of a wire value equals the
  value-level shadow `projTy`, from every reader state without a pending bool, and restores that state.
-/
namespace Pilota.TGen
open Pilota Pilota.Thrift Pilota.Thrift.Compact

variable (d : Doc)

abbrev dpC : Option Nat := some skipDepth

def withRestC {α} (s : CR) (rest : Bytes) (o : Out α) : Out (α × (CR × Bytes)) := mapOut (fun v => (v, (s, rest))) o

/-- skipping a well-typed value that is not carried in a field header -/
theorem cskip_enc (v : TVal) (hw : v.wt = true) (hd : v.need ≤ skipDepth) (cr : CR) (hp : cr.pendingBool = none) (rest : Bytes) :
    cmpRd.skip v.ttype (cr, enc v ++ rest) = .ok (cr, rest) := by
  obtain ⟨bs, h1, h2⟩ := Pilota.Props.C07.compact_skip_exact v hw {} rfl (skipDepth : Int) (by exact_mod_cast hd)
  have hb : bs = enc v := by
    have := run_ops v hw {} rfl
    rw [this] at h1; cases h1; rfl
  subst hb
  simp [cmpRd, h2 cr hp rest, mapOut]

/-- skipping a bool FIELD: the value sits in the reader's pending slot, no byte is consumed -/
theorem cskip_bool_pending (b : Bool) (cr : CR) (hp : cr.pendingBool = some b) (bs : Bytes) :
    cmpRd.skip .bool (cr, bs) = .ok ({ cr with pendingBool := none }, bs) := by
  simp only [cmpRd, Skip.cskip, Skip.cskipVal]
  have : 3 * bs.length + 3 = (3 * bs.length + 2) + 1 := by omega
  rw [this, Skip.rdSkip]
  simp [skipDepth, Skip.compactPrims, Skip.compactLeaf, Skip.dropS, readBool, hp, mapOut]
  all_goals (intro h; cases h)

end Pilota.TGen
