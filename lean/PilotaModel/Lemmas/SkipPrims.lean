import PilotaModel.Lemmas.SkipTotal
/-  The three primitive sets of the read-and-discard skippers are `Good`. -/
namespace Pilota.Thrift.Skip
open Pilota Pilota.Thrift

@[simp] theorem drop1_ne_panic {α} (x : Out (α × Bytes)) (m) (h : ∀ m, x ≠ .panic m) : drop1 x ≠ .panic m := by
  unfold drop1; split <;> simp_all
@[simp] theorem drop1_ne_fuel {α} (x : Out (α × Bytes)) (h : x ≠ .fuel) : drop1 x ≠ .fuel := by
  unfold drop1; split <;> simp_all
theorem drop1_ok {α} {x : Out (α × Bytes)} {u r} (h : drop1 x = .ok (u, r)) : ∃ a, x = .ok (a, r) := by
  unfold drop1 at h; split at h <;> simp_all
@[simp] theorem dropS_ne_panic {α} (s) (x : Out (α × Bytes)) (m) (h : ∀ m, x ≠ .panic m) : dropS s x ≠ .panic m := by
  unfold dropS; split <;> simp_all
@[simp] theorem dropS_ne_fuel {α} (s) (x : Out (α × Bytes)) (h : x ≠ .fuel) : dropS s x ≠ .fuel := by
  unfold dropS; split <;> simp_all
theorem dropS_ok {α} {s} {x : Out (α × Bytes)} {s' r} (h : dropS s x = .ok (s', r)) : s' = s ∧ ∃ a, x = .ok (a, r) := by
  unfold dropS at h; split at h <;> simp_all

/-! raw (unchecked-size) container headers -/

@[simp] theorem rawListBegin_ne_panic (bs m) : rawListBegin bs ≠ .panic m := by unfold rawListBegin; osplit
@[simp] theorem rawListBegin_ne_fuel (bs) : rawListBegin bs ≠ .fuel := by unfold rawListBegin; osplit
theorem rawListBegin_len {bs x r} (h : rawListBegin bs = .ok (x, r)) : 5 + r.length = bs.length := by
  unfold rawListBegin at h; osplit_at h; grind
@[simp] theorem rawMapBegin_ne_panic (bs m) : rawMapBegin bs ≠ .panic m := by unfold rawMapBegin; osplit
@[simp] theorem rawMapBegin_ne_fuel (bs) : rawMapBegin bs ≠ .fuel := by unfold rawMapBegin; osplit
theorem rawMapBegin_len {bs x r} (h : rawMapBegin bs = .ok (x, r)) : 6 + r.length = bs.length := by
  unfold rawMapBegin at h; osplit_at h; grind
@[simp] theorem rawCollBegin_ne_panic (bs m) : rawCollBegin bs ≠ .panic m := by unfold rawCollBegin; osplit
@[simp] theorem rawCollBegin_ne_fuel (bs) : rawCollBegin bs ≠ .fuel := by unfold rawCollBegin; osplit
theorem rawCollBegin_len {bs x r} (h : rawCollBegin bs = .ok (x, r)) : 1 + r.length ≤ bs.length := by
  unfold rawCollBegin at h; osplit_at h <;> grind
@[simp] theorem rawCMapBegin_ne_panic (bs m) : rawCMapBegin bs ≠ .panic m := by unfold rawCMapBegin; osplit
@[simp] theorem rawCMapBegin_ne_fuel (bs) : rawCMapBegin bs ≠ .fuel := by unfold rawCMapBegin; osplit
theorem rawCMapBegin_len {bs x r} (h : rawCMapBegin bs = .ok (x, r)) : 1 + r.length ≤ bs.length := by
  unfold rawCMapBegin at h; osplit_at h <;> grind
attribute [grind →] rawListBegin_len rawMapBegin_len rawCollBegin_len rawCMapBegin_len

/-! leaves -/

@[simp] theorem asyncBinaryString_ne_panic (bs m) : asyncBinaryString bs ≠ .panic m := by unfold asyncBinaryString; osplit
@[simp] theorem asyncBinaryString_ne_fuel (bs) : asyncBinaryString bs ≠ .fuel := by unfold asyncBinaryString; osplit
theorem asyncBinaryString_len {bs b r} (h : asyncBinaryString bs = .ok (b, r)) : 4 + r.length ≤ bs.length := by
  unfold asyncBinaryString at h; osplit_at h
  rename_i h1 _ _; have := Binary.readI_len h1
  obtain ⟨_, rfl⟩ := h; simp; omega
@[simp] theorem asyncCompactString_ne_panic (bs m) : asyncCompactString bs ≠ .panic m := by unfold asyncCompactString; osplit
@[simp] theorem asyncCompactString_ne_fuel (bs) : asyncCompactString bs ≠ .fuel := by unfold asyncCompactString; osplit
/-- over a fully delivered stream the async compact string read is the in-memory one. -/
theorem asyncCompactString_eq (bs) : asyncCompactString bs = Compact.readBytes bs := by
  unfold asyncCompactString Compact.readBytes Binary.splitTo
  split <;> simp_all

theorem compactLeaf_np (t s bs m) : compactLeaf t s bs ≠ .panic m := by
  cases t <;> simp only [compactLeaf] <;> osplit
theorem compactLeaf_nf (t s bs) : compactLeaf t s bs ≠ .fuel := by
  cases t <;> simp only [compactLeaf] <;> osplit
theorem compactLeaf_ok (t s bs s' r) (h : compactLeaf t s bs = .ok (s', r)) :
    3 * r.length + Compact.mu s' + 1 ≤ 3 * bs.length + Compact.mu s := by
  cases t <;> simp only [compactLeaf] at h
  case bool => osplit_at h; grind
  all_goals first
    | (simp at h; done)
    | (obtain ⟨rfl, a, ha⟩ := dropS_ok h; grind)

theorem asyncCompactLeaf_eq : asyncCompactLeaf = compactLeaf := by
  funext t s bs
  cases t <;> simp [asyncCompactLeaf, compactLeaf, asyncCompactString_eq]

theorem asyncBinaryLeaf_np (t s bs m) : asyncBinaryLeaf t s bs ≠ .panic m := by
  cases t <;> simp only [asyncBinaryLeaf] <;> osplit
theorem asyncBinaryLeaf_nf (t s bs) : asyncBinaryLeaf t s bs ≠ .fuel := by
  cases t <;> simp only [asyncBinaryLeaf] <;> osplit
theorem asyncBinaryLeaf_ok (t s bs s' r) (h : asyncBinaryLeaf t s bs = .ok (s', r)) : r.length + 1 ≤ bs.length := by
  cases t <;> simp only [asyncBinaryLeaf] at h
  all_goals first
    | (simp at h; done)
    | (obtain ⟨a, ha⟩ := drop1_ok h; first | grind | (have := asyncBinaryString_len ha; omega))

theorem compactPrims_good : compactPrims.Good Compact.mu where
  mu_le := Compact.mu_le
  leaf_np := compactLeaf_np
  leaf_nf := compactLeaf_nf
  leaf_ok := compactLeaf_ok
  sb_mu := fun _ => rfl
  se_np := Compact.readStructEnd_ne_panic
  se_nf := Compact.readStructEnd_ne_fuel
  se_mu := fun _ _ h => Compact.readStructEnd_mu h
  fb_np := Compact.readFieldBegin_ne_panic
  fb_nf := Compact.readFieldBegin_ne_fuel
  fb_ok := fun _ _ _ _ _ h => by have := Compact.readFieldBegin_len h; omega
  lb_np := Compact.readCollBegin_ne_panic
  lb_nf := Compact.readCollBegin_ne_fuel
  lb_ok := fun _ _ _ h => by have := Compact.readCollBegin_len h; omega
  mb_np := Compact.readMapBegin_ne_panic
  mb_nf := Compact.readMapBegin_ne_fuel
  mb_ok := fun _ _ _ h => by have := Compact.readMapBegin_len h; omega

theorem asyncCompactPrims_good : asyncCompactPrims.Good Compact.mu where
  mu_le := Compact.mu_le
  leaf_np := by rw [show asyncCompactPrims.leaf = compactLeaf from asyncCompactLeaf_eq]; exact compactLeaf_np
  leaf_nf := by rw [show asyncCompactPrims.leaf = compactLeaf from asyncCompactLeaf_eq]; exact compactLeaf_nf
  leaf_ok := by rw [show asyncCompactPrims.leaf = compactLeaf from asyncCompactLeaf_eq]; exact compactLeaf_ok
  sb_mu := fun _ => rfl
  se_np := Compact.readStructEnd_ne_panic
  se_nf := Compact.readStructEnd_ne_fuel
  se_mu := fun _ _ h => Compact.readStructEnd_mu h
  fb_np := Compact.readFieldBegin_ne_panic
  fb_nf := Compact.readFieldBegin_ne_fuel
  fb_ok := fun _ _ _ _ _ h => by have := Compact.readFieldBegin_len h; omega
  lb_np := rawCollBegin_ne_panic
  lb_nf := rawCollBegin_ne_fuel
  lb_ok := fun _ _ _ h => by have := rawCollBegin_len h; omega
  mb_np := rawCMapBegin_ne_panic
  mb_nf := rawCMapBegin_ne_fuel
  mb_ok := fun _ _ _ h => by have := rawCMapBegin_len h; omega

theorem asyncBinaryPrims_good : asyncBinaryPrims.Good (fun _ => 0) where
  mu_le := fun _ => by omega
  leaf_np := asyncBinaryLeaf_np
  leaf_nf := asyncBinaryLeaf_nf
  leaf_ok := fun t s bs s' r h => by have := asyncBinaryLeaf_ok t s bs s' r h; omega
  sb_mu := fun _ => rfl
  se_np := fun _ _ => by simp [asyncBinaryPrims]
  se_nf := fun _ => by simp [asyncBinaryPrims]
  se_mu := fun _ _ _ => rfl
  fb_np := fun s bs m => by simp only [asyncBinaryPrims]; osplit
  fb_nf := fun s bs => by simp only [asyncBinaryPrims]; osplit
  fb_ok := fun s bs x s' r h => by simp only [asyncBinaryPrims] at h; osplit_at h; grind
  lb_np := rawListBegin_ne_panic
  lb_nf := rawListBegin_ne_fuel
  lb_ok := fun _ _ _ h => by have := rawListBegin_len h; omega
  mb_np := rawMapBegin_ne_panic
  mb_nf := rawMapBegin_ne_fuel
  mb_ok := fun _ _ _ h => by have := rawMapBegin_len h; omega

end Pilota.Thrift.Skip
