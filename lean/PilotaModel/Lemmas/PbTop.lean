import PilotaModel.Lemmas.PbMerge
/-
  Top-level consequences: `Message::merge` of an encoding, round trip, concatenation.
-/
namespace Pilota.Proto
open Pilota

theorem shape_defaultMsg (s : Schema) (hs : WFSchema s = true) (i : Nat) : shapeSlots s (decls s i) (defaultMsg s i) = true := by
  by_cases hi : i < s.length
  · have := shape_defaultE s hs (.msg i) (by simp [FTy.wfIn, hi])
    unfold defaultMsg
    cases hd : defaultE s (.msg i) with
    | s x => rw [hd] at this; simp [shapeE] at this
    | msg fs => rw [hd] at this; simpa [shapeE, EVal.fields] using this
  · have hd : decls s i = [] := by
      unfold decls; rw [List.getD_eq_getElem?_getD, List.getElem?_eq_none (by omega)]; rfl
    unfold defaultMsg defaultE
    cases hl : s.length with
    | zero => simp [defaultTy, EVal.fields, hd, shapeSlots]
    | succ n => simp [defaultTy, EVal.fields, hd, defaultSlotsWith, shapeSlots]

theorem exact_defaultMsg (s : Schema) (i : Nat) : (defaultMsg s i).exactDefault = true := by
  have := exactDefault_defaultE s (.msg i)
  unfold defaultMsg
  cases hd : defaultE s (.msg i) with
  | s x => rfl
  | msg fs => rw [hd] at this; simpa [EVal.exactDefault, EVal.fields] using this

/-- `Message::merge` of the encoding of `y` into `x`, with any budget that covers `y`. -/
theorem decodeIntoCtx_encode (s : Schema) (flag : Bool) (hs : WFSchema s = true) (ctx i : Nat) (x y : Slots)
    (hy : okSlots s flag (decls s i) y = true) (hn : needSlots y ≤ ctx) (hx : shapeSlots s (decls s i) x = true) :
    decodeIntoCtx s ctx i x (encode s flag i y) = .ok (mergeVal s i x y) := by
  unfold decodeIntoCtx encode mergeVal
  have hdw := decls_wf s hs i
  have := loop_slots s flag hs [] .nil (decls s i) x y ctx rfl hdw.1 (by simpa using hdw.2) hy hn hx []
    ((encSlots s flag (decls s i) y).length + 1) (by simp)
  simp only [List.nil_append, Slots.append, List.append_nil, List.length_nil] at this
  rw [this]

theorem decodeInto_encode (s : Schema) (flag : Bool) (hs : WFSchema s = true) (i : Nat) (x y : Slots)
    (hy : HasType s flag i y) (hx : shapeSlots s (decls s i) x = true) :
    decodeInto s i x (encode s flag i y) = .ok (mergeVal s i x y) :=
  decodeIntoCtx_encode s flag hs recursionLimit i x y hy.1 hy.2 hx

theorem mergeVal_default (s : Schema) (flag : Bool) (hs : WFSchema s = true) (i : Nat) (y : Slots)
    (hy : okSlots s flag (decls s i) y = true) : mergeVal s i (defaultMsg s i) y = y :=
  mergeValSlots_default s flag hs (decls s i) (decls_wf s hs i).1 _ y (exact_defaultMsg s i) (shape_defaultMsg s hs i) hy

theorem decode_encode (s : Schema) (flag : Bool) (hs : WFSchema s = true) (i : Nat) (m : Slots) (hm : HasType s flag i m) :
    decode s i (encode s flag i m) = .ok m := by
  unfold decode
  rw [decodeInto_encode s flag hs i _ m hm (shape_defaultMsg s hs i), mergeVal_default s flag hs i m hm.1]

theorem encodedLen_encode (s : Schema) (flag : Bool) (hs : WFSchema s = true) (i : Nat) (m : Slots)
    (hm : okSlots s flag (decls s i) m = true) : encodedLen s flag i m = (encode s flag i m).length :=
  lenSlots_eq s flag hs (decls s i) (decls_wf s hs i).1 m hm

/-! ### concatenation -/

/-- if `a` decodes on its own, decoding `a ++ b` is decoding `a` and then `b` into the result. -/
theorem decodeIntoCtx_concat (s : Schema) (ctx i : Nat) (m m' : Slots) (a b : Bytes)
    (h : decodeIntoCtx s ctx i m a = .ok m') : decodeIntoCtx s ctx i m (a ++ b) = decodeIntoCtx s ctx i m' b := by
  unfold decodeIntoCtx at h ⊢
  have hstep : StepOK (fieldStep (mergeField s ctx) (decls s i)) := fieldStep_ok _ (mergeField_ok s ctx) _
  have hstab : StableStep (fieldStep (mergeField s ctx) (decls s i)) := fieldStep_stable _ (mergeField_stable s ctx) _
  cases hl : mergeLoopGo (fieldStep (mergeField s ctx) (decls s i)) (a.length + 1) m a 0 with
  | ok p =>
    obtain ⟨m1, r⟩ := p
    rw [hl] at h
    simp only [Out.ok.injEq] at h
    subst h
    have hr : r = [] := by
      have g := mergeLoopGo_good _ hstep 0 (a.length + 1) m a (by omega)
      rw [hl] at g; simp only [Out.good] at g
      exact List.eq_nil_of_length_eq_zero g.2
    subst hr
    have h1 := mergeLoopGo_append _ hstab 0 b (a.length + 1) m a m1 [] hl
    simp only [Nat.zero_add, List.nil_append] at h1
    have h2 := mergeLoopGo_fuel_mono _ _ _ m (a ++ b) _ h1 b.length
    have e : (a ++ b).length + 1 = a.length + 1 + b.length := by simp; omega
    have h3 := mergeLoopGo_split _ hstep b.length 0 (Nat.zero_le _) ((a ++ b).length + 1) m (a ++ b) m1 b (by omega) (by rw [e]; exact h2)
    rw [h3]
    rw [mergeLoopGo_fuel_indep _ hstep 0 ((a ++ b).length + 1) (b.length + 1) m1 b (by simp; omega) (by omega)]
  | err k => rw [hl] at h; simp at h
  | panic e => rw [hl] at h; simp at h
  | fuel => rw [hl] at h; simp at h

theorem decode_concat_encode (s : Schema) (flag : Bool) (hs : WFSchema s = true) (i : Nat) (x y : Slots)
    (hx : HasType s flag i x) (hy : HasType s flag i y) :
    decode s i (encode s flag i x ++ encode s flag i y) = .ok (mergeVal s i x y) := by
  have h1 := decode_encode s flag hs i x hx
  unfold decode decodeInto at h1 ⊢
  rw [decodeIntoCtx_concat s recursionLimit i _ x _ _ h1]
  exact decodeInto_encode s flag hs i x y hy (okSlots_shape s flag _ x hx.1)

end Pilota.Proto
