import PilotaModel.Lemmas.BinaryRT
import PilotaModel.Thrift.Async
/-  Chunk boundaries and pending polls are unobservable: running an async program on a stream is
    running it on the flattened bytes. -/
namespace Pilota.Thrift.Async
open Pilota Pilota.Thrift

theorem flat_pushBack (c : Bytes) (s : Stream) : flat (pushBack c s) = c ++ flat s := by
  cases c <;> simp [pushBack, flat]

theorem take_app_add (a b : Bytes) (k : Nat) : (a ++ b).take (a.length + k) = a ++ b.take k := by
  induction a with
  | nil => simp
  | cons x a ih => simpa [Nat.succ_add] using ih

theorem drop_app_add (a b : Bytes) (k : Nat) : (a ++ b).drop (a.length + k) = b.drop k := by
  induction a with
  | nil => simp
  | cons x a ih => simpa [Nat.succ_add] using ih

theorem takeN_ok (n : Nat) (bs b r : Bytes) (h : Binary.takeN n bs = .ok (b, r)) : bs = b ++ r ∧ b.length = n := by
  unfold Binary.takeN at h
  split at h
  · simp only [Out.ok.injEq, Prod.mk.injEq] at h
    obtain ⟨rfl, rfl⟩ := h
    exact ⟨by simp, by simp; omega⟩
  · cases h

theorem takeN_zero (bs : Bytes) : Binary.takeN 0 bs = .ok ([], bs) := by simp [Binary.takeN]

/-- `read_exact` & co. see only the flattened bytes. -/
theorem readExact_flat (n : Nat) (s : Stream) : flatOut (readExact n s) = Binary.takeN n (flat s) := by
  induction s generalizing n with
  | nil => cases n <;> simp [readExact, flatOut, flat, Binary.takeN]
  | cons ev s ih =>
    cases n with
    | zero => simp [readExact, flatOut, Binary.takeN]
    | succ n =>
      cases ev with
      | pending => simpa [readExact, flat] using ih (n + 1)
      | data b bs =>
        simp only [readExact, flat]
        by_cases hfit : bs.length + 1 ≤ n + 1
        · simp only [hfit, if_true]
          have hi := ih (n - bs.length)
          have hlen : (b :: bs).length = bs.length + 1 := rfl
          cases hx : readExact (n - bs.length) s with
          | ok p =>
            obtain ⟨a, s'⟩ := p
            simp only [hx, flatOut] at hi ⊢
            unfold Binary.takeN at hi ⊢
            split at hi
            · rename_i hle
              simp only [Out.ok.injEq, Prod.mk.injEq] at hi
              have hle2 : n + 1 ≤ (b :: bs ++ flat s).length := by simp; omega
              simp only [hle2, if_true, Out.ok.injEq, Prod.mk.injEq]
              have e1 : n + 1 = (b :: bs).length + (n - bs.length) := by simp; omega
              constructor
              · rw [e1, take_app_add, hi.1]
              · rw [e1, drop_app_add, hi.2]
            · cases hi
          | err k =>
            simp only [hx, flatOut] at hi ⊢
            unfold Binary.takeN at hi ⊢
            split at hi
            · cases hi
            · rename_i hnle
              have : ¬ (n + 1 ≤ (b :: bs ++ flat s).length) := by simp; omega
              simp only [this, if_false]; exact hi
          | panic m =>
            simp only [hx, flatOut] at hi
            unfold Binary.takeN at hi; split at hi <;> cases hi
          | fuel =>
            simp only [hx, flatOut] at hi
            unfold Binary.takeN at hi; split at hi <;> cases hi
        · simp only [hfit, if_false, flatOut, flat_pushBack]
          have hle : n + 1 ≤ (b :: bs).length := by simp; omega
          have hle2 : n + 1 ≤ (b :: bs ++ flat s).length := by simp; omega
          simp only [Binary.takeN, hle2, if_true, Out.ok.injEq, Prod.mk.injEq]
          constructor
          · rw [List.take_append_of_le_length hle]
          · rw [List.drop_append_of_le_length hle]

/-- `take(len).read_to_end` followed by the length test is `read_exact(len)`. -/
theorem readExactToVec_eq (n : Nat) (s : Stream) : readExactToVec n s = readExact n s := by
  induction s generalizing n with
  | nil => cases n <;> simp [readExactToVec, takeReadToEnd, readExact]
  | cons ev s ih =>
    cases n with
    | zero => simp [readExactToVec, takeReadToEnd, readExact]
    | succ n =>
      cases ev with
      | pending =>
        have := ih (n + 1)
        simp only [readExactToVec, takeReadToEnd, readExact] at this ⊢
        exact this
      | data b bs =>
        by_cases hfit : bs.length + 1 ≤ n + 1
        · have hi := ih (n - bs.length)
          simp only [readExactToVec] at hi
          simp only [readExactToVec, takeReadToEnd, readExact, hfit, if_true]
          rw [← hi]
          have hiff : ∀ a : Bytes, ((b :: bs ++ a).length = n + 1) ↔ (a.length = n - bs.length) := by
            intro a; simp; omega
          by_cases hl : (takeReadToEnd (n - bs.length) s).1.length = n - bs.length
          · have hl' := (hiff _).mpr hl
            simp only [hl, hl', if_true]
          · have hl' : ¬ ((b :: bs ++ (takeReadToEnd (n - bs.length) s).1).length = n + 1) := fun h => hl ((hiff _).mp h)
            simp only [hl, hl', if_false]
        · have hlen : ((b :: bs).take (n + 1)).length = n + 1 := by
            rw [List.length_take]; simp; omega
          simp only [readExactToVec, takeReadToEnd, readExact, hfit, if_false, hlen, if_true]

/-- the central lemma: a program run on a stream = the program run on the flattened bytes. -/
theorem runS_flat {α} (p : Prog α) (s : Stream) : flatOut (runS p s) = runF p (flat s) := by
  induction p generalizing s with
  | ret a => rfl
  | fail k => rfl
  | fuelOut => rfl
  | need n k ih =>
    simp only [runS, runF]
    have h := readExact_flat n s
    cases hx : readExact n s with
    | ok q =>
      obtain ⟨b, s'⟩ := q
      simp only [hx, flatOut] at h
      simp only [← h]
      exact ih b s'
    | err e => simp only [hx, flatOut] at h; simp [← h, flatOut]
    | panic m => simp only [hx, flatOut] at h; simp [← h, flatOut]
    | fuel => simp only [hx, flatOut] at h; simp [← h, flatOut]

/-- sequencing, on flat bytes. -/
def bindP {α β} (x : Out (α × Bytes)) (F : α → Bytes → Out (β × Bytes)) : Out (β × Bytes) :=
  match x with
  | .ok (a, r) => F a r
  | .err k => .err k | .panic m => .panic m | .fuel => .fuel

theorem runF_bind {α β} (p : Prog α) (f : α → Prog β) (bs : Bytes) :
    runF (p.bind f) bs = bindP (runF p bs) (fun a r => runF (f a) r) := by
  induction p generalizing bs with
  | ret a => rfl
  | fail k => rfl
  | fuelOut => rfl
  | need n k ih =>
    simp only [Prog.bind, runF]
    cases Binary.takeN n bs with
    | ok q => obtain ⟨b, r⟩ := q; exact ih b r
    | err e => rfl
    | panic m => rfl
    | fuel => rfl

theorem bindP_ok {α β} (x : Out (α × Bytes)) (F : α → Bytes → Out (β × Bytes)) (q : β × Bytes) :
    bindP x F = .ok q ↔ ∃ a r, x = .ok (a, r) ∧ F a r = .ok q := by
  cases x with
  | ok p =>
    obtain ⟨a, r⟩ := p
    simp only [bindP, Out.ok.injEq, Prod.mk.injEq]
    constructor
    · intro h; exact ⟨a, r, ⟨rfl, rfl⟩, h⟩
    · rintro ⟨a1, r1, ⟨rfl, rfl⟩, h⟩; exact h
  | err k => simp [bindP]
  | panic m => simp [bindP]
  | fuel => simp [bindP]

/-- an async program has no panic site: a short read is an error. -/
theorem runF_not_panic {α} (p : Prog α) (bs : Bytes) : (runF p bs).isPanic = false := by
  induction p generalizing bs with
  | ret a => rfl
  | fail k => rfl
  | fuelOut => rfl
  | need n k ih =>
    simp only [runF]
    cases hx : Binary.takeN n bs with
    | ok q => obtain ⟨b, r⟩ := q; exact ih b r
    | err e => rfl
    | panic m => unfold Binary.takeN at hx; split at hx <;> cases hx
    | fuel => rfl

/-- a program only ever consumes a prefix. -/
theorem runF_suffix {α} (p : Prog α) (bs : Bytes) (a : α) (r : Bytes) (h : runF p bs = .ok (a, r)) :
    ∃ pre, bs = pre ++ r := by
  induction p generalizing bs with
  | ret x => simp only [runF, Out.ok.injEq, Prod.mk.injEq] at h; exact ⟨[], by simp [h.2]⟩
  | fail k => cases h
  | fuelOut => cases h
  | need n k ih =>
    simp only [runF] at h
    cases hx : Binary.takeN n bs with
    | ok q =>
      obtain ⟨b, r1⟩ := q
      simp only [hx] at h
      obtain ⟨pre, hp⟩ := ih _ _ h
      obtain ⟨hb, _⟩ := takeN_ok n bs b r1 hx
      exact ⟨b ++ pre, by rw [hb, hp, List.append_assoc]⟩
    | err e => simp [hx] at h
    | panic m => simp [hx] at h
    | fuel => simp [hx] at h

theorem runF_le {α} (p : Prog α) (bs : Bytes) (a : α) (r : Bytes) (h : runF p bs = .ok (a, r)) :
    r.length ≤ bs.length := by
  obtain ⟨pre, rfl⟩ := runF_suffix p bs a r h
  simp

/-- a program that starts by pulling at least one byte consumes at least one byte. -/
theorem runF_need_lt {α} (n : Nat) (hn : 0 < n) (k : Bytes → Prog α) (bs : Bytes) (a : α) (r : Bytes)
    (h : runF (.need n k) bs = .ok (a, r)) : r.length < bs.length := by
  simp only [runF] at h
  cases hx : Binary.takeN n bs with
  | ok q =>
    obtain ⟨b, r1⟩ := q
    simp only [hx] at h
    have := runF_le _ _ _ _ h
    obtain ⟨hb, hl⟩ := takeN_ok n bs b r1 hx
    rw [hb]; simp; omega
  | err e => simp [hx] at h
  | panic m => simp [hx] at h
  | fuel => simp [hx] at h

end Pilota.Thrift.Async
