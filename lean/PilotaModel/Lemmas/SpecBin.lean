import PilotaModel.Lemmas.SpecBase
import PilotaModel.Lemmas.Fuel
/-  Binary protocol: pilota's writer produces a legal encoding; pilota's reader reads every legal encoding. -/
namespace Pilota.Thrift.SpecBin
open Pilota Pilota.Thrift Pilota.Thrift.Spec

/-! ### the canonical encoder is in the relation, and is what pilota writes -/
mutual
theorem encode_is_spec (v : TVal) (hw : v.wt = true) : Enc v (encode v) := by
  cases v with
  | bool b => cases b <;> simp only [encode] <;> first | exact Enc.boolF | exact Enc.boolT 1 (by decide)
  | i8 n => simp [TVal.wt] at hw; exact Enc.i8 n hw
  | i16 n => simp [TVal.wt] at hw; exact Enc.i16 n hw
  | i32 n => simp [TVal.wt] at hw; exact Enc.i32 n hw
  | i64 n => simp [TVal.wt] at hw; exact Enc.i64 n hw
  | dbl b => simp [TVal.wt] at hw; exact Enc.dbl b hw
  | bin bs => simp [TVal.wt] at hw; exact Enc.bin bs hw
  | uuid bs => simp [TVal.wt] at hw; exact Enc.uuid bs hw
  | struct fs => simp [TVal.wt] at hw; exact Enc.struct fs _ (encodeFields_is_spec fs hw)
  | list et xs =>
    simp [TVal.wt] at hw
    obtain ⟨⟨he, hl⟩, hx⟩ := hw
    simp only [encode, binCode_value et he, Option.getD_some]
    exact Enc.list et _ xs _ (binCode_value et he) hl (encodeVals_is_spec et xs hx)
  | set et xs =>
    simp [TVal.wt] at hw
    obtain ⟨⟨he, hl⟩, hx⟩ := hw
    simp only [encode, binCode_value et he, Option.getD_some]
    exact Enc.set et _ xs _ (binCode_value et he) hl (encodeVals_is_spec et xs hx)
  | map kt vt kvs =>
    simp [TVal.wt] at hw
    obtain ⟨⟨⟨hk, hv⟩, hl⟩, hx⟩ := hw
    simp only [encode, binCode_value kt hk, binCode_value vt hv, Option.getD_some]
    exact Enc.map kt vt _ _ kvs _ (binCode_value kt hk) (binCode_value vt hv) hl (encodePairs_is_spec kt vt kvs hx)
theorem encodeVals_is_spec (et : TType) (xs : TVals) (hw : xs.wt et = true) : EncVals et xs (encodeVals xs) := by
  cases xs with
  | nil => exact EncVals.nil et
  | cons v vs =>
    simp [TVals.wt] at hw
    exact EncVals.cons et v vs _ _ hw.1.1 (encode_is_spec v hw.1.2) (encodeVals_is_spec et vs hw.2)
theorem encodeFields_is_spec (fs : TFields) (hw : fs.wt = true) : EncFields fs (encodeFields fs) := by
  cases fs with
  | nil => exact EncFields.nil
  | cons id v rest =>
    simp [TFields.wt] at hw
    have hc := binCode_value v.ttype (Binary.val_ttype_isValue v)
    simp only [encodeFields, hc, Option.getD_some]
    exact EncFields.cons id v rest _ _ _ hw.1.1 hc (encode_is_spec v hw.1.2) (encodeFields_is_spec rest hw.2)
theorem encodePairs_is_spec (kt vt : TType) (kvs : TPairs) (hw : kvs.wt kt vt = true) : EncPairs kt vt kvs (encodePairs kvs) := by
  cases kvs with
  | nil => exact EncPairs.nil kt vt
  | cons k v rest =>
    simp [TPairs.wt] at hw
    exact EncPairs.cons kt vt k v rest _ _ _ hw.1.1.1.1 hw.1.1.1.2 (encode_is_spec k hw.1.1.2) (encode_is_spec v hw.1.2)
      (encodePairs_is_spec kt vt rest hw.2)
end

mutual
theorem enc_eq_encode (v : TVal) (hw : v.wt = true) : Binary.enc .be v = encode v := by
  cases v with
  | bool b => rfl
  | i8 n => simp [TVal.wt] at hw; simp [Binary.enc, encode, be_twos 1 n hw]
  | i16 n => simp [TVal.wt] at hw; simp [Binary.enc, encode, be_twos 2 n hw]
  | i32 n => simp [TVal.wt] at hw; simp [Binary.enc, encode, be_twos 4 n hw]
  | i64 n => simp [TVal.wt] at hw; simp [Binary.enc, encode, be_twos 8 n hw]
  | dbl b => simp [Binary.enc, encode, be_dbl]
  | bin bs => simp [TVal.wt] at hw; simp [Binary.enc, encode, be_len _ hw]
  | uuid bs => rfl
  | struct fs => simp [TVal.wt] at hw; simp [Binary.enc, encode, encFields_eq fs hw]
  | list et xs =>
    simp [TVal.wt] at hw
    simp [Binary.enc, encode, binCode_value et hw.1.1, be_len _ hw.1.2, encVals_eq et xs hw.2]
  | set et xs =>
    simp [TVal.wt] at hw
    simp [Binary.enc, encode, binCode_value et hw.1.1, be_len _ hw.1.2, encVals_eq et xs hw.2]
  | map kt vt kvs =>
    simp [TVal.wt] at hw
    simp [Binary.enc, encode, binCode_value kt hw.1.1.1, binCode_value vt hw.1.1.2, be_len _ hw.1.2, encPairs_eq kt vt kvs hw.2]
theorem encVals_eq (et : TType) (xs : TVals) (hw : xs.wt et = true) : Binary.encVals .be xs = encodeVals xs := by
  cases xs with
  | nil => rfl
  | cons v vs => simp [TVals.wt] at hw; simp [Binary.encVals, encodeVals, enc_eq_encode v hw.1.2, encVals_eq et vs hw.2]
theorem encFields_eq (fs : TFields) (hw : fs.wt = true) : Binary.encFields .be fs = encodeFields fs := by
  cases fs with
  | nil => rfl
  | cons id v rest =>
    simp [TFields.wt] at hw
    simp [Binary.encFields, encodeFields, binCode_value v.ttype (Binary.val_ttype_isValue v), be_twos 2 id hw.1.1,
      enc_eq_encode v hw.1.2, encFields_eq rest hw.2]
theorem encPairs_eq (kt vt : TType) (kvs : TPairs) (hw : kvs.wt kt vt = true) : Binary.encPairs .be kvs = encodePairs kvs := by
  cases kvs with
  | nil => rfl
  | cons k v rest =>
    simp [TPairs.wt] at hw
    simp [Binary.encPairs, encodePairs, enc_eq_encode k hw.1.1.2, enc_eq_encode v hw.1.2, encPairs_eq kt vt rest hw.2]
end

/-! ### size facts about legal encodings (reader budget, container-size check) -/
mutual
theorem enc_size (v : TVal) (bs : Bytes) (h : Enc v bs) : v.size + 1 ≤ 3 * bs.length := by
  cases h with
  | boolT x hx => simp [TVal.size]
  | boolF => simp [TVal.size]
  | i8 n hn => simp [TVal.size, be]
  | i16 n hn => simp [TVal.size, be]
  | i32 n hn => simp [TVal.size, be]
  | i64 n hn => simp [TVal.size, be]
  | dbl b hb => simp [TVal.size, be]
  | bin p hp => simp [TVal.size, be]; omega
  | uuid p hp => simp [TVal.size, hp]
  | struct fs bs hf => have := encFields_size fs bs hf; simp [TVal.size]; omega
  | list et c xs b hc hl hx => have := encVals_size et xs b hx; simp [TVal.size, be]; omega
  | set et c xs b hc hl hx => have := encVals_size et xs b hx; simp [TVal.size, be]; omega
  | map kt vt ck cv kvs b hk hv hl hx => have := encPairs_size kt vt kvs b hx; simp [TVal.size, be]; omega
theorem encVals_size (et : TType) (xs : TVals) (bs : Bytes) (h : EncVals et xs bs) :
    xs.size ≤ 3 * bs.length + 1 ∧ xs.length ≤ bs.length := by
  cases h with
  | nil => simp [TVals.size, TVals.length]
  | cons _ v vs a b ht hv hr =>
    have h1 := enc_size v a hv
    have h2 := encVals_size et vs b hr
    simp [TVals.size, TVals.length]; omega
theorem encFields_size (fs : TFields) (bs : Bytes) (h : EncFields fs bs) : fs.size + 2 ≤ 3 * bs.length := by
  cases h with
  | nil => simp [TFields.size]
  | cons id v rest c a b hid hc hv hr =>
    have h1 := enc_size v a hv
    have h2 := encFields_size rest b hr
    simp [TFields.size, be]; omega
theorem encPairs_size (kt vt : TType) (kvs : TPairs) (bs : Bytes) (h : EncPairs kt vt kvs bs) :
    kvs.size ≤ 3 * bs.length + 1 ∧ kvs.length ≤ bs.length := by
  cases h with
  | nil => simp [TPairs.size, TPairs.length]
  | cons _ _ k v rest a b c hk hv ek ev hr =>
    have h1 := enc_size k a ek
    have h2 := enc_size v b ev
    have h3 := encPairs_size kt vt rest c hr
    simp [TPairs.size, TPairs.length]; omega
end

theorem u8_ne_zero_toNat (x : UInt8) (h : x ≠ 0) : x.toNat ≠ 0 := by
  intro h0; apply h; exact UInt8.toNat_inj.mp (by simpa using h0)

theorem toS1_ne_zero (x : UInt8) (h : x ≠ 0) : (toS 1 x.toNat != 0) = true := by
  have h1 := u8_ne_zero_toNat x h
  have h2 := x.toNat_lt
  unfold toS
  have e : (256:Nat) ^ 1 = 256 := by decide
  rw [e]
  have : x.toNat % 256 = x.toNat := Nat.mod_eq_of_lt (by omega)
  rw [this]
  split <;> simp <;> omega

theorem readTType_code (t : TType) (c : Nat) (hc : binCode t = some c) (r : Bytes) :
    Binary.readTType (UInt8.ofNat c :: r) = .ok (t, r) := by
  obtain ⟨_, rfl⟩ := binCode_some t c hc
  exact Binary.readTType_cons t r

/-! ### pilota's reader reads every legal encoding -/
mutual
theorem readVal_of_enc (v : TVal) (bs : Bytes) (h : Enc v bs) (f : Nat) (hf : v.size ≤ f) (r : Bytes) :
    Binary.readVal .be f v.ttype (bs ++ r) = .ok (v, r) := by
  cases f with
  | zero => cases v <;> simp [TVal.size] at hf
  | succ f =>
    cases h with
    | boolT x hx =>
      simp [TVal.ttype, Binary.readVal, Binary.readI, Binary.readU, Binary.takeN, decFixed, beToNat, leToNat, toS1_ne_zero x hx]
    | boolF => simp [TVal.ttype, Binary.readVal, Binary.readI, Binary.readU, Binary.takeN, decFixed, beToNat, leToNat]; decide
    | i8 n hn => simp [TVal.ttype, Binary.readVal, be_twos 1 n hn, Binary.readI_i .be 1 (by decide) n hn]
    | i16 n hn => simp [TVal.ttype, Binary.readVal, be_twos 2 n hn, Binary.readI_i .be 2 (by decide) n hn]
    | i32 n hn => simp [TVal.ttype, Binary.readVal, be_twos 4 n hn, Binary.readI_i .be 4 (by decide) n hn]
    | i64 n hn => simp [TVal.ttype, Binary.readVal, be_twos 8 n hn, Binary.readI_i .be 8 (by decide) n hn]
    | dbl b hb =>
      have : b % 256 ^ 8 = b := Nat.mod_eq_of_lt (by have : (256:Nat)^8 = 2^64 := by decide
                                                     omega)
      simp [TVal.ttype, Binary.readVal, be_dbl, Binary.readU_enc, this]
    | bin p hp => simp [TVal.ttype, Binary.readVal, be_len _ hp, Binary.readBytes_enc .be p r hp, List.append_assoc]
    | uuid p hp => simp [TVal.ttype, Binary.readVal, Binary.takeN_append' 16 _ r hp]
    | struct fs bs hfs =>
      simp [TVal.size] at hf
      simp [TVal.ttype, Binary.readVal, readFields_of_enc fs bs hfs f hf r]
    | list et c xs b hc hl hx =>
      simp [TVal.size] at hf
      obtain ⟨_, rfl⟩ := binCode_some et c hc
      have hlen := (encVals_size et xs b hx).2
      simp only [TVal.ttype, Binary.readVal, List.cons_append, List.append_assoc, be_len _ hl]
      rw [Binary.readListBegin_enc .be et _ hl _ (by simp; omega)]
      simp [readN_of_enc et xs b hx f hf r]
    | set et c xs b hc hl hx =>
      simp [TVal.size] at hf
      obtain ⟨_, rfl⟩ := binCode_some et c hc
      have hlen := (encVals_size et xs b hx).2
      simp only [TVal.ttype, Binary.readVal, List.cons_append, List.append_assoc, be_len _ hl]
      rw [Binary.readListBegin_enc .be et _ hl _ (by simp; omega)]
      simp [readN_of_enc et xs b hx f hf r]
    | map kt vt ck cv kvs b hk hv hl hx =>
      simp [TVal.size] at hf
      obtain ⟨_, rfl⟩ := binCode_some kt ck hk
      obtain ⟨_, rfl⟩ := binCode_some vt cv hv
      have hlen := (encPairs_size kt vt kvs b hx).2
      simp only [TVal.ttype, Binary.readVal, List.cons_append, List.append_assoc, be_len _ hl]
      rw [Binary.readMapBegin_enc .be kt vt _ hl _ (by simp; omega)]
      simp [readPairs_of_enc kt vt kvs b hx f hf r]
theorem readFields_of_enc (fs : TFields) (bs : Bytes) (h : EncFields fs bs) (f : Nat) (hf : fs.size ≤ f) (r : Bytes) :
    Binary.readFields .be f (bs ++ r) = .ok (fs, r) := by
  cases f with
  | zero => cases fs <;> simp [TFields.size] at hf
  | succ f =>
    cases h with
    | nil => simp [Binary.readFields, Binary.readFieldBegin, Binary.readTType, Binary.readByte, TType.ofByte]
    | cons id v rest c a b hid hc hv hr =>
      simp [TFields.size] at hf
      obtain ⟨_, rfl⟩ := binCode_some v.ttype c hc
      have hns : v.ttype ≠ .stop := Binary.ttype_isValue_ne_stop _ (Binary.val_ttype_isValue v)
      simp only [Binary.readFields, Binary.readFieldBegin, List.cons_append, List.append_assoc, Binary.readTType_cons, hns, if_false,
        be_twos 2 id hid]
      rw [Binary.readI_i .be 2 (by decide) id hid]
      simp only [hns, if_false]
      rw [readVal_of_enc v a hv f (by omega)]; dsimp only
      rw [readFields_of_enc rest b hr f (by omega)]
theorem readN_of_enc (et : TType) (xs : TVals) (bs : Bytes) (h : EncVals et xs bs) (f : Nat) (hf : xs.size ≤ f) (r : Bytes) :
    Binary.readN .be f et xs.length (bs ++ r) = .ok (xs, r) := by
  cases f with
  | zero => cases xs <;> simp [TVals.size] at hf
  | succ f =>
    cases h with
    | nil => simp [Binary.readN, TVals.length]
    | cons _ v vs a b ht hv hr =>
      simp [TVals.size] at hf
      simp only [TVals.length, Binary.readN, List.append_assoc]
      rw [← ht, readVal_of_enc v a hv f (by omega)]; dsimp only
      rw [ht, readN_of_enc et vs b hr f (by omega)]
theorem readPairs_of_enc (kt vt : TType) (kvs : TPairs) (bs : Bytes) (h : EncPairs kt vt kvs bs) (f : Nat) (hf : kvs.size ≤ f) (r : Bytes) :
    Binary.readPairs .be f kt vt kvs.length (bs ++ r) = .ok (kvs, r) := by
  cases f with
  | zero => cases kvs <;> simp [TPairs.size] at hf
  | succ f =>
    cases h with
    | nil => simp [Binary.readPairs, TPairs.length]
    | cons _ _ k v rest a b c hk hv ek ev hr =>
      simp [TPairs.size] at hf
      simp only [TPairs.length, Binary.readPairs, List.append_assoc]
      rw [← hk, readVal_of_enc k a ek f (by omega)]; dsimp only
      rw [← hv, readVal_of_enc v b ev f (by omega)]; dsimp only
      rw [hk, hv, readPairs_of_enc kt vt rest c hr f (by omega)]
end

end Pilota.Thrift.SpecBin
