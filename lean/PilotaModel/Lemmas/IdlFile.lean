import PilotaModel.Lemmas.IdlService
/-
  C15: items and the document loop (`many_till(tuple((opt(blank), Item::parse, opt(blank))), eof)`).
-/
namespace Pilota.Idl

/-- the stage reached by the round-trip proof: which item kinds `file_rt_partial` covers -/
def Item.supported : Item → Bool
  | .include _ | .cppInclude _ | .namespace _ | .typedef _ | .enum _ => true
  | .constant c => c.value.supported
  | .struct s | .union s | .exception s => s.supported
  | .service s => s.supported

def Item.depth : Item → Nat
  | .typedef t => t.ty.depth
  | .constant c => c.depth
  | .struct s | .union s | .exception s => s.depth
  | .service s => s.depth
  | _ => 0

def File.depth (f : File) : Nat := (f.items.map Item.depth).foldl max 0

theorem item_depth_le {f : File} {it : Item} (h : it ∈ f.items) : it.depth ≤ f.depth :=
  (foldl_max_le _ 0).2 _ (List.mem_map_of_mem h)

/-! ### item keyword dispatch -/

theorem itemKeyword_rt {k0 : Char} {ks r : List Char} (h0 : k0.isAlpha = true) (hks : ∀ c ∈ ks, isIdentChar c = true)
    (hr : hdP (fun c => !isIdentChar c) r = true) : itemKeyword (k0 :: ks ++ r) = .ok (k0 :: ks) (k0 :: ks ++ r) := by
  have := takeWhile_append_stop (f := isIdentChar) (a := ks) (r := r) hks hr
  have ht := take_append_length_sub (k0 :: ks) r
  simp only [List.cons_append] at ht
  simp only [itemKeyword, peek, recognize, andThen, satisfy, List.cons_append, h0, if_true, PR.bind, takeWhile,
    this.1, this.2]
  rw [ht]

/-- every item text starts with its keyword followed by a non-empty blank -/
theorem keyword_then_blank (kw : List Char) (l : Layout) (x : List Char) :
    hdP (fun c => !isIdentChar c) ((rB1 l).1 ++ x) = true :=
  ((rB1_BT l).sep_append (Or.inl (rB1_ne l))).noIdent

theorem item_rt {it : Item} (hw : it.wf = true) (hs : it.supported = true) {d : Nat} (hd : it.depth < d)
    (last : Bool) (l : Layout) {R : List Char} (hlast : last = true → R = []) (hR : ItemStart R) :
    ∃ g, BT g ∧ Item.parse d ((rItem it last l).1 ++ R) = .ok it (g ++ R) := by
  match it, hw, hs, hd with
  | .include p, hw, _, _ =>
    obtain ⟨g, hg, h⟩ := include_rt (p := p) hw last l hR
    refine ⟨g, hg, ?_⟩
    have hk : itemKeyword ((rItem (.include p) last l).1 ++ R) = .ok cs!"include" ((rItem (.include p) last l).1 ++ R) := by
      simp only [rItem, rSeq_fst, rLit_fst, List.append_assoc]
      exact itemKeyword_rt (by decide) (by decide) (keyword_then_blank cs!"include" _ _)
    unfold Item.parse
    rw [andThen_of_ok hk]
    simp only [List.cons.injEq, Char.reduceEq, false_and, and_false, if_false, if_true, reduceIte]
    exact pmap_of_ok h
  | .cppInclude p, hw, _, _ =>
    obtain ⟨g, hg, h⟩ := cppInclude_rt (p := p) hw last l hR
    refine ⟨g, hg, ?_⟩
    have hk : itemKeyword ((rItem (.cppInclude p) last l).1 ++ R) = .ok cs!"cpp_include" ((rItem (.cppInclude p) last l).1 ++ R) := by
      simp only [rItem, rSeq_fst, rLit_fst, List.append_assoc]
      exact itemKeyword_rt (by decide) (by decide) (keyword_then_blank cs!"cpp_include" _ _)
    unfold Item.parse
    rw [andThen_of_ok hk]
    simp only [List.cons.injEq, Char.reduceEq, false_and, and_false, if_false, if_true, reduceIte]
    exact pmap_of_ok h
  | .namespace n, hw, _, _ =>
    have h := namespace_rt (n := n) hw last l hlast hR
    refine ⟨[], BT.nil, ?_⟩
    have hk : itemKeyword ((rItem (.namespace n) last l).1 ++ R) = .ok cs!"namespace" ((rItem (.namespace n) last l).1 ++ R) := by
      simp only [rItem, rNamespace, rSeq_fst, rLit_fst, List.append_assoc]
      exact itemKeyword_rt (by decide) (by decide) (keyword_then_blank cs!"namespace" _ _)
    unfold Item.parse
    rw [andThen_of_ok hk]
    simp only [List.cons.injEq, Char.reduceEq, false_and, and_false, if_false, if_true, reduceIte]
    exact pmap_of_ok h
  | .typedef t, hw, _, hd =>
    obtain ⟨g, hg, h⟩ := typedef_rt (t := t) hw hd last l hlast hR
    refine ⟨g, hg, ?_⟩
    have hk : itemKeyword ((rItem (.typedef t) last l).1 ++ R) = .ok cs!"typedef" ((rItem (.typedef t) last l).1 ++ R) := by
      simp only [rItem, rTypedef, rSeq_fst, rLit_fst, List.append_assoc]
      exact itemKeyword_rt (by decide) (by decide) (keyword_then_blank cs!"typedef" _ _)
    unfold Item.parse
    rw [andThen_of_ok hk]
    simp only [List.cons.injEq, Char.reduceEq, false_and, and_false, if_false, if_true, reduceIte]
    exact pmap_of_ok h
  | .constant c, hw, hs, hd =>
    obtain ⟨g, hg, h⟩ := constant_rt (c := c) hw hs hd last l hlast hR
    refine ⟨g, hg, ?_⟩
    have hk : itemKeyword ((rItem (.constant c) last l).1 ++ R) = .ok cs!"const" ((rItem (.constant c) last l).1 ++ R) := by
      simp only [rItem, rConstant, rSeq_fst, rLit_fst, List.append_assoc]
      exact itemKeyword_rt (by decide) (by decide) (keyword_then_blank cs!"const" _ _)
    unfold Item.parse
    rw [andThen_of_ok hk]
    simp only [List.cons.injEq, Char.reduceEq, false_and, and_false, if_false, if_true, reduceIte]
    exact pmap_of_ok h
  | .enum e, hw, _, hd =>
    have htext : (rItem (.enum e) last l).1 ++ R = (rEnum e l).1 ++ ((rB0 (rEnum e l).2).1 ++ R) := by
      simp only [rItem, rSeq_fst, List.append_assoc]
    obtain ⟨g, hg, h⟩ := enum_rt (e := e) hw l (rB0_BT (rEnum e l).2) hR
    refine ⟨g, hg, ?_⟩
    have hk : itemKeyword ((rItem (.enum e) last l).1 ++ R) = .ok cs!"enum" ((rItem (.enum e) last l).1 ++ R) := by
      simp only [rItem, rEnum, rSeq_fst, rLit_fst, List.append_assoc]
      exact itemKeyword_rt (by decide) (by decide) (keyword_then_blank cs!"enum" _ _)
    unfold Item.parse
    rw [andThen_of_ok hk]
    simp only [List.cons.injEq, Char.reduceEq, false_and, and_false, if_false, if_true, reduceIte]
    rw [htext]
    exact pmap_of_ok h
  | .struct s, hw, hs, hd =>
    obtain ⟨g, hg, h⟩ := structItem_rt cs!"struct" Struct.parse (fun _ => rfl) (s := s) hw hs hd last l hR
    refine ⟨g, hg, ?_⟩
    have htext : (rItem (.struct s) last l).1 ++ R = cs!"struct" ++ ((rB1 l).1 ++ ((rStructLike s last (rB1 l).2).1 ++ R)) := by
      simp only [rItem, rSeq_fst, rSeq_snd, rLit_fst, rLit_snd, List.append_assoc]
    have hk : itemKeyword ((rItem (.struct s) last l).1 ++ R) = .ok cs!"struct" ((rItem (.struct s) last l).1 ++ R) := by
      rw [htext]
      exact itemKeyword_rt (by decide) (by decide) (keyword_then_blank cs!"struct" _ _)
    unfold Item.parse
    rw [andThen_of_ok hk]
    simp only [List.cons.injEq, Char.reduceEq, false_and, and_false, if_false, if_true, reduceIte]
    rw [htext]
    exact pmap_of_ok h
  | .union s, hw, hs, hd =>
    obtain ⟨g, hg, h⟩ := structItem_rt cs!"union" Union.parse (fun _ => rfl) (s := s) hw hs hd last l hR
    refine ⟨g, hg, ?_⟩
    have htext : (rItem (.union s) last l).1 ++ R = cs!"union" ++ ((rB1 l).1 ++ ((rStructLike s last (rB1 l).2).1 ++ R)) := by
      simp only [rItem, rSeq_fst, rSeq_snd, rLit_fst, rLit_snd, List.append_assoc]
    have hk : itemKeyword ((rItem (.union s) last l).1 ++ R) = .ok cs!"union" ((rItem (.union s) last l).1 ++ R) := by
      rw [htext]
      exact itemKeyword_rt (by decide) (by decide) (keyword_then_blank cs!"union" _ _)
    unfold Item.parse
    rw [andThen_of_ok hk]
    simp only [List.cons.injEq, Char.reduceEq, false_and, and_false, if_false, if_true, reduceIte]
    rw [htext]
    exact pmap_of_ok h
  | .exception s, hw, hs, hd =>
    obtain ⟨g, hg, h⟩ := structItem_rt cs!"exception" Exception.parse (fun _ => rfl) (s := s) hw hs hd last l hR
    refine ⟨g, hg, ?_⟩
    have htext : (rItem (.exception s) last l).1 ++ R = cs!"exception" ++ ((rB1 l).1 ++ ((rStructLike s last (rB1 l).2).1 ++ R)) := by
      simp only [rItem, rSeq_fst, rSeq_snd, rLit_fst, rLit_snd, List.append_assoc]
    have hk : itemKeyword ((rItem (.exception s) last l).1 ++ R) = .ok cs!"exception" ((rItem (.exception s) last l).1 ++ R) := by
      rw [htext]
      exact itemKeyword_rt (by decide) (by decide) (keyword_then_blank cs!"exception" _ _)
    unfold Item.parse
    rw [andThen_of_ok hk]
    simp only [List.cons.injEq, Char.reduceEq, false_and, and_false, if_false, if_true, reduceIte]
    rw [htext]
    exact pmap_of_ok h
  | .service s, hw, hs, hd =>
    obtain ⟨g, hg, h⟩ := service_rt (s := s) hw hs hd last l hR
    refine ⟨g, hg, ?_⟩
    have hk : itemKeyword ((rItem (.service s) last l).1 ++ R) = .ok cs!"service" ((rItem (.service s) last l).1 ++ R) := by
      simp only [rItem, rService, rSeq_fst, rLit_fst, List.append_assoc]
      exact itemKeyword_rt (by decide) (by decide) (keyword_then_blank cs!"service" _ _)
    unfold Item.parse
    rw [andThen_of_ok hk]
    simp only [List.cons.injEq, Char.reduceEq, false_and, and_false, if_false, if_true, reduceIte]
    exact pmap_of_ok h

/-! ### the document loop -/

theorem rItem_start (it : Item) (last : Bool) (l : Layout) (R : List Char) :
    ItemStart ((rItem it last l).1 ++ R) ∧ (rItem it last l).1 ≠ [] := by
  match it with
  | .include _ | .cppInclude _ | .namespace _ | .typedef _ | .constant _ | .enum _ | .struct _ | .union _
  | .exception _ | .service _ =>
    simp only [rItem, rNamespace, rTypedef, rConstant, rEnum, rService, rSeq_fst, rLit_fst, List.append_assoc,
      List.cons_append]
    exact ⟨by show Char.isAlpha _ = true; decide, by simp⟩

/-- `tuple((opt(blank), Item::parse, opt(blank)))` -/
def slotP (d : Nat) : P Item :=
  andThen (opt blank) fun _ => andThen (Item.parse d) fun item => andThen (opt blank) fun _ => ret item

theorem slot_rt {it : Item} (hw : it.wf = true) (hs : it.supported = true) {d : Nat} (hd : it.depth < d)
    (last : Bool) (l : Layout) {bl R : List Char} (hbl : BT bl) (hlast : last = true → R = []) (hR : ItemStart R) :
    slotP d (bl ++ ((rItem it last l).1 ++ R)) = .ok it R := by
  obtain ⟨g, hg, h⟩ := item_rt hw hs hd last l hlast hR
  unfold slotP
  rw [andThen_optBlank hbl (rItem_start it last l R).1.nb, andThen_of_ok h, andThen_optBlank hg hR.nb]
  rfl

/-- the document theorem at a given budget -/
theorem fileD_rt {f : File} (hw : f.wf = true) (hs : ∀ it ∈ f.items, it.supported = true)
    {d : Nat} (hd : f.depth < d) (l : Layout) : File.parseD d (render l f) = .ok f [] := by
  obtain ⟨pkg, items⟩ := f
  simp only [File.wf, Bool.and_eq_true, List.all_eq_true] at hw
  have htext : render l ⟨pkg, items⟩ = (rB0 l).1 ++ (rSlots rItem items (rB0 l).2).1 := by
    simp [render, rFile]
  rw [htext]
  have hpkg : (File.mk (packageOf items) items) = ⟨pkg, items⟩ := by
    have hp := hw.2
    congr 1
    cases pkg with
    | none =>
      cases h : packageOf items with
      | none => rfl
      | some b => rw [h] at hp; simp at hp
    | some a =>
      cases h : packageOf items with
      | none => rw [h] at hp; simp at hp
      | some b => rw [h] at hp; simp at hp; rw [hp]
  have hnb : NB (rSlots rItem items (rB0 l).2).1 := by
    cases items with
    | nil => rfl
    | cons it its =>
      rw [rSlots_cons]
      exact (rItem_start it _ _ _).1.nb
  unfold File.parseD
  rw [andThen_optBlank (rB0_BT l) hnb]
  by_cases hne : items = []
  · subst hne
    rw [← hpkg]
    rfl
  · have hloop := manyTillF_slots (slotP d) rItem (fun it => it.wf = true ∧ it.supported = true ∧ it.depth < d)
      (fun R => ItemStart R)
      (by
        intro x last l bl R hx hbl hlast hmid
        have hR : ItemStart R := by
          cases last with
          | true => rw [hlast rfl]; rfl
          | false => exact hmid rfl
        exact ⟨(rItem_start x last l R).2, slot_rt hx.1 hx.2.1 hx.2.2 last l hbl hlast hR⟩)
      (by intro y last l R _; exact (rItem_start y last l R).1)
      items (rB0 l).2 [] _ hne
      (by
        intro x hx
        exact ⟨hw.1 x hx, hs x hx, Nat.lt_of_le_of_lt (item_depth_le (f := ⟨pkg, items⟩) hx) hd⟩)
      BT.nil (Nat.lt_succ_self _)
    simp only [List.nil_append] at hloop
    unfold manyTill pmap
    have hloop' : manyTillF (andThen (opt blank) fun _ => andThen (Item.parse d) fun item =>
        andThen (opt blank) fun _ => ret item) eof ((rSlots rItem items (rB0 l).2).1.length + 1)
        (rSlots rItem items (rB0 l).2).1 = .ok (items, ()) [] := hloop
    simp only [hloop', PR.map, PR.bind]
    rw [hpkg]

/-- from every sufficient budget to `File.parse`'s own budget -/
theorem file_parse_of_fileD {f : File} {s : List Char} (h : ∀ d, f.depth < d → File.parseD d s = .ok f []) :
    File.parse s = .ok f [] := by
  have h1 := h (max (f.depth + 1) (s.length + 2)) (by omega)
  have hnf : File.parseD (s.length + 2) s ≠ .fuel :=
    (good_fileD (s.length + 2)).no_fuel (Nat.lt_of_le_of_lt (nest_le_length s) (by omega))
  have := ext_fileD (d := s.length + 2) (d' := max (f.depth + 1) (s.length + 2)) (by omega) s hnf
  unfold File.parse
  rw [← this, h1]

/-! ### the stage restriction is gone: every well-formed item is covered -/

mutual
theorem cv_supported : (c : ConstValue) → c.supported = true
  | .bool _ => rfl
  | .path _ => rfl
  | .string _ => rfl
  | .int _ => rfl
  | .double _ => rfl
  | .list xs => by simp only [ConstValue.supported]; exact cvl_supported xs
  | .map kvs => by simp only [ConstValue.supported]; exact cvp_supported kvs
theorem cvl_supported : (xs : List ConstValue) → ConstValue.supportedList xs = true
  | [] => rfl
  | x :: xs => by simp only [ConstValue.supportedList, cv_supported x, cvl_supported xs, Bool.and_self]
theorem cvp_supported : (kvs : List (ConstValue × ConstValue)) → ConstValue.supportedPairs kvs = true
  | [] => rfl
  | (k, v) :: kvs => by simp only [ConstValue.supportedPairs, cv_supported k, cv_supported v, cvp_supported kvs, Bool.and_self]
end

theorem field_supported (f : Field) : f.supported = true := by
  unfold Field.supported; cases f.dflt with
  | none => rfl
  | some v => exact cv_supported v

theorem item_supported (it : Item) : it.supported = true := by
  match it with
  | .include _ | .cppInclude _ | .namespace _ | .typedef _ | .enum _ => rfl
  | .constant c => exact cv_supported c.value
  | .struct s | .union s | .exception s =>
    simp only [Item.supported, StructLike.supported, List.all_eq_true]; intro f _; exact field_supported f
  | .service s =>
    simp only [Item.supported, Service.supported, Function.supported, List.all_eq_true, Bool.and_eq_true]
    intro f _; exact ⟨fun a _ => field_supported a, fun a _ => field_supported a⟩

end Pilota.Idl
