import PilotaModel.Lemmas.Varint
import PilotaModel.Thrift.Binary
import PilotaModel.Thrift.Compact
/-  The reader's recursion budget `3 * input.length + 3` always covers a well-typed value. -/
namespace Pilota.Thrift
open Pilota Pilota.Thrift

namespace Binary
mutual
theorem size_le (e : Endian) (v : TVal) (hw : v.wt = true) : v.size + 1 ≤ 3 * (enc e v).length := by
  cases v <;> simp [TVal.wt] at hw <;> simp [TVal.size, enc, i, encFixed_length]
  case bin bs => omega
  case uuid bs => omega
  case struct fs => have := sizeF_le e fs hw; omega
  case list et xs => have := sizeL_le e xs et hw.2; omega
  case set et xs => have := sizeL_le e xs et hw.2; omega
  case map kt vt kvs => have := sizeP_le e kvs kt vt hw.2; omega
theorem sizeL_le (e : Endian) (xs : TVals) (et : TType) (hw : xs.wt et = true) : xs.size ≤ 3 * (encVals e xs).length + 1 := by
  cases xs with
  | nil => simp [TVals.size, encVals]
  | cons v vs =>
    simp [TVals.wt] at hw
    have h1 := size_le e v hw.1.2
    have h2 := sizeL_le e vs et hw.2
    simp [TVals.size, encVals]; omega
theorem sizeF_le (e : Endian) (fs : TFields) (hw : fs.wt = true) : fs.size + 2 ≤ 3 * (encFields e fs).length := by
  cases fs with
  | nil => simp [TFields.size, encFields]
  | cons id v r =>
    simp [TFields.wt] at hw
    have h1 := size_le e v hw.1.2
    have h2 := sizeF_le e r hw.2
    simp [TFields.size, encFields, i, encFixed_length]; omega
theorem sizeP_le (e : Endian) (kvs : TPairs) (kt vt : TType) (hw : kvs.wt kt vt = true) : kvs.size ≤ 3 * (encPairs e kvs).length + 1 := by
  cases kvs with
  | nil => simp [TPairs.size, encPairs]
  | cons k v r =>
    simp [TPairs.wt] at hw
    have h1 := size_le e k hw.1.1.2
    have h2 := size_le e v hw.1.2
    have h3 := sizeP_le e r kt vt hw.2
    simp [TPairs.size, encPairs]; omega
end

theorem enc_pos (e : Endian) (v : TVal) (hw : v.wt = true) : 1 ≤ (enc e v).length := by
  have := size_le e v hw; omega

theorem vals_length_le (e : Endian) (xs : TVals) (et : TType) (hw : xs.wt et = true) : xs.length ≤ (encVals e xs).length := by
  match xs with
  | .nil => simp [TVals.length]
  | .cons v vs =>
    simp [TVals.wt] at hw
    have := enc_pos e v hw.1.2
    have := vals_length_le e vs et hw.2
    simp [TVals.length, encVals]; omega

theorem pairs_length_le (e : Endian) (kvs : TPairs) (kt vt : TType) (hw : kvs.wt kt vt = true) : kvs.length ≤ (encPairs e kvs).length := by
  match kvs with
  | .nil => simp [TPairs.length]
  | .cons k v r =>
    simp [TPairs.wt] at hw
    have := enc_pos e k hw.1.1.2
    have := pairs_length_le e r kt vt hw.2
    simp [TPairs.length, encPairs]; omega
end Binary

namespace Compact

theorem encVar_pos (n : Nat) : 1 ≤ (encVar n).length := by rw [encVar_length]; exact varLen_pos n

theorem fieldHeader_pos (l : Int) (ct : Nat) (id : Int) : 1 ≤ (fieldHeader l ct id).length := by
  unfold fieldHeader; simp only; split <;> simp

theorem collHeader_pos (ct n : Nat) : 1 ≤ (collHeader ct n).length := by
  unfold collHeader; split <;> simp

mutual
theorem size_le (v : TVal) (hw : v.wt = true) : v.size + 1 ≤ 3 * (enc v).length := by
  cases v <;> simp [TVal.wt] at hw <;> simp [TVal.size, enc, Binary.i, encFixed_length]
  case i16 n => have := encVar_pos (zigzag n); omega
  case i32 n => have := encVar_pos (zigzag n); omega
  case i64 n => have := encVar_pos (zigzag n); omega
  case bin bs => have := encVar_pos (bs.length % 4294967296); omega
  case uuid bs => omega
  case struct fs => have := sizeF_le fs 0 hw; omega
  case list et xs => have := sizeL_le xs et hw.2; have := collHeader_pos ((compactOf et).getD 0) xs.length; omega
  case set et xs => have := sizeL_le xs et hw.2; have := collHeader_pos ((compactOf et).getD 0) xs.length; omega
  case map kt vt kvs =>
    have := sizeP_le kvs kt vt hw.2
    split
    · rename_i h0; cases kvs <;> simp [TPairs.length] at h0; simp [TPairs.size]
    · have := encVar_pos (kvs.length % 4294967296); simp; omega
theorem sizeL_le (xs : TVals) (et : TType) (hw : xs.wt et = true) : xs.size ≤ 3 * (encVals xs).length + 1 := by
  cases xs with
  | nil => simp [TVals.size, encVals]
  | cons v vs =>
    simp [TVals.wt] at hw
    have h1 := size_le v hw.1.2
    have h2 := sizeL_le vs et hw.2
    simp [TVals.size, encVals]; omega
theorem sizeF_le (fs : TFields) (l : Int) (hw : fs.wt = true) : fs.size + 2 ≤ 3 * (encFields l fs).length := by
  cases fs with
  | nil => simp [TFields.size, encFields]
  | cons id v r =>
    simp [TFields.wt] at hw
    have h2 := sizeF_le r id hw.2
    by_cases hb : ∃ b, v = .bool b
    · obtain ⟨b, rfl⟩ := hb
      have := fieldHeader_pos l (boolByte b) id
      simp [TFields.size, TVal.size, encFields]; omega
    · have h1 := size_le v hw.1.2
      have := fieldHeader_pos l ((compactOf v.ttype).getD 0) id
      have henc : encFields l (.cons id v r) = fieldHeader l ((compactOf v.ttype).getD 0) id ++ (enc v ++ encFields id r) := by
        cases v <;> first | (exfalso; exact hb ⟨_, rfl⟩) | simp [encFields]
      rw [henc]
      simp [TFields.size]; omega
theorem sizeP_le (kvs : TPairs) (kt vt : TType) (hw : kvs.wt kt vt = true) : kvs.size ≤ 3 * (encPairs kvs).length + 1 := by
  cases kvs with
  | nil => simp [TPairs.size, encPairs]
  | cons k v r =>
    simp [TPairs.wt] at hw
    have h1 := size_le k hw.1.1.2
    have h2 := size_le v hw.1.2
    have h3 := sizeP_le r kt vt hw.2
    simp [TPairs.size, encPairs]; omega
end

theorem enc_pos (v : TVal) (hw : v.wt = true) : 1 ≤ (enc v).length := by
  have := size_le v hw; omega

theorem vals_length_le (xs : TVals) (et : TType) (hw : xs.wt et = true) : xs.length ≤ (encVals xs).length := by
  match xs with
  | .nil => simp [TVals.length]
  | .cons v vs =>
    simp [TVals.wt] at hw
    have := enc_pos v hw.1.2
    have := vals_length_le vs et hw.2
    simp [TVals.length, encVals]; omega

theorem pairs_length_le (kvs : TPairs) (kt vt : TType) (hw : kvs.wt kt vt = true) : kvs.length ≤ (encPairs kvs).length := by
  match kvs with
  | .nil => simp [TPairs.length]
  | .cons k v r =>
    simp [TPairs.wt] at hw
    have := enc_pos k hw.1.1.2
    have := pairs_length_le r kt vt hw.2
    simp [TPairs.length, encPairs]; omega
end Compact
end Pilota.Thrift
