import PilotaModel.Lemmas.PbReads
/-
  C06, second direction, part 2: the induction over the value.
-/
namespace Pilota.Proto
open Pilota Spec

theorem wf_tags_ok (n : Nat) : ∀ (D : List FieldDecl), D.all (FieldDecl.wfIn n) = true → ∀ t ∈ allTags D, tagOk t = true
  | [], _, t, h => by simp [allTags] at h
  | d :: D, hw, t, h => by
    simp only [List.all_cons, Bool.and_eq_true] at hw
    rw [allTags_cons, List.mem_append] at h
    rcases h with h | h
    · cases d with
      | single a ty o => simp only [FieldDecl.wfIn, Bool.and_eq_true] at hw; simp [FieldDecl.tags] at h; subst h; exact hw.1.1
      | rep a ty => simp only [FieldDecl.wfIn, Bool.and_eq_true] at hw; simp [FieldDecl.tags] at h; subst h; exact hw.1.1
      | map a k v => simp only [FieldDecl.wfIn, Bool.and_eq_true] at hw; simp [FieldDecl.tags] at h; subst h; exact hw.1.1.1
      | oneof vs =>
        simp only [FieldDecl.wfIn, List.all_eq_true, Bool.and_eq_true] at hw
        simp only [FieldDecl.tags, List.mem_map] at h
        obtain ⟨p, hp, rfl⟩ := h
        exact (hw.1 p hp).1
    · exact wf_tags_ok n D hw.2 t h

theorem encSlots_tags (ps : PSchema) : ∀ (pds : List PDecl) (fs : Slots) (rs : List Rec), EncSlots ps pds fs rs →
    ∀ r ∈ rs, r.tag ∈ allTags (pds.map lowerDecl)
  | [], .nil, rs, h, r, hr => by simp only [EncSlots] at h; subst h; simp at hr
  | d :: ds, .cons v fs, rs, h, r, hr => by
    simp only [EncSlots] at h
    simp only [List.map_cons, allTags_cons, List.mem_append, lower_tags]
    by_cases ht : d.tags.contains r.tag = true
    · left; simpa using ht
    · right
      exact encSlots_tags ps ds fs _ h.2 r (by
        have ht' : d.tags.contains r.tag = false := by simpa using ht
        rw [List.mem_filter]; exact ⟨hr, by rw [ht']; rfl⟩)
  | [], .cons _ _, _, h, _, _ => by simp [EncSlots] at h
  | _ :: _, .nil, _, h, _, _ => by simp [EncSlots] at h

theorem svalsToE_append : ∀ (a b : List SVal), svalsToE (a ++ b) = (svalsToE a).append (svalsToE b)
  | [], _ => rfl
  | x :: a, b => by simp [svalsToE, EVals.append, svalsToE_append a b]

theorem svalsOf_inv : ∀ (xs : EVals) (vs : List SVal), svalsOf xs = some vs → xs = svalsToE vs
  | .nil, vs, h => by simp [svalsOf] at h; subst h; rfl
  | .cons (.s x) r, vs, h => by
    simp only [svalsOf] at h
    cases hr : svalsOf r with
    | none => simp [hr] at h
    | some vs' =>
      simp only [hr, Option.map_some, Option.some.injEq] at h
      subst h
      simp [svalsToE, svalsOf_inv r vs' hr]
  | .cons (.msg _) _, _, h => by simp [svalsOf] at h

theorem svalsOf_ok2 (s : Schema) (flag : Bool) (c : Codec) : ∀ (xs : EVals) (vs : List SVal), okEs s flag (.scalar c) xs = true →
    svalsOf xs = some vs → Codec.allOk c vs
  | .nil, vs, _, h => by simp [svalsOf] at h; subst h; intro v hv; simp at hv
  | .cons (.s x) r, vs, hy, h => by
    simp only [okEs, okE, Bool.and_eq_true] at hy
    simp only [svalsOf] at h
    cases hr : svalsOf r with
    | none => simp [hr] at h
    | some vs' =>
      simp only [hr, Option.map_some, Option.some.injEq] at h
      subst h
      intro v hv
      simp only [List.mem_cons] at hv
      rcases hv with rfl | hv
      · exact ⟨hy.1.1, (lenOk_iff _).mp hy.1.2⟩
      · exact svalsOf_ok2 s flag c r vs' hy.2 hr v hv
  | .cons (.msg _) _, _, hy, _ => by simp [okEs, okE] at hy

theorem packable_numeric (pty : PFTy) (c : Codec) (hp : packable pty = true) (hl : lowerTy pty = .scalar c) : c.isNumeric = true := by
  cases pty with
  | scalar t => simp only [lowerTy, FTy.scalar.injEq] at hl; subst hl; cases t <;> simp [packable] at hp <;> rfl
  | enum => simp only [lowerTy, FTy.scalar.injEq] at hl; subst hl; rfl
  | msg i => simp [packable] at hp

theorem flatMap_conform (c : Codec) (t : PType) (hc : c.wireClass = t) : ∀ (vs : List SVal), Codec.allOk c vs →
    vs.flatMap (encScalar t) = vs.flatMap c.encPayload
  | [], _ => rfl
  | v :: vs, h => by
    simp only [List.flatMap_cons]
    rw [flatMap_conform c t hc vs (fun x hx => h x (by simp [hx])), ← hc, (module_conforms c v (h v (by simp)).1).2]

/-- the records of a packable repeated field, in any mix of packed runs and single elements,
are read by `merge_repeated` to the elements in order. -/
theorem foldSlot_packed (s : Schema) (recur : Recur) (t : Nat) (pty : PFTy) (c : Codec) (hp : packable pty = true)
    (hl : lowerTy pty = .scalar c) (hc : c.wireClass = scalarTy pty) (hw : c.wt = wireOfTy pty) :
    ∀ (rs : List Rec) (vs : List SVal) (acc : EVals), EncPacked t pty rs vs → Codec.allOk c vs →
      foldSlot s recur (.rep t (.scalar c)) (.rep acc) rs = .ok (.rep (acc.append (svalsToE vs)))
  | [], vs, acc, h, _ => by
    simp only [EncPacked] at h; subst h
    simp [foldSlot, svalsToE, evals_append_nil]
  | r :: rs, vs, acc, h, hok => by
    simp only [EncPacked] at h
    obtain ⟨_, h⟩ := h
    have hn := packable_numeric pty c hp hl
    rcases h with ⟨hwt, v, vs', rfl, hpay, hrest⟩ | ⟨hwt, chunk, rest, rfl, hne, hpay, hlen, hrest⟩
    · have hv := hok v (by simp)
      have hpay' : r.payload = c.encPayload v := by rw [hpay, ← hc, (module_conforms c v hv.1).2]
      have hm := Codec.mergeRepeated_one c v hv.1 hv.2 [] []
      simp only [List.append_nil, List.nil_append] at hm
      simp only [foldSlot, applySlot, mergeSlot, hwt, ← hw, hpay', hm]
      rw [foldSlot_packed s recur t pty c hp hl hc hw rs vs' _ hrest (fun x hx => hok x (by simp [hx]))]
      simp [svalsToE, EVals.append_assoc, EVals.append]
    · have hokc : Codec.allOk c chunk := fun x hx => hok x (by simp [hx])
      have hfm := flatMap_conform c (scalarTy pty) hc chunk hokc
      have hsum := Codec.flatMap_payload_length c chunk (fun x hx => (hokc x hx).2)
      have hm := Codec.mergeRepeated_packed c hn chunk hokc (by rw [← hsum, ← hfm]; exact hlen) [] []
      simp only [List.append_nil, List.nil_append] at hm
      have hpay' : r.payload = encodeVarint (c.payloadLenSum chunk) ++ chunk.flatMap c.encPayload := by
        rw [hpay, lenDelim_eq, hfm, hsum]
      simp only [foldSlot, applySlot, mergeSlot, hwt, hpay', hm]
      rw [foldSlot_packed s recur t pty c hp hl hc hw rs rest _ hrest (fun x hx => hok x (by simp [hx]))]
      simp [svalsToE_append, EVals.append_assoc]

end Pilota.Proto

namespace Pilota.Proto
open Pilota Spec

theorem zeroOf_exact (pty : PFTy) (v : EVal) (h : zeroOf pty v) : v.exactDefault = true := by
  cases pty <;> cases v <;> simp [zeroOf] at h <;> simpa [EVal.exactDefault] using h

theorem filter_tag1 (es : List Rec) : es.filter (fun r => [1].contains r.tag) = es.filter (fun x => x.tag == 1) := by
  congr 1; funext r; by_cases h : r.tag = 1 <;> simp [h]

/-- the entry loop from the facts about its two fields. -/
theorem entry_fold (s : Schema) (c : Nat) (kc : Codec) (vty : FTy) (es : List Rec) (kk : SVal) (v : EVal)
    (hall : ∀ x ∈ es, x.tag = 1 ∨ x.tag = 2)
    (hK : foldSlot s (recurOf s c) (.single 1 (.scalar kc) false) (.req (.s kc.default)) (es.filter (fun x => x.tag == 1)) = .ok (.req (.s kk)))
    (hV : foldSlot s (recurOf s c) (.single 2 vty false) (.req (defaultE s vty)) (es.filter (fun x => x.tag == 2)) = .ok (.req v)) :
    foldRecs s (recurOf s c) c (entryDecls kc vty) (entry0 s kc vty) es = .ok (.cons (.req (.s kk)) (.cons (.req v) .nil)) := by
  unfold entryDecls entry0
  apply foldRecs_split
  · simp only [FieldDecl.tags]; rw [filter_tag1]; exact hK
  · apply foldRecs_split
    · simp only [FieldDecl.tags, List.filter_filter]
      have : es.filter (fun r => ([2].contains r.tag && !([1].contains r.tag))) = es.filter (fun x => x.tag == 2) := by
        apply List.filter_congr
        intro x hx
        rcases hall x hx with h | h <;> simp [h]
      rw [this]; exact hV
    · simp only [FieldDecl.tags, List.filter_filter]
      have : es.filter (fun r => (!([2].contains r.tag) && !([1].contains r.tag))) = [] := by
        rw [List.filter_eq_nil_iff]
        intro x hx
        rcases hall x hx with h | h <;> simp [h]
      rw [this]; rfl

mutual
theorem readE (ps : PSchema) (hs : WFSchema (lowerSchema ps) = true) (pty : PFTy) (v : EVal) (r : Rec) (ctx : Nat) (x : EVal)
    (henc : EncE ps pty v r) (hy : okE (lowerSchema ps) true (lowerTy pty) v = true) (hn : needE v ≤ ctx)
    (hx : isDefE (lowerSchema ps) (lowerTy pty) x = true) :
    mergeE (lowerSchema ps) (recurOf (lowerSchema ps) ctx) (lowerTy pty) x r.wt r.payload = .ok (v, []) := by
  cases v with
  | s y =>
    cases pty with
    | scalar t =>
      simp only [EncE] at henc
      simp only [lowerTy, okE, Bool.and_eq_true] at hy
      have hm := module_conforms t.codec y hy.1
      rw [codec_wireClass] at hm
      have := Codec.merge_enc t.codec y hy.1 ((lenOk_iff y).mp hy.2) []
      simp only [List.append_nil] at this
      simp only [lowerTy, mergeE, henc.1, henc.2, ← hm.1, ← hm.2, this]
    | enum =>
      simp only [EncE] at henc
      simp only [lowerTy, okE, Bool.and_eq_true] at hy
      have hm2 : Codec.int32.encPayload y = encScalar .int32 y := (module_conforms .int32 y hy.1).2
      have := Codec.merge_enc .int32 y hy.1 ((lenOk_iff y).mp hy.2) []
      simp only [List.append_nil] at this
      have hw : WireType.varint = Codec.int32.wt := rfl
      simp only [lowerTy, mergeE, henc.1, henc.2, hw, ← hm2, this]
    | msg i => simp [lowerTy, okE] at hy
  | msg fs =>
    cases pty with
    | scalar t => simp [lowerTy, okE] at hy
    | enum => simp [lowerTy, okE] at hy
    | msg i =>
      cases x with
      | s xv => simp [lowerTy, isDefE] at hx
      | msg xs =>
        simp only [EncE] at henc
        obtain ⟨hwt, rs, hpay, hlen, hrs⟩ := henc
        simp only [lowerTy, okE, Bool.and_eq_true] at hy
        simp only [lowerTy, isDefE] at hx
        simp only [needE] at hn
        obtain ⟨c, rfl⟩ : ∃ c, ctx = c + 1 := ⟨ctx - 1, by omega⟩
        have hdw := decls_wf _ hs i
        have htags : ∀ q ∈ rs, tagOk q.tag = true := by
          intro q hq
          have := encSlots_tags ps _ _ _ hrs q hq
          rw [← decls_lower] at this
          exact wf_tags_ok _ _ hdw.1 _ this
        have hfold := readSlots ps hs (pdecls ps i) fs rs c xs hrs (by rw [← decls_lower]; exact hdw.1)
          (by rw [← decls_lower]; exact hy.1) (by omega) (by rw [← decls_lower]; exact hx)
        rw [← decls_lower] at hfold
        have hloop := foldRecs_loop _ c _ rs xs fs htags hfold [] ((flat rs).length + 1) (by simp)
        simp only [List.append_nil, List.length_nil] at hloop
        simp only [lowerTy, mergeE, hwt, checkWireType, if_true, recurOf, mergeLoop, EVal.fields, hpay, lenDelim_eq,
          decodeVarint_encode _ hlen]
        have hle : ¬ (flat rs).length > (flat rs).length := by omega
        simp only [hle, if_false, Nat.sub_self, hloop]
termination_by structural v
theorem readSlot (ps : PSchema) (hs : WFSchema (lowerSchema ps) = true) (pd : PDecl) (v : Slot) (rs : List Rec) (ctx : Nat) (m0 : Slot)
    (henc : EncSlot ps pd v rs) (hd : (lowerDecl pd).wfIn (lowerSchema ps).length = true)
    (hy : okSlot (lowerSchema ps) true (lowerDecl pd) v = true) (hn : needSlot v ≤ ctx)
    (hm0 : isDefSlot (lowerSchema ps) (lowerDecl pd) m0 = true) :
    foldSlot (lowerSchema ps) (recurOf (lowerSchema ps) ctx) (lowerDecl pd) m0 rs = .ok v := by
  cases v with
  | req y =>
    cases pd with
    | single t ty opt =>
      cases opt with
      | false =>
        simp only [lowerDecl] at hm0 hd hy ⊢
        obtain ⟨x, rfl, hx⟩ := isDefSlot_req_eq _ t _ m0 hm0
        simp only [okSlot] at hy
        simp only [needSlot] at hn
        simp only [EncSlot] at henc
        rcases henc with ⟨r, rfl, _, hr⟩ | ⟨rfl, hz⟩
        · simp only [foldSlot, applySlot, mergeSlot, readE ps hs ty y r ctx x hr hy hn hx]
        · have := isDefE_unique _ _ x y hx (ok_exact_isDefE _ true _ y hy (zeroOf_exact ty y hz))
          simp [foldSlot, this]
      | true => simp [lowerDecl, okSlot] at hy
    | _ => simp [lowerDecl, okSlot] at hy
  | none =>
    cases pd with
    | single t ty opt =>
      cases opt with
      | true =>
        simp only [lowerDecl] at hm0
        simp only [EncSlot] at henc
        subst henc
        rw [isDefSlot_opt_eq _ t _ m0 hm0]; rfl
      | false => simp [lowerDecl, okSlot] at hy
    | oneof vs =>
      simp only [lowerDecl] at hm0
      simp only [EncSlot] at henc
      subst henc
      rw [isDefSlot_oneof_eq _ _ m0 hm0]; rfl
    | _ => simp [lowerDecl, okSlot] at hy
  | some y =>
    cases pd with
    | single t ty opt =>
      cases opt with
      | true =>
        simp only [lowerDecl] at hm0 hd hy ⊢
        rw [isDefSlot_opt_eq _ t _ m0 hm0]
        simp only [FieldDecl.wfIn, Bool.and_eq_true] at hd
        simp only [okSlot] at hy
        simp only [needSlot] at hn
        simp only [EncSlot] at henc
        obtain ⟨r, rfl, _, hr⟩ := henc
        simp only [foldSlot, applySlot, mergeSlot, optCur,
          readE ps hs ty y r ctx _ hr hy hn (isDef_defaultE _ hs _ hd.2)]
      | false => simp [lowerDecl, okSlot] at hy
    | _ => simp [lowerDecl, okSlot] at hy
  | rep xs =>
    cases pd with
    | rep t ty =>
      simp only [lowerDecl] at hm0 hd hy ⊢
      rw [isDefSlot_rep_eq _ t _ m0 hm0]
      simp only [okSlot] at hy
      simp only [needSlot] at hn
      simp only [FieldDecl.wfIn, Bool.and_eq_true] at hd
      simp only [EncSlot] at henc
      by_cases hp : packable ty = true
      · simp only [hp, if_true] at henc
        obtain ⟨vs, hvs, hpk⟩ := henc
        obtain ⟨c, hl, hc, hw⟩ := packable_lower ty hp
        rw [hl] at hy ⊢
        have hok := svalsOf_ok2 _ true c xs vs hy hvs
        rw [foldSlot_packed _ _ t ty c hp hl hc hw rs vs .nil hpk hok, svalsOf_inv xs vs hvs]
        rfl
      · simp only [hp] at henc
        have := readRep ps hs t ty xs rs ctx .nil henc hd.2 hy hn
        simpa [EVals.append] using this
    | single t ty opt => cases opt <;> simp [lowerDecl, okSlot] at hy
    | _ => simp [lowerDecl, okSlot] at hy
  | map kvs =>
    cases pd with
    | map t k vty =>
      simp only [lowerDecl] at hm0 hd hy ⊢
      rw [isDefSlot_map_eq _ t _ _ m0 hm0]
      simp only [okSlot, Bool.and_eq_true] at hy
      simp only [needSlot] at hn
      simp only [FieldDecl.wfIn, Bool.and_eq_true] at hd
      simp only [EncSlot] at henc
      rw [readMap ps hs t k hd.1.2 vty hd.2 kvs rs ctx .nil henc hy.1 hn]
      rw [insertAll_fresh kvs .nil hy.2 (by intro _ _; rfl)]
      rfl
    | single t ty opt => cases opt <;> simp [lowerDecl, okSlot] at hy
    | _ => simp [lowerDecl, okSlot] at hy
  | one t y =>
    cases pd with
    | oneof vs =>
      simp only [lowerDecl] at hm0 hd hy ⊢
      rw [isDefSlot_oneof_eq _ _ m0 hm0]
      simp only [okSlot, lookup_lower] at hy
      simp only [needSlot] at hn
      simp only [EncSlot] at henc
      obtain ⟨pty, r, hl, rfl, htag, hr⟩ := henc
      simp only [hl, Option.map_some] at hy
      have hv := variant_tagOk _ _ hd t (lowerTy pty) (by rw [lookup_lower, hl]; rfl)
      simp only [foldSlot, applySlot, mergeSlot, htag, lookup_lower, hl, Option.map_some, oneCur,
        readE ps hs pty y r ctx _ hr hy hn (isDef_defaultE _ hs _ hv.2)]
    | single t ty opt => cases opt <;> simp [lowerDecl, okSlot] at hy
    | _ => simp [lowerDecl, okSlot] at hy
termination_by structural v
theorem readSlots (ps : PSchema) (hs : WFSchema (lowerSchema ps) = true) (pds : List PDecl) (fs : Slots) (rs : List Rec) (ctx : Nat)
    (M0 : Slots) (henc : EncSlots ps pds fs rs)
    (hwf : (pds.map lowerDecl).all (FieldDecl.wfIn (lowerSchema ps).length) = true)
    (hy : okSlots (lowerSchema ps) true (pds.map lowerDecl) fs = true) (hn : needSlots fs ≤ ctx)
    (hM0 : isDefSlots (lowerSchema ps) (pds.map lowerDecl) M0 = true) :
    foldRecs (lowerSchema ps) (recurOf (lowerSchema ps) ctx) ctx (pds.map lowerDecl) M0 rs = .ok fs := by
  cases fs with
  | nil =>
    cases pds with
    | nil =>
      simp only [EncSlots] at henc
      subst henc
      cases M0 with
      | nil => rfl
      | cons a b => simp [isDefSlots] at hM0
    | cons d ds => simp [okSlots] at hy
  | cons v rest =>
    cases pds with
    | nil => simp [okSlots] at hy
    | cons d ds =>
      cases M0 with
      | nil => simp [isDefSlots] at hM0
      | cons m0 M0' =>
        simp only [List.map_cons, okSlots, Bool.and_eq_true] at hy
        simp only [List.map_cons, List.all_cons, Bool.and_eq_true] at hwf
        simp only [List.map_cons, isDefSlots, Bool.and_eq_true] at hM0
        simp only [needSlots] at hn
        simp only [EncSlots] at henc
        simp only [List.map_cons]
        apply foldRecs_split
        · rw [lower_tags]
          exact readSlot ps hs d v _ ctx m0 henc.1 hwf.1 hy.1 (by omega) hM0.1
        · rw [lower_tags]
          exact readSlots ps hs ds rest _ ctx M0' henc.2 hwf.2 hy.2 (by omega) hM0.2
termination_by structural fs
theorem readRep (ps : PSchema) (hs : WFSchema (lowerSchema ps) = true) (t : Nat) (pty : PFTy) (xs : EVals) (rs : List Rec) (ctx : Nat)
    (acc : EVals) (henc : EncRep ps t pty xs rs) (hty : (lowerTy pty).wfIn (lowerSchema ps).length = true)
    (hy : okEs (lowerSchema ps) true (lowerTy pty) xs = true) (hn : needEs xs ≤ ctx) :
    foldSlot (lowerSchema ps) (recurOf (lowerSchema ps) ctx) (.rep t (lowerTy pty)) (.rep acc) rs = .ok (.rep (acc.append xs)) := by
  cases xs with
  | nil =>
    simp only [EncRep] at henc
    subst henc
    simp [foldSlot, evals_append_nil]
  | cons y ys =>
    simp only [EncRep] at henc
    obtain ⟨r, rs', rfl, _, hr, hrest⟩ := henc
    simp only [okEs, Bool.and_eq_true] at hy
    simp only [needEs] at hn
    have hE := readE ps hs pty y r ctx _ hr hy.1 (by omega) (isDef_defaultE _ hs _ hty)
    have hm : mergeSlot (lowerSchema ps) (recurOf (lowerSchema ps) ctx) (.rep t (lowerTy pty)) (.rep acc) r.tag r.wt r.payload
        = .ok (.rep (acc.append (.cons y .nil)), []) := by
      cases pty with
      | scalar ty =>
        -- a non-packable scalar (string / bytes): one element through `merge_repeated`
        cases y with
        | s yv =>
          simp only [EncE] at hr
          simp only [lowerTy, okE, Bool.and_eq_true] at hy
          have hmc := module_conforms ty.codec yv hy.1.1
          rw [codec_wireClass] at hmc
          have := Codec.mergeRepeated_one ty.codec yv hy.1.1 ((lenOk_iff yv).mp hy.1.2) [] []
          simp only [List.append_nil, List.nil_append] at this
          simp only [lowerTy, mergeSlot, hr.1, hr.2, ← hmc.1, ← hmc.2, this, svalsToE]
        | msg fs => simp [lowerTy, okE] at hy
      | enum =>
        cases y with
        | s yv =>
          simp only [EncE] at hr
          simp only [lowerTy, okE, Bool.and_eq_true] at hy
          have hm2 : Codec.int32.encPayload yv = encScalar .int32 yv := (module_conforms .int32 yv hy.1.1).2
          have := Codec.mergeRepeated_one .int32 yv hy.1.1 ((lenOk_iff yv).mp hy.1.2) [] []
          simp only [List.append_nil, List.nil_append] at this
          have hw : WireType.varint = Codec.int32.wt := rfl
          simp only [lowerTy, mergeSlot, hr.1, hr.2, hw, ← hm2, this, svalsToE]
        | msg fs => simp [lowerTy, okE] at hy
      | msg i =>
        have hwt : r.wt = .len := by
          cases y with
          | s yv => simp [lowerTy, okE] at hy
          | msg fs => simp only [EncE] at hr; exact hr.1
        simp only [lowerTy] at hE
        rw [hwt] at hE
        simp only [lowerTy, mergeSlot, hwt, checkWireType, if_true, hE]
        rfl
    simp only [foldSlot, applySlot, hm]
    rw [readRep ps hs t pty ys rs' ctx _ hrest hty hy.2 (by omega), EVals.append_assoc]
    rfl
termination_by structural xs
theorem readMap (ps : PSchema) (hs : WFSchema (lowerSchema ps) = true) (t : Nat) (k : PType) (hk : k.codec.isKey = true)
    (vty : PFTy) (hvty : (lowerTy vty).wfIn (lowerSchema ps).length = true) (kvs : Pairs) (rs : List Rec) (ctx : Nat) (acc : Pairs)
    (henc : EncMap ps t k vty kvs rs) (hy : okPairs (lowerSchema ps) true k.codec (lowerTy vty) kvs = true)
    (hn : needPairs kvs ≤ ctx) :
    foldSlot (lowerSchema ps) (recurOf (lowerSchema ps) ctx) (.map t k.codec (lowerTy vty)) (.map acc) rs
      = .ok (.map (insertAll acc kvs)) := by
  cases kvs with
  | nil =>
    simp only [EncMap] at henc
    subst henc
    simp [foldSlot, insertAll]
  | cons kk v rest =>
    simp only [EncMap] at henc
    obtain ⟨e, rs', rfl, _, hwt, ⟨es, hpay, hlen, hall, hkey, hval⟩, hrest⟩ := henc
    simp only [okPairs, Bool.and_eq_true] at hy
    obtain ⟨⟨⟨⟨⟨hkok, hkl⟩, hve⟩, _⟩, _⟩, hr⟩ := hy
    simp only [needPairs] at hn
    obtain ⟨c, rfl⟩ : ∃ c, ctx = c + 1 := ⟨ctx - 1, by omega⟩
    have hmc := module_conforms k.codec kk hkok
    rw [codec_wireClass] at hmc
    -- the key
    have hK : foldSlot (lowerSchema ps) (recurOf (lowerSchema ps) c) (.single 1 (.scalar k.codec) false) (.req (.s k.codec.default))
        (es.filter (fun x => x.tag == 1)) = .ok (.req (.s kk)) := by
      rcases hkey with ⟨kr, hf, hkw, hkp⟩ | ⟨hf, hz⟩
      · have := Codec.merge_enc k.codec kk hkok ((lenOk_iff kk).mp hkl) []
        simp only [List.append_nil] at this
        simp only [hf, foldSlot, applySlot, mergeSlot, mergeE, hkw, hkp, ← hmc.1, ← hmc.2, this]
      · rw [hf, scalar_exact_default k.codec kk hkok hz]; rfl
    -- the value
    have hV : foldSlot (lowerSchema ps) (recurOf (lowerSchema ps) c) (.single 2 (lowerTy vty) false)
        (.req (defaultE (lowerSchema ps) (lowerTy vty))) (es.filter (fun x => x.tag == 2)) = .ok (.req v) := by
      rcases hval with ⟨vr, hf, hvr⟩ | ⟨hf, hz⟩
      · simp only [hf, foldSlot, applySlot, mergeSlot,
          readE ps hs vty v vr c _ hvr hve (by omega) (isDef_defaultE _ hs _ hvty)]
      · rw [hf]
        have := isDefE_unique _ _ _ v (isDef_defaultE _ hs _ hvty) (ok_exact_isDefE _ true _ v hve (zeroOf_exact vty v hz))
        simp [foldSlot, this]
    have hfold := entry_fold (lowerSchema ps) c k.codec (lowerTy vty) es kk v hall hK hV
    have htags : ∀ q ∈ es, tagOk q.tag = true := by
      intro q hq; rcases hall q hq with h | h <;> rw [h] <;> decide
    have hloop := foldRecs_loop _ c _ es _ _ htags hfold [] ((flat es).length + 1) (by simp)
    simp only [List.append_nil, List.length_nil] at hloop
    have hm : mergeSlot (lowerSchema ps) (recurOf (lowerSchema ps) (c + 1)) (.map t k.codec (lowerTy vty)) (.map acc) e.tag e.wt e.payload
        = .ok (.map (acc.insert kk v), []) := by
      simp only [mergeSlot, recurOf, mergeLoop, hpay, lenDelim_eq, decodeVarint_encode _ hlen]
      have hle : ¬ (flat es).length > (flat es).length := by omega
      simp only [hle, if_false, Nat.sub_self, hloop, entryResult]
    simp only [foldSlot, applySlot, hm]
    rw [readMap ps hs t k hk vty hvty rest rs' (c + 1) _ hrest hr (by omega)]
    rfl
termination_by structural kvs
end

/-- **pilota decodes every conforming encoding to the value.** -/
theorem decode_reads_spec (ps : PSchema) (hs : WFSchema (lowerSchema ps) = true) (i : Nat) (m : Slots) (bs : Bytes)
    (henc : Spec.Enc ps i m bs) (hm : HasType (lowerSchema ps) true i m) :
    decode (lowerSchema ps) i bs = .ok m := by
  obtain ⟨rs, rfl, hrs⟩ := henc
  have hdw := decls_wf _ hs i
  have htags : ∀ q ∈ rs, tagOk q.tag = true := by
    intro q hq
    have := encSlots_tags ps _ _ _ hrs q hq
    rw [← decls_lower] at this
    exact wf_tags_ok _ _ hdw.1 _ this
  have hfold := readSlots ps hs (pdecls ps i) m rs recursionLimit (defaultMsg (lowerSchema ps) i) hrs
    (by rw [← decls_lower]; exact hdw.1) (by rw [← decls_lower]; exact hm.1) hm.2
    (by rw [← decls_lower]; exact isDef_defaultMsg _ hs i)
  rw [← decls_lower] at hfold
  have hloop := foldRecs_loop _ recursionLimit _ rs _ _ htags hfold [] ((flat rs).length + 1) (by simp)
  simp only [List.append_nil, List.length_nil] at hloop
  unfold decode decodeInto decodeIntoCtx
  rw [hloop]

end Pilota.Proto
