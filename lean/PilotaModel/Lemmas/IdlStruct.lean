import PilotaModel.Lemmas.IdlFieldRT
/-
  C15: field lists, struct-likes (`struct` / `union` / `exception`).
-/
namespace Pilota.Idl

def FieldOk (d : Nat) (argMode : Bool) (f : Field) : Prop :=
  f.wf = true ∧ f.supported = true ∧ f.depth < d ∧
  ((f.attr = .default ∨ (argMode = true ∧ f.attr = .required)) →
    f.ty.headIs cs!"required" = false ∧ f.ty.headIs cs!"optional" = false)

theorem attrOpt_none {argMode : Bool} {a : Attribute} {l : Layout} (h : attrOpt argMode a l = none) :
    a = .default ∨ (argMode = true ∧ a = .required) := by
  cases a with
  | optional => simp [attrOpt] at h
  | default => exact Or.inl rfl
  | required =>
    cases argMode with
    | false => simp [attrOpt] at h
    | true => exact Or.inr ⟨rfl, rfl⟩

/-- how a parsed field relates to the printed one -/
def FieldRel (argMode : Bool) (x y : Field) : Prop :=
  y = x ∨ (argMode = true ∧ x.attr = .required ∧ y = { x with attr := .default })

theorem fieldRead_rel (argMode : Bool) (f : Field) (l : Layout) : FieldRel argMode f (fieldRead argMode f l) := by
  obtain ⟨id, name, attr, ty, dflt, anns⟩ := f
  cases attr with
  | optional => exact Or.inl rfl
  | default => exact Or.inl rfl
  | required =>
    cases argMode with
    | false => exact Or.inl rfl
    | true =>
      simp only [fieldRead, attrOpt, Bool.true_and]
      cases (rB0 (rB0 l).2).2.pop.1.flag with
      | true => exact Or.inr ⟨rfl, rfl, rfl⟩
      | false => exact Or.inl rfl

theorem digit_props {c : Char} (h : isDecDigit c = true) :
    notBlankStart c = true ∧ (!(c == ',' || c == ';')) = true ∧ (c != '(') = true ∧ (c != '=') = true ∧ (c != '.') = true := by
  have hne : ∀ x : Char, isDecDigit x = false → (c != x) = true := by
    intro x hx; simp only [bne_iff_ne, ne_eq]; intro e; subst e; rw [h] at hx; cases hx
  refine ⟨?_, ?_, hne _ (by decide), hne _ (by decide), hne _ (by decide)⟩
  · cases hb : notBlankStart c with
    | true => rfl
    | false => rcases blankStart_cases hb with e | e | e | e | e | e <;> subst e <;> revert h <;> decide
  · have h1 := hne ',' (by decide); have h2 := hne ';' (by decide)
    simp only [bne_iff_ne, ne_eq] at h1 h2; simp [h1, h2]

theorem fieldFollow_of_digit {R : List Char} (h : hdP isDecDigit R = true) : FieldFollow R :=
  ⟨hdP_mono (fun _ hc => (digit_props hc).1) h, hdP_mono (fun _ hc => (digit_props hc).2.1) h,
   hdP_mono (fun _ hc => (digit_props hc).2.2.1) h, hdP_mono (fun _ hc => (digit_props hc).2.2.2.1) h,
   hdP_mono (fun _ hc => (digit_props hc).2.2.2.2) h⟩

theorem fieldFollow_close {c : Char} (hc : c = '}' ∨ c = ')') (R : List Char) : FieldFollow (c :: R) ∧ Sep (c :: R) := by
  rcases hc with h | h <;> subst h <;>
    exact ⟨⟨by rw [NB, hdP_cons]; decide, by rw [NoSepStart, hdP_cons]; decide, by rw [hdP_cons]; decide,
      by rw [hdP_cons]; decide, by rw [hdP_cons]; decide⟩, by rw [Sep, hdP_cons]; decide⟩

theorem rField_start (argMode : Bool) (f : Field) (last : Bool) (l : Layout) (x : List Char) :
    hdP isDecDigit ((rField argMode f last l).1 ++ x) = true ∧ (rField argMode f last l).1 ≠ [] := by
  obtain ⟨c0, cs, e, hc⟩ := decDigits_head f.id.toNat
  simp only [rField, rSeq_fst, rLit_fst, List.append_assoc, e, List.cons_append]
  exact ⟨hc, by simp⟩

theorem field_close_err (d : Nat) {c : Char} (hc : c = '}' ∨ c = ')') {bl R : List Char} (hbl : BT bl) :
    skip (opt blank) (Field.parse d) (bl ++ c :: R) = .err := by
  have hnb : NB (c :: R) := (fieldFollow_close hc R).1.1
  rw [skip_of_ok (optBlank_rt hbl hnb)]
  unfold Field.parse
  apply andThen_of_err
  have : digit1 (c :: R) = .err := digit1_err_hd (by rcases hc with h | h <;> subst h <;> rw [hdP_cons] <;> decide)
  simp [mapRes, andThen, this, PR.bind]

/-- the loop over a rendered field list, up to the closing `}` or `)` -/
theorem fields_loop {d : Nat} (argMode : Bool) {close : Char} (hc : close = '}' ∨ close = ')') (fs : List Field)
    (hall : ∀ f ∈ fs, FieldOk d argMode f) (l : Layout) {bl : List Char} (hbl : BT bl) (R' : List Char) (n : Nat)
    (hn : (bl ++ ((rSlots (rField argMode) fs l).1 ++ close :: R')).length < n) :
    ∃ ys bl', All2 (FieldRel argMode) fs ys ∧ BT bl' ∧
      many0F (skip (opt blank) (Field.parse d)) n (bl ++ ((rSlots (rField argMode) fs l).1 ++ close :: R')) =
        .ok ys (bl' ++ close :: R') :=
  many0F_slots (skip (opt blank) (Field.parse d)) (rField argMode) (FieldRel argMode) (FieldOk d argMode) BT
    (fun R => hdP isDecDigit R = true) close
    (by
      intro x last l bl R hx hbl hlast hmid
      have hR : FieldFollow R ∧ (last = true → Sep R) := by
        cases last with
        | true => obtain ⟨R'', rfl⟩ := hlast rfl; exact ⟨(fieldFollow_close hc R'').1, fun _ => (fieldFollow_close hc R'').2⟩
        | false => exact ⟨fieldFollow_of_digit (hmid rfl), fun h => by cases h⟩
      refine ⟨fieldRead argMode x l, [], fieldRead_rel argMode x l, BT.nil, ?_, ?_⟩
      · have : 0 < (rField argMode x last l).1.length := List.length_pos_iff.mpr (rField_start argMode x last l []).2
        simp only [List.length_append, List.length_nil]; omega
      · simpa using field_step hx.1 hx.2.1 hx.2.2.1 argMode last l (fun hn => hx.2.2.2 (attrOpt_none hn)) hbl hR.1 hR.2)
    (by intro y last l R _; exact (rField_start argMode y last l R).1)
    (by intro bl R hbl; exact field_close_err d hc hbl)
    fs l bl n R' hall hbl hn

theorem all2_fieldRel_false : ∀ {xs ys : List Field}, All2 (FieldRel false) xs ys → xs = ys
  | _, _, .nil => rfl
  | _, _, .cons h t => by
    rcases h with h | ⟨h, _⟩
    · rw [h, all2_fieldRel_false t]
    · cases h

/-! ### struct-likes -/

def StructLike.depth (s : StructLike) : Nat := (s.fields.map Field.depth).foldl max 0
def StructLike.supported (s : StructLike) : Bool := s.fields.all Field.supported

theorem fieldOk_of_wf {d : Nat} {f : Field} (hw : f.wf = true) (hs : f.supported = true) (hd : f.depth < d) :
    FieldOk d false f := by
  refine ⟨hw, hs, hd, ?_⟩
  intro h
  rcases h with h | ⟨h, _⟩
  · simp only [Field.wf, Bool.and_eq_true, Bool.or_eq_true, bne_iff_ne, ne_eq, Bool.not_eq_true'] at hw
    rcases hw.2 with h' | h'
    · exact absurd h h'
    · exact h'
  · cases h

theorem structLike_rt {s : StructLike} (hw : s.wf = true) (hsup : s.supported = true) {d : Nat} (hd : s.depth < d)
    (last : Bool) (l : Layout) {R : List Char} (hR : ItemStart R) :
    ∃ g, BT g ∧ StructLike.parse d ((rStructLike s last l).1 ++ R) = .ok s (g ++ R) := by
  obtain ⟨name, fields, anns⟩ := s
  simp only [StructLike.wf, Bool.and_eq_true, List.all_eq_true] at hw
  obtain ⟨⟨hname, hfs⟩, han⟩ := hw
  simp only [StructLike.supported, List.all_eq_true] at hsup
  simp only [StructLike.depth] at hd
  have hall : ∀ f ∈ fields, FieldOk d false f := fun f hf =>
    fieldOk_of_wf (hfs f hf) (hsup f hf) (Nat.lt_of_le_of_lt ((foldl_max_le _ 0).2 _ (List.mem_map_of_mem hf)) hd)
  simp only [rStructLike, rSeq_fst, rSeq_snd, rLit_fst, rLit_snd, List.append_assoc, List.cons_append, List.nil_append]
  obtain ⟨ys, bl', hys, hbl', hm⟩ := fields_loop false (Or.inl rfl) fields hall (rB0 (rB0 l).2).2 (rB0_BT (rB0 l).2)
    ((rOptAnns anns (rSlots (rField false) fields (rB0 (rB0 l).2).2).2).1 ++
      ((rDefTail anns false last (rOptAnns anns (rSlots (rField false) fields (rB0 (rB0 l).2).2).2).2).1 ++ R)) _ (Nat.lt_succ_self _)
  have hys' := all2_fieldRel_false hys
  subst hys'
  obtain ⟨g, ann, hg, hann, htail⟩ := defTail_rt (fun anns' => ret ({ name := name, fields := fields, annotations := anns'.getD [] } : StructLike))
    han false last (rSlots (rField false) fields (rB0 (rB0 l).2).2).2 hR.nb hR.noSep (hR.ne '(' (by decide))
  refine ⟨g, hg, ?_⟩
  unfold StructLike.parse
  have hm' : many0 (skip (opt blank) (Field.parse d)) ((rB0 (rB0 l).2).1 ++ ((rSlots (rField false) fields (rB0 (rB0 l).2).2).1 ++
      '}' :: ((rOptAnns anns (rSlots (rField false) fields (rB0 (rB0 l).2).2).2).1 ++
      ((rDefTail anns false last (rOptAnns anns (rSlots (rField false) fields (rB0 (rB0 l).2).2).2).2).1 ++ R)))) =
      .ok fields (bl' ++ '}' :: ((rOptAnns anns (rSlots (rField false) fields (rB0 (rB0 l).2).2).2).1 ++
      ((rDefTail anns false last (rOptAnns anns (rSlots (rField false) fields (rB0 (rB0 l).2).2).2).2).1 ++ R))) := hm
  rw [andThen_of_ok (ident_rt hname ((rB0_BT _).sep_append (Or.inr (by rw [Sep, hdP_cons]; decide))).noIdent),
    andThen_optBlank (rB0_BT _) (by rw [NB, hdP_cons]; decide), andThen_of_ok (tag1 '{' _),
    andThen_of_ok hm', andThen_optBlank hbl' (by rw [NB, hdP_cons]; decide), andThen_of_ok (tag1 '}' _),
    htail, hann]
  rfl

theorem structItem_rt (kw : List Char) (P' : Nat → P StructLike)
    (hP : ∀ d, P' d = andThen (tag kw) fun _ => andThen blank fun _ => StructLike.parse d)
    {s : StructLike} (hw : s.wf = true) (hsup : s.supported = true) {d : Nat} (hd : s.depth < d)
    (last : Bool) (l : Layout) {R : List Char} (hR : ItemStart R) :
    ∃ g, BT g ∧ P' d (kw ++ ((rB1 l).1 ++ ((rStructLike s last (rB1 l).2).1 ++ R))) = .ok s (g ++ R) := by
  obtain ⟨g, hg, h⟩ := structLike_rt hw hsup hd last (rB1 l).2 hR
  refine ⟨g, hg, ?_⟩
  have hnb : NB ((rStructLike s last (rB1 l).2).1 ++ R) := by
    simp only [StructLike.wf, Bool.and_eq_true] at hw
    simp only [rStructLike, rSeq_fst, rLit_fst, List.append_assoc]
    exact ident_NB hw.1.1
  rw [hP, andThen_of_ok (tag_append _ _), andThen_blank (rB1_BT _) (rB1_ne _) hnb]
  exact h

end Pilota.Idl
