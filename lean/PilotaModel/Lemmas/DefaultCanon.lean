import PilotaModel.TGen.Project
import PilotaModel.Lemmas.ProjMono
import PilotaModel.Lemmas.GenTotal
/-  Helper lemmas for Props/C20b: `finish` on an empty slot table, the field loop over a list of accepted entries, slots of
    `filterMap`ped field lists with distinct ids. -/
namespace Pilota.TGen
open Pilota Pilota.Thrift

theorem finish_empty_ok_iff (fs : List Field) :
    (∃ out, finish fs [] = .ok out) ↔ ∀ fl ∈ fs, fl.required = true → fl.dflt.isSome = true := by
  induction fs with
  | nil => simp [finish]
  | cons fl fs ih =>
    simp only [finish, slotGet, List.find?_nil, Option.map_none, List.mem_cons, forall_eq_or_imp]
    cases hr : finish fs [] with
    | ok rest =>
      have hrest : ∀ fl ∈ fs, fl.required = true → fl.dflt.isSome = true := ih.mp ⟨rest, hr⟩
      cases hd : fl.dflt with
      | some dv => simp; exact hrest
      | none =>
        by_cases hq : fl.required = true
        · simp [hq]
        · simp [hq]; exact hrest
    | err k =>
      have : ¬ ∀ fl ∈ fs, fl.required = true → fl.dflt.isSome = true := fun h => by
        obtain ⟨o, ho⟩ := ih.mpr h; rw [hr] at ho; cases ho
      constructor
      · rintro ⟨o, ho⟩; cases ho
      · rintro ⟨_, h⟩; exact absurd h this
    | panic m => exact absurd hr (finish_ne_panic fs [] m)
    | fuel => exact absurd hr (finish_ne_fuel fs [])

/-! ### the default is a value of its own type -/

/-- `slots` holds no entry for `id` -/
def Fresh (slots : List (Int × TVal)) (id : Int) : Prop := ∀ p ∈ slots, p.1 ≠ id

theorem slotSet_fresh (slots : List (Int × TVal)) (id : Int) (v : TVal) (h : Fresh slots id) : slotSet slots id v = slots ++ [(id, v)] := by
  unfold slotSet
  congr 1
  rw [List.filter_eq_self]
  intro p hp
  simpa using h p hp

variable (d : Doc) (dp : Option Nat)

/-- the field loop over a list of entries each of which is accepted as it is: the slots grow by exactly those entries -/
theorem projFields_entries (fs : List Field) (F : Nat) : ∀ (es : List (Int × TVal)) (slots : List (Int × TVal)),
    (∀ p ∈ es, inS 2 p.1 ∧ ∃ fl, fs.find? (fun x => x.id == p.1 && d.ttype x.ty == p.2.ttype) = some fl ∧ projTy d dp F fl.ty p.2 = some (.ok p.2)) →
    es.Pairwise (fun a b => a.1 ≠ b.1) → (∀ p ∈ es, Fresh slots p.1) →
    projFields d dp (F + es.length + 1) fs slots (TFields.ofList es) = some (.ok (slots ++ es)) := by
  intro es
  induction es with
  | nil => intro slots _ _ _; simp [TFields.ofList, projFields]
  | cons p es ih =>
    intro slots hacc hpw hfresh
    obtain ⟨id, v⟩ := p
    obtain ⟨hin, fl, hfind, hproj⟩ := hacc (id, v) (by simp)
    have hlen : F + ((id, v) :: es).length + 1 = (F + es.length + 1) + 1 := by simp; omega
    rw [hlen]
    simp only [TFields.ofList]
    rw [projFields]
    simp only [hin, not_true_eq_false, if_false]
    simp only at hfind
    rw [hfind]
    have hmono : projTy d dp (F + es.length + 1) fl.ty v = some (.ok v) := projTy_mono d dp F _ (by omega) fl.ty v v hproj
    simp only [hmono]
    rw [slotSet_fresh slots id v (hfresh (id, v) (by simp))]
    have hpw' := List.pairwise_cons.mp hpw
    rw [ih (slots ++ [(id, v)]) (fun q hq => hacc q (by simp [hq])) hpw'.2 ?_]
    · simp
    · intro q hq r hr
      simp only [List.mem_append, List.mem_singleton] at hr
      rcases hr with hr | hr
      · exact hfresh q (by simp [hq]) r hr
      · subst hr; exact fun heq => hpw'.1 q hq heq

theorem find_unique (fs : List Field) (hpw : fs.Pairwise (fun a b => a.id ≠ b.id)) (fl : Field) (hm : fl ∈ fs)
    (q : Field → Bool) (hq : q fl = true) (hqid : ∀ x, q x = true → x.id = fl.id) : fs.find? q = some fl := by
  induction fs with
  | nil => cases hm
  | cons a rest ih =>
    have hp := List.pairwise_cons.mp hpw
    by_cases ha : a = fl
    · subst ha; simp [List.find?, hq]
    · have hmr : fl ∈ rest := by
        rcases List.mem_cons.mp hm with h | h
        · exact absurd h.symm ha
        · exact h
      have hqa : q a = false := by
        cases hqa : q a with
        | false => rfl
        | true => exact absurd (hqid a hqa) (hp.1 fl hmr)
      simp only [List.find?, hqa]
      exact ih hp.2 hmr

section
variable (g : Field → Option (Int × TVal)) (hg : ∀ fl p, g fl = some p → p.1 = fl.id)
include hg

theorem mem_filterMap_id (fs : List Field) (p : Int × TVal) (hp : p ∈ fs.filterMap g) : ∃ fl ∈ fs, p.1 = fl.id := by
  simp only [List.mem_filterMap] at hp
  obtain ⟨fl, hfl, h⟩ := hp
  exact ⟨fl, hfl, hg fl p h⟩

/-- with distinct ids, the slot of a field in `fs.filterMap g` is what `g` gives for that field -/
theorem slotGet_filterMap (fs : List Field) (hpw : fs.Pairwise (fun a b => a.id ≠ b.id)) (fl : Field) (hm : fl ∈ fs) :
    slotGet (fs.filterMap g) fl.id = (g fl).map (·.2) := by
  induction fs with
  | nil => cases hm
  | cons a rest ih =>
    have hp := List.pairwise_cons.mp hpw
    simp only [List.filterMap_cons]
    by_cases ha : a = fl
    · subst ha
      cases hga : g a with
      | some p =>
        have := hg a p hga
        simp [slotGet, List.find?, this]
      | none =>
        simp only [Option.map_none]
        unfold slotGet
        rw [Option.map_eq_none_iff, List.find?_eq_none]
        intro p hp'
        obtain ⟨x, hx, hpx⟩ := mem_filterMap_id g hg rest p hp'
        simp only [beq_iff_eq]
        rw [hpx]
        exact fun h => hp.1 x hx h.symm
    · have hmr : fl ∈ rest := by
        rcases List.mem_cons.mp hm with h | h
        · exact absurd h.symm ha
        · exact h
      have hne : a.id ≠ fl.id := hp.1 fl hmr
      cases hga : g a with
      | some p =>
        have hpid := hg a p hga
        have : (p.1 == fl.id) = false := by simp [hpid, hne]
        simp only [slotGet, List.find?, this]
        exact ih hp.2 hmr
      | none => exact ih hp.2 hmr
end

/-- after the field loop: when every declared field finds in the slots exactly what `dfltEntry` gives for it, `finish`
returns the list of those entries in declaration order -/
theorem finish_of_slots (z : STy → TVal) (fs : List Field) (slots : List (Int × TVal))
    (h : ∀ fl ∈ fs, slotGet slots fl.id = (dfltEntry z fl).map (·.2)) :
    finish fs slots = .ok (fs.filterMap (dfltEntry z)) := by
  induction fs with
  | nil => simp [finish]
  | cons fl fs ih =>
    have ih' := ih (fun x hx => h x (by simp [hx]))
    have hfl := h fl (by simp)
    simp only [finish, ih', List.filterMap_cons]
    cases hd : fl.dflt with
    | some dv =>
      simp only [dfltEntry, hd, Option.map_some] at hfl ⊢
      simp [hfl]
    | none =>
      by_cases hq : fl.required = true
      · simp only [dfltEntry, hd, hq, if_true, Option.map_some] at hfl ⊢
        simp [hfl]
      · simp only [dfltEntry, hd, hq, Option.map_none] at hfl ⊢
        simp [hfl, hq]

theorem dfltEntry_id (z : STy → TVal) (fl : Field) (p : Int × TVal) (h : dfltEntry z fl = some p) : p.1 = fl.id := by
  unfold dfltEntry at h
  split at h
  · cases h; rfl
  · split at h
    · cases h; rfl
    · cases h

end Pilota.TGen
