import PilotaModel.Lemmas.KeepRTBase
import PilotaModel.Lemmas.DefaultCanon
/-  Struct-level lemmas for the C13 round trip: what `hasFields` says about a wire struct, `finish` in terms of slot
    lookups, slots after a run of `slotSet`s, the field loop of the full reader over a list of accepted entries. -/
namespace Pilota.TGen
open Pilota Pilota.Thrift

section
variable (d : Doc) (P : STy → TVal → Bool)

theorem hasFields_mem : ∀ (fs : List Field) (wfs : TFields), hasFields d P fs wfs = true →
    ∀ p ∈ wfs.toList, ∃ fl ∈ fs, fl.id = p.1 ∧ inS 2 p.1 ∧ d.ttype fl.ty = p.2.ttype ∧ P fl.ty p.2 = true := by
  intro fs
  induction fs with
  | nil => intro wfs h p hp; cases wfs <;> simp [hasFields, TFields.toList] at h hp
  | cons fl fs ih =>
    intro wfs h p hp
    cases wfs with
    | nil => simp [TFields.toList] at hp
    | cons id v r =>
      simp only [hasFields] at h
      by_cases hid : (fl.id == id) = true
      · simp only [hid, if_true, Bool.and_eq_true, decide_eq_true_eq, beq_iff_eq] at h
        simp only [TFields.toList, List.mem_cons] at hp
        rcases hp with rfl | hp
        · exact ⟨fl, by simp, by simpa using hid, h.1.1.1, h.1.1.2, h.1.2⟩
        · obtain ⟨fl', hfl', hh⟩ := ih r h.2 p hp
          exact ⟨fl', by simp [hfl'], hh⟩
      · simp only [hid, Bool.false_eq_true, if_false, Bool.and_eq_true] at h
        obtain ⟨fl', hfl', hh⟩ := ih (.cons id v r) h.2 p hp
        exact ⟨fl', by simp [hfl'], hh⟩

theorem hasFields_absent : ∀ (fs : List Field) (wfs : TFields), hasFields d P fs wfs = true →
    ∀ fl ∈ fs, (∃ p ∈ wfs.toList, p.1 = fl.id) ∨ (fl.required = false ∧ fl.dflt = none) := by
  intro fs
  induction fs with
  | nil => intro wfs _ fl hfl; cases hfl
  | cons a fs ih =>
    intro wfs h fl hfl
    cases wfs with
    | nil =>
      simp only [hasFields, Bool.and_eq_true, Bool.not_eq_true', Option.isNone_iff_eq_none] at h
      rcases List.mem_cons.mp hfl with rfl | hfl
      · exact .inr ⟨h.1.1, h.1.2⟩
      · exact ih .nil h.2 fl hfl
    | cons id v r =>
      simp only [hasFields] at h
      by_cases hid : (a.id == id) = true
      · simp only [hid, if_true, Bool.and_eq_true] at h
        rcases List.mem_cons.mp hfl with rfl | hfl
        · exact .inl ⟨(id, v), by simp [TFields.toList], by simpa using (beq_iff_eq.mp hid).symm⟩
        · rcases ih r h.2 fl hfl with ⟨p, hp, hpid⟩ | hh
          · exact .inl ⟨p, by simp [TFields.toList, hp], hpid⟩
          · exact .inr hh
      · simp only [hid, Bool.false_eq_true, if_false, Bool.and_eq_true, Bool.not_eq_true', Option.isNone_iff_eq_none] at h
        rcases List.mem_cons.mp hfl with rfl | hfl
        · exact .inr ⟨h.1.1, h.1.2⟩
        · exact ih _ h.2 fl hfl

theorem hasFields_nodup : ∀ (fs : List Field) (wfs : TFields), fs.Pairwise (fun a b => a.id ≠ b.id) → hasFields d P fs wfs = true →
    (wfs.toList.map (·.1)).Nodup := by
  intro fs
  induction fs with
  | nil => intro wfs _ h; cases wfs <;> simp [hasFields, TFields.toList] at h ⊢
  | cons fl fs ih =>
    intro wfs hpw h
    have hp := List.pairwise_cons.mp hpw
    cases wfs with
    | nil => simp [TFields.toList]
    | cons id v r =>
      have h0 := h
      simp only [hasFields] at h
      by_cases hid : (fl.id == id) = true
      · simp only [hid, if_true, Bool.and_eq_true] at h
        simp only [TFields.toList, List.map_cons, List.nodup_cons]
        refine ⟨?_, ih r hp.2 h.2⟩
        intro hm
        obtain ⟨q, hq, hqid⟩ := List.mem_map.mp hm
        obtain ⟨fl', hfl', hid', _⟩ := hasFields_mem d P fs r h.2 q hq
        exact hp.1 fl' hfl' (by rw [beq_iff_eq.mp hid, hid', hqid])
      · simp only [hid, Bool.false_eq_true, if_false, Bool.and_eq_true] at h
        exact ih _ hp.2 h.2

/-- with distinct wire ids, looking an id up gives the entry that is there -/
theorem slotGet_of_mem : ∀ (l : List (Int × TVal)), (l.map (·.1)).Nodup → ∀ p ∈ l, slotGet l p.1 = some p.2 := by
  intro l
  induction l with
  | nil => intro _ p hp; cases hp
  | cons a l ih =>
    intro hn p hp
    simp only [List.map_cons, List.nodup_cons] at hn
    rcases List.mem_cons.mp hp with rfl | hp
    · simp [slotGet]
    · have : (a.1 == p.1) = false := by
        simp only [beq_eq_false_iff_ne]
        intro heq
        exact hn.1 (heq ▸ List.mem_map.mpr ⟨p, hp, rfl⟩)
      have := ih hn.2 p hp
      simp only [slotGet, List.find?_cons] at this ⊢
      rename_i hne
      simp [hne, this]

theorem slotGet_none_of_not_mem (l : List (Int × TVal)) (id : Int) (h : ∀ p ∈ l, p.1 ≠ id) : slotGet l id = none := by
  unfold slotGet
  rw [Option.map_eq_none_iff, List.find?_eq_none]
  intro p hp; simpa using h p hp

theorem slotGet_some_mem (l : List (Int × TVal)) (id : Int) (v : TVal) (h : slotGet l id = some v) : (id, v) ∈ l := by
  unfold slotGet at h
  cases hf : l.find? (fun x => x.1 == id) with
  | none => simp [hf] at h
  | some p =>
    simp only [hf, Option.map_some, Option.some.injEq] at h
    have hm := List.mem_of_find?_eq_some hf
    have hp := List.find?_some hf
    have : p = (id, v) := by
      obtain ⟨a, b⟩ := p
      simp only [beq_iff_eq] at hp
      simp only at h
      rw [hp, h]
    rw [← this]; exact hm

/-- `finish` over a typed wire struct, in terms of slot lookups only -/
theorem hasFields_finish : ∀ (fs : List Field) (wfs : TFields) (slots : List (Int × TVal)),
    fs.Pairwise (fun a b => a.id ≠ b.id) → hasFields d P fs wfs = true →
    (∀ fl ∈ fs, slotGet slots fl.id = slotGet wfs.toList fl.id) → finish fs slots = .ok wfs.toList := by
  intro fs
  induction fs with
  | nil => intro wfs slots _ h _; cases wfs <;> simp [hasFields, TFields.toList, finish] at h ⊢
  | cons fl fs ih =>
    intro wfs slots hpw h hs
    have hp := List.pairwise_cons.mp hpw
    cases wfs with
    | nil =>
      simp only [hasFields, Bool.and_eq_true, Bool.not_eq_true', Option.isNone_iff_eq_none] at h
      have ih' := ih .nil slots hp.2 h.2 (fun x hx => hs x (by simp [hx]))
      have h1 := hs fl (by simp)
      simp only [TFields.toList, slotGet, List.find?_nil, Option.map_none] at h1 ih' ⊢
      simp only [finish, ih']
      have : slotGet slots fl.id = none := h1
      simp [this, h.1.1, h.1.2]
    | cons id v r =>
      simp only [hasFields] at h
      by_cases hid : (fl.id == id) = true
      · have hid' : fl.id = id := beq_iff_eq.mp hid
        simp only [hid, if_true, Bool.and_eq_true] at h
        have ih' := ih r slots hp.2 h.2 (by
          intro x hx
          rw [hs x (by simp [hx])]
          have hne : (id == x.id) = false := by
            simp only [beq_eq_false_iff_ne]; intro heq; exact hp.1 x hx (by rw [hid', heq])
          simp [TFields.toList, slotGet, List.find?_cons, hne])
        have h1 := hs fl (by simp)
        have : slotGet slots fl.id = some v := by
          rw [h1]; simp [TFields.toList, slotGet, List.find?_cons, hid']
        simp only [finish, ih', TFields.toList]
        rw [this]; simp [hid']
      · simp only [hid, Bool.false_eq_true, if_false, Bool.and_eq_true, Bool.not_eq_true', Option.isNone_iff_eq_none] at h
        have ih' := ih (.cons id v r) slots hp.2 h.2 (fun x hx => hs x (by simp [hx]))
        have h1 := hs fl (by simp)
        have hnone : slotGet (TFields.cons id v r).toList fl.id = none := by
          apply slotGet_none_of_not_mem
          intro q hq heq
          obtain ⟨fl', hfl', hid', _⟩ := hasFields_mem d P fs _ h.2 q hq
          exact hp.1 fl' hfl' (by rw [hid', heq])
        rw [hnone] at h1
        simp only [finish, ih', h1, h.1.1, h.1.2]
        simp

end

theorem same_field : ∀ (fs : List Field), fs.Pairwise (fun a b => a.id ≠ b.id) → ∀ a b, a ∈ fs → b ∈ fs → a.id = b.id → a = b := by
  intro fs
  induction fs with
  | nil => intro _ a b ha; cases ha
  | cons x fs ih =>
    intro hpw a b ha hb hid
    have hp := List.pairwise_cons.mp hpw
    rcases List.mem_cons.mp ha with ha | ha <;> rcases List.mem_cons.mp hb with hb | hb
    · rw [ha, hb]
    · exact absurd (ha ▸ hid) (hp.1 b hb)
    · exact absurd (hb ▸ hid.symm) (hp.1 a ha)
    · exact ih hp.2 a b ha hb hid

theorem same_key {α : Type} (key : α → Int) : ∀ (l : List α), l.Pairwise (fun a b => key a ≠ key b) → ∀ a b, a ∈ l → b ∈ l → key a = key b → a = b := by
  intro l
  induction l with
  | nil => intro _ a b ha; cases ha
  | cons x l ih =>
    intro hpw a b ha hb hid
    have hp := List.pairwise_cons.mp hpw
    rcases List.mem_cons.mp ha with ha | ha <;> rcases List.mem_cons.mp hb with hb | hb
    · rw [ha, hb]
    · exact absurd (ha ▸ hid) (hp.1 b hb)
    · exact absurd (hb ▸ hid.symm) (hp.1 a ha)
    · exact ih hp.2 a b ha hb hid

theorem find_unique_key {α : Type} (key : α → Int) (l : List α) (hpw : l.Pairwise (fun a b => key a ≠ key b)) (x : α) (hm : x ∈ l)
    (q : α → Bool) (hq : q x = true) (hqid : ∀ y, q y = true → key y = key x) : l.find? q = some x := by
  induction l with
  | nil => cases hm
  | cons a rest ih =>
    have hp := List.pairwise_cons.mp hpw
    by_cases ha : a = x
    · subst ha; simp [List.find?, hq]
    · have hmr : x ∈ rest := by
        rcases List.mem_cons.mp hm with h | h
        · exact absurd h.symm ha
        · exact h
      have hqa : q a = false := by
        cases hqa : q a with
        | false => rfl
        | true => exact absurd (hqid a hqa) (hp.1 x hmr)
      simp only [List.find?, hqa]
      exact ih hp.2 hmr

/-! ### `finish`, generically -/

theorem finish_mem : ∀ (fs : List Field) (slots out : List (Int × TVal)), finish fs slots = .ok out →
    ∀ p ∈ out, ∃ fl ∈ fs, fl.id = p.1 ∧ (slotGet slots fl.id = some p.2 ∨ (slotGet slots fl.id = none ∧ fl.dflt = some p.2)) := by
  intro fs
  induction fs with
  | nil => intro slots out h p hp; simp only [finish, Out.ok.injEq] at h; subst h; cases hp
  | cons fl fs ih =>
    intro slots out h p hp
    simp only [finish] at h
    cases hr : finish fs slots with
    | ok rest =>
      simp only [hr] at h
      have lift : p ∈ rest → ∃ fl' ∈ fl :: fs, fl'.id = p.1 ∧ (slotGet slots fl'.id = some p.2 ∨ (slotGet slots fl'.id = none ∧ fl'.dflt = some p.2)) := by
        intro hpr
        obtain ⟨fl', hfl', hh⟩ := ih slots rest hr p hpr
        exact ⟨fl', by simp [hfl'], hh⟩
      cases hg : slotGet slots fl.id with
      | some v =>
        simp only [hg, Out.ok.injEq] at h; subst h
        rcases List.mem_cons.mp hp with rfl | hp
        · exact ⟨fl, by simp, rfl, .inl hg⟩
        · exact lift hp
      | none =>
        cases hd : fl.dflt with
        | some dv =>
          simp only [hg, hd, Out.ok.injEq] at h; subst h
          rcases List.mem_cons.mp hp with rfl | hp
          · exact ⟨fl, by simp, rfl, .inr ⟨hg, hd⟩⟩
          · exact lift hp
        | none =>
          simp only [hg, hd] at h
          by_cases hq : fl.required = true
          · simp [hq] at h
          · simp only [hq, Bool.false_eq_true, if_false, Out.ok.injEq] at h; subst h; exact lift hp
    | err k => simp [hr] at h
    | panic m => simp [hr] at h
    | fuel => simp [hr] at h

theorem finish_has : ∀ (fs : List Field) (slots out : List (Int × TVal)), finish fs slots = .ok out →
    ∀ fl ∈ fs, ∀ v, slotGet slots fl.id = some v → (fl.id, v) ∈ out := by
  intro fs
  induction fs with
  | nil => intro slots out _ fl hfl; cases hfl
  | cons a fs ih =>
    intro slots out h fl hfl v hv
    simp only [finish] at h
    cases hr : finish fs slots with
    | ok rest =>
      simp only [hr] at h
      have inrest : fl ∈ fs → (fl.id, v) ∈ rest := fun hm => ih slots rest hr fl hm v hv
      cases hg : slotGet slots a.id with
      | some w =>
        simp only [hg, Out.ok.injEq] at h; subst h
        rcases List.mem_cons.mp hfl with rfl | hm
        · rw [hg] at hv; cases hv; simp
        · simp [inrest hm]
      | none =>
        have hne : fl ∈ fs := by
          rcases List.mem_cons.mp hfl with rfl | hm
          · rw [hg] at hv; cases hv
          · exact hm
        cases hd : a.dflt with
        | some dv => simp only [hg, hd, Out.ok.injEq] at h; subst h; simp [inrest hne]
        | none =>
          simp only [hg, hd] at h
          by_cases hq : a.required = true
          · simp [hq] at h
          · simp only [hq, Bool.false_eq_true, if_false, Out.ok.injEq] at h; subst h; exact inrest hne
    | err k => simp [hr] at h
    | panic m => simp [hr] at h
    | fuel => simp [hr] at h

/-! ### slots after a run of `slotSet`s -/

def setAll (s ks : List (Int × TVal)) : List (Int × TVal) := ks.foldl (fun a p => slotSet a p.1 p.2) s

theorem setAll_get_some : ∀ (ks s : List (Int × TVal)) (id : Int) (v : TVal), slotGet (setAll s ks) id = some v →
    (id, v) ∈ ks ∨ slotGet s id = some v := by
  intro ks
  induction ks with
  | nil => intro s id v h; exact .inr h
  | cons k ks ih =>
    intro s id v h
    simp only [setAll, List.foldl_cons] at h
    rcases ih (slotSet s k.1 k.2) id v h with hm | hs
    · exact .inl (by simp [hm])
    · rw [slotGet_slotSet] at hs
      by_cases hk : k.1 = id
      · simp only [hk, if_true, Option.some.injEq] at hs
        exact .inl (by rw [← hs, ← hk]; simp)
      · simp only [hk, if_false] at hs; exact .inr hs

theorem setAll_get_isSome : ∀ (ks s : List (Int × TVal)) (id : Int), ((∃ p ∈ ks, p.1 = id) ∨ (slotGet s id).isSome = true) →
    (slotGet (setAll s ks) id).isSome = true := by
  intro ks
  induction ks with
  | nil =>
    intro s id h
    rcases h with ⟨p, hp, _⟩ | h
    · cases hp
    · exact h
  | cons k ks ih =>
    intro s id h
    simp only [setAll, List.foldl_cons]
    apply ih
    rcases h with ⟨p, hp, hpid⟩ | h
    · rcases List.mem_cons.mp hp with rfl | hp
      · right; rw [slotGet_slotSet]; simp [hpid]
      · left; exact ⟨p, hp, hpid⟩
    · right; rw [slotGet_slotSet]; by_cases hk : k.1 = id <;> simp [hk, h]

/-! ### the field loop of a reader over a list of entries it accepts -/

section
variable (d : Doc) (dp : Option Nat)

theorem projFields_all (fs : List Field) (φ : Int → TVal) (F : Nat) : ∀ (es slots : List (Int × TVal)),
    (∀ p ∈ es, inS 2 p.1 ∧ ∃ fl, fs.find? (fun x => x.id == p.1 && d.ttype x.ty == p.2.ttype) = some fl ∧
      projTy d dp F fl.ty p.2 = some (.ok (φ p.1))) →
    ∃ slots', projFields d dp (F + es.length + 1) fs slots (TFields.ofList es) = some (.ok slots') ∧
      ∀ id, slotGet slots' id = if es.any (fun p => p.1 == id) then some (φ id) else slotGet slots id := by
  intro es
  induction es with
  | nil => intro slots _; exact ⟨slots, by simp [TFields.ofList, projFields], by simp⟩
  | cons p es ih =>
    intro slots hacc
    obtain ⟨id, v⟩ := p
    obtain ⟨hin, fl, hfind, hproj⟩ := hacc (id, v) (by simp)
    have hlen : F + ((id, v) :: es).length + 1 = (F + es.length + 1) + 1 := by simp; omega
    rw [hlen]
    simp only [TFields.ofList]
    rw [projFields]
    simp only [hin, not_true_eq_false, if_false]
    simp only at hfind
    rw [hfind]
    have hmono : projTy d dp (F + es.length + 1) fl.ty v = some (.ok (φ id)) := projTy_mono d dp F _ (by omega) fl.ty v _ hproj
    simp only [hmono]
    obtain ⟨slots', hrun, hget⟩ := ih (slotSet slots id (φ id)) (fun q hq => hacc q (by simp [hq]))
    refine ⟨slots', hrun, ?_⟩
    intro j
    rw [hget j, slotGet_slotSet]
    simp only [List.any_cons]
    by_cases hj : id = j
    · subst hj; simp
    · have : (id == j) = false := by simpa using hj
      simp only [this, hj, if_false, Bool.false_or]

end

/-- finitely many fuel witnesses can be replaced by one -/
theorem uniform_fuel {α : Type} (Q : α → Nat → Prop) (hmono : ∀ a f g, f ≤ g → Q a f → Q a g) :
    ∀ (l : List α), (∀ a ∈ l, ∃ G, Q a G) → ∃ F, ∀ a ∈ l, Q a F := by
  intro l
  induction l with
  | nil => intro _; exact ⟨0, fun a ha => by cases ha⟩
  | cons a l ih =>
    intro h
    obtain ⟨F, hF⟩ := ih (fun x hx => h x (by simp [hx]))
    obtain ⟨G, hG⟩ := h a (by simp)
    refine ⟨max F G, ?_⟩
    intro x hx
    rcases List.mem_cons.mp hx with rfl | hx
    · exact hmono _ G _ (Nat.le_max_right _ _) hG
    · exact hmono x F _ (Nat.le_max_left _ _) (hF x hx)

end Pilota.TGen
