import PilotaModel.Lemmas.PbRepeated
import PilotaModel.Proto.Schema
/-
  Totality of the protobuf decoders: no modelled Rust precondition is ever violated (`.panic`),
  the model's loop budgets are never exhausted (`.fuel`), and every successful step consumes
  input.  `Out.good P o`: `o` is an error, or a success satisfying `P`.
-/
namespace Pilota.Proto
open Pilota

def Out.good {α} (P : α → Prop) : Out α → Prop
  | .ok a => P a
  | .err _ => True
  | .panic _ => False
  | .fuel => False

theorem Out.good_imp {α} {P Q : α → Prop} (h : ∀ a, P a → Q a) : ∀ o : Out α, Out.good P o → Out.good Q o := by
  intro o; cases o <;> simp [Out.good]; exact h _

theorem decodeVarint_good (bs : Bytes) : Out.good (fun p => p.2.length < bs.length) (decodeVarint bs) := by
  cases h : decodeVarint bs with
  | ok p =>
    obtain ⟨v, r⟩ := p
    obtain ⟨g, hg, hp, _⟩ := decodeVarint_ok bs v r h
    simp only [Out.good]; rw [hg]; simp; omega
  | err k => trivial
  | panic s => exact absurd h ((decodeVarint_not_panic bs).1 s)
  | fuel => exact absurd h (decodeVarint_not_panic bs).2

theorem decodeKey_good (bs : Bytes) : Out.good (fun p => p.2.length < bs.length) (decodeKey bs) := by
  have := decodeVarint_good bs
  unfold decodeKey
  grind [Out.good]

theorem advance_good (n : Nat) (bs : Bytes) (h : n ≤ bs.length) :
    advance n bs = .ok (bs.drop n) := by simp [advance, h]

theorem copyToBytes_good (n : Nat) (bs : Bytes) (h : n ≤ bs.length) :
    copyToBytes n bs = .ok (bs.take n, bs.drop n) := by simp [copyToBytes, h]

/-- a loop body: never panics, and consumes at least one byte when it succeeds. -/
def StepOK {σ : Type} (step : σ → Bytes → Out (σ × Bytes)) : Prop :=
  ∀ s bs, Out.good (fun p => p.2.length < bs.length) (step s bs)

theorem mergeLoopGo_good {σ : Type} (step : σ → Bytes → Out (σ × Bytes)) (hs : StepOK step) (limit : Nat) :
    ∀ (f : Nat) (s : σ) (bs : Bytes), bs.length < f →
      Out.good (fun p => p.2.length ≤ bs.length ∧ p.2.length = limit) (mergeLoopGo step f s bs limit) := by
  intro f
  induction f with
  | zero => intro s bs h; omega
  | succ f ih =>
    intro s bs hf
    unfold mergeLoopGo
    split
    · have h1 := hs s bs
      cases hst : step s bs with
      | ok p =>
        obtain ⟨s', r⟩ := p
        rw [hst] at h1
        simp only [Out.good] at h1
        have := ih s' r (by omega)
        simp only
        exact Out.good_imp (fun a ha => ⟨by omega, ha.2⟩) _ this
      | err k => trivial
      | panic e => rw [hst] at h1; exact h1.elim
      | fuel => rw [hst] at h1; exact h1.elim
    · split
      · trivial
      · simp only [Out.good]; omega

theorem mergeLoop_good {σ : Type} (step : σ → Bytes → Out (σ × Bytes)) (hs : StepOK step) (s : σ) (bs : Bytes) :
    Out.good (fun p => p.2.length < bs.length) (mergeLoop step s bs) := by
  unfold mergeLoop
  have h1 := decodeVarint_good bs
  cases hd : decodeVarint bs with
  | ok p =>
    obtain ⟨len, r⟩ := p
    rw [hd] at h1; simp only [Out.good] at h1
    simp only
    split
    · trivial
    · have := mergeLoopGo_good step hs (r.length - len) (r.length + 1) s r (by omega)
      exact Out.good_imp (fun a ha => by omega) _ this
  | err k => trivial
  | panic e => rw [hd] at h1; exact h1.elim
  | fuel => rw [hd] at h1; exact h1.elim

/-! ### skip_field -/

def SkipOK (skip : WireType → Nat → Bytes → Out Bytes) : Prop :=
  ∀ wt tag bs, Out.good (fun r => r.length ≤ bs.length) (skip wt tag bs)

theorem groupLoop_good (skip : WireType → Nat → Bytes → Out Bytes) (hs : SkipOK skip) (tag : Nat) :
    ∀ (f : Nat) (bs : Bytes), bs.length < f → Out.good (fun r => r.length < bs.length) (groupLoop skip tag f bs) := by
  intro f
  induction f with
  | zero => intro bs h; omega
  | succ f ih =>
    intro bs hf
    unfold groupLoop
    have h1 := decodeKey_good bs
    cases hk : decodeKey bs with
    | ok p =>
      obtain ⟨⟨itag, iwt⟩, r⟩ := p
      rw [hk] at h1; simp only [Out.good] at h1
      simp only
      split
      · split
        · trivial
        · simp only [Out.good]; exact h1
      · have h2 := hs iwt itag r
        cases hsk : skip iwt itag r with
        | ok r' =>
          rw [hsk] at h2; simp only [Out.good] at h2
          have := ih r' (by omega)
          exact Out.good_imp (fun a ha => by omega) _ this
        | err k => trivial
        | panic e => rw [hsk] at h2; exact h2.elim
        | fuel => rw [hsk] at h2; exact h2.elim
    | err k => trivial
    | panic e => rw [hk] at h1; exact h1.elim
    | fuel => rw [hk] at h1; exact h1.elim

theorem skipField_good (ctx : Nat) : SkipOK (skipField ctx) := by
  induction ctx with
  | zero => intro wt tag bs; simp [skipField, Out.good]
  | succ c ih =>
    intro wt tag bs
    unfold skipField
    cases wt with
    | varint =>
      have := decodeVarint_good bs
      simp only
      cases hd : decodeVarint bs with
      | ok p => obtain ⟨v, r⟩ := p; rw [hd] at this; simp [Out.good, advance] at this ⊢; omega
      | err k => trivial
      | panic e => rw [hd] at this; exact this.elim
      | fuel => rw [hd] at this; exact this.elim
    | i32 =>
      simp only; split
      · trivial
      · rw [advance_good 4 bs (by omega)]; simp [Out.good]
    | i64 =>
      simp only; split
      · trivial
      · rw [advance_good 8 bs (by omega)]; simp [Out.good]
    | len =>
      have := decodeVarint_good bs
      simp only
      cases hd : decodeVarint bs with
      | ok p =>
        obtain ⟨n, r⟩ := p; rw [hd] at this; simp only [Out.good] at this
        simp only; split
        · trivial
        · rw [advance_good n r (by omega)]; simp [Out.good]; omega
      | err k => trivial
      | panic e => rw [hd] at this; exact this.elim
      | fuel => rw [hd] at this; exact this.elim
    | sgroup =>
      have := groupLoop_good (skipField c) ih tag (bs.length + 1) bs (by omega)
      simp only
      cases hg : groupLoop (skipField c) tag (bs.length + 1) bs with
      | ok r => rw [hg] at this; simp [Out.good, advance] at this ⊢; omega
      | err k => trivial
      | panic e => rw [hg] at this; exact this.elim
      | fuel => rw [hg] at this; exact this.elim
    | egroup => trivial

/-! ### scalar modules -/

namespace Codec

theorem mergeBytes_good (bs : Bytes) : Out.good (fun p => p.2.length < bs.length) (mergeBytes bs) := by
  have := decodeVarint_good bs
  unfold mergeBytes
  cases hd : decodeVarint bs with
  | ok p =>
    obtain ⟨n, r⟩ := p; rw [hd] at this; simp only [Out.good] at this
    simp only; split
    · trivial
    · rw [copyToBytes_good n r (by omega)]; simp [Out.good]; omega
  | err k => trivial
  | panic e => rw [hd] at this; exact this.elim
  | fuel => rw [hd] at this; exact this.elim

theorem shape_fixed_pos (c : Codec) (w : Nat) (h : c.shape = .fixed w) : 0 < w := by
  cases c <;> simp [shape] at h <;> omega

theorem mergePayload_good (c : Codec) (bs : Bytes) : Out.good (fun p => p.2.length < bs.length) (c.mergePayload bs) := by
  unfold mergePayload
  cases hs : c.shape with
  | varint =>
    have := decodeVarint_good bs
    simp only
    cases hd : decodeVarint bs with
    | ok p => obtain ⟨n, r⟩ := p; rw [hd] at this; exact this
    | err k => trivial
    | panic e => rw [hd] at this; exact this.elim
    | fuel => rw [hd] at this; exact this.elim
  | fixed w =>
    have hw := shape_fixed_pos c w hs
    simp only; split
    · trivial
    · rw [copyToBytes_good w bs (by omega)]; simp [Out.good]; omega
  | lenDelim =>
    have := mergeBytes_good bs
    simp only
    cases hd : mergeBytes bs with
    | ok p =>
      obtain ⟨b, r⟩ := p; rw [hd] at this
      simp only; split
      · trivial
      · exact this
    | err k => trivial
    | panic e => rw [hd] at this; exact this.elim
    | fuel => rw [hd] at this; exact this.elim

theorem merge_good (c : Codec) (wt : WireType) (bs : Bytes) : Out.good (fun p => p.2.length < bs.length) (c.merge wt bs) := by
  unfold merge checkWireType
  by_cases hw : c.wt = wt
  · simp only [hw, if_true]; exact mergePayload_good c bs
  · simp only [hw, if_false]; trivial

theorem mergeRepeated_good (c : Codec) (wt : WireType) (acc : List SVal) (bs : Bytes) :
    Out.good (fun p => p.2.length < bs.length) (c.mergeRepeated wt acc bs) := by
  unfold mergeRepeated
  split
  · apply mergeLoop_good
    intro s b
    have := merge_good c c.wt b
    unfold packedStep
    cases hm : c.merge c.wt b with
    | ok p => obtain ⟨v, r⟩ := p; rw [hm] at this; exact this
    | err k => trivial
    | panic e => rw [hm] at this; exact this.elim
    | fuel => rw [hm] at this; exact this.elim
  · unfold checkWireType
    by_cases hw : c.wt = wt
    · have := merge_good c wt bs
      simp only [hw, if_true]
      cases hm : c.merge wt bs with
      | ok p => obtain ⟨v, r⟩ := p; rw [hm] at this; exact this
      | err k => trivial
      | panic e => rw [hm] at this; exact this.elim
      | fuel => rw [hm] at this; exact this.elim
    · simp only [hw, if_false]; trivial

theorem mergeAll_good (c : Codec) : ∀ (f : Nat) (acc : List SVal) (bs : Bytes), bs.length < f →
    Out.good (fun _ => True) (c.mergeAll f acc bs) := by
  intro f
  induction f with
  | zero => intro acc bs h; omega
  | succ f ih =>
    intro acc bs hf
    unfold mergeAll
    split
    · trivial
    · have h1 := decodeKey_good bs
      cases hk : decodeKey bs with
      | ok p =>
        obtain ⟨⟨t, wt⟩, r⟩ := p
        rw [hk] at h1; simp only [Out.good] at h1
        have h2 := mergeRepeated_good c wt acc r
        simp only
        cases hm : c.mergeRepeated wt acc r with
        | ok q => obtain ⟨acc', r'⟩ := q; rw [hm] at h2; simp only [Out.good] at h2; exact ih acc' r' (by omega)
        | err k => trivial
        | panic e => rw [hm] at h2; exact h2.elim
        | fuel => rw [hm] at h2; exact h2.elim
      | err k => trivial
      | panic e => rw [hk] at h1; exact h1.elim
      | fuel => rw [hk] at h1; exact h1.elim

end Codec

/-! ### emitted merge_field -/

/-- `merge_field` of some context: never panics; a success does not grow the input. -/
def FieldOK (rec : List FieldDecl → Slots → Nat → WireType → Bytes → Out (Slots × Bytes)) : Prop :=
  ∀ ds m tag wt bs, Out.good (fun p => p.2.length ≤ bs.length) (rec ds m tag wt bs)

def RecurOK : Recur → Prop
  | none => True
  | some rec => FieldOK rec

theorem fieldStep_ok (rec) (h : FieldOK rec) (ds : List FieldDecl) : StepOK (fieldStep rec ds) := by
  intro m bs
  unfold fieldStep
  have h1 := decodeKey_good bs
  cases hk : decodeKey bs with
  | ok p =>
    obtain ⟨⟨t, wt⟩, r⟩ := p
    rw [hk] at h1; simp only [Out.good] at h1
    exact Out.good_imp (fun a ha => by omega) _ (h ds m t wt r)
  | err k => trivial
  | panic e => rw [hk] at h1; exact h1.elim
  | fuel => rw [hk] at h1; exact h1.elim

theorem mergeE_good (s : Schema) (recur : Recur) (hr : RecurOK recur) (ty : FTy) (cur : EVal) (wt : WireType) (bs : Bytes) :
    Out.good (fun p => p.2.length < bs.length) (mergeE s recur ty cur wt bs) := by
  unfold mergeE
  cases ty with
  | scalar c =>
    have := Codec.merge_good c wt bs
    simp only
    cases hm : c.merge wt bs with
    | ok p => obtain ⟨x, r⟩ := p; rw [hm] at this; exact this
    | err k => trivial
    | panic e => rw [hm] at this; exact this.elim
    | fuel => rw [hm] at this; exact this.elim
  | msg i =>
    simp only [checkWireType]
    by_cases hw : WireType.len = wt
    · subst hw
      simp only [if_true]
      cases recur with
      | none => trivial
      | some rec =>
        have := mergeLoop_good (fieldStep rec (decls s i)) (fieldStep_ok rec hr _) cur.fields bs
        simp only
        cases hm : mergeLoop (fieldStep rec (decls s i)) cur.fields bs with
        | ok p => obtain ⟨fs, r⟩ := p; rw [hm] at this; exact this
        | err k => trivial
        | panic e => rw [hm] at this; exact this.elim
        | fuel => rw [hm] at this; exact this.elim
    · simp only [hw, if_false]; trivial

theorem lookupVariant_some (vs : List (Nat × FTy)) (tag : Nat) (h : (vs.map (·.1)).contains tag = true) :
    ∃ ty, lookupVariant vs tag = some ty := by
  unfold lookupVariant
  induction vs with
  | nil => simp at h
  | cons p ps ih =>
    simp only [List.find?_cons]
    by_cases hp : p.1 = tag
    · simp [hp]
    · have : (p.1 == tag) = false := by simp [hp]
      simp only [this]
      apply ih
      simp only [List.map_cons, List.contains_cons] at h
      have h2 : (tag == p.1) = false := by simp; exact fun e => hp e.symm
      simpa [h2] using h

/-- the arm of a field, entered because its tags contain the tag (so the oneof `unreachable!` is). -/
theorem mergeSlot_good (s : Schema) (recur : Recur) (hr : RecurOK recur) (d : FieldDecl) (cur : Slot) (tag : Nat)
    (ht : d.tags.contains tag = true) (wt : WireType) (bs : Bytes) :
    Out.good (fun p => p.2.length < bs.length) (mergeSlot s recur d cur tag wt bs) := by
  unfold mergeSlot
  cases d with
  | single t ty opt =>
    cases opt with
    | false =>
      simp only
      cases cur with
      | req v =>
        have := mergeE_good s recur hr ty v wt bs
        simp only
        cases hm : mergeE s recur ty v wt bs with
        | ok p => obtain ⟨x, r⟩ := p; rw [hm] at this; exact this
        | err k => trivial
        | panic e => rw [hm] at this; exact this.elim
        | fuel => rw [hm] at this; exact this.elim
      | _ => trivial
    | true =>
      simp only
      generalize optCur s ty cur = v
      have := mergeE_good s recur hr ty v wt bs
      cases hm : mergeE s recur ty v wt bs with
      | ok p => obtain ⟨x, r⟩ := p; rw [hm] at this; exact this
      | err k => trivial
      | panic e => rw [hm] at this; exact this.elim
      | fuel => rw [hm] at this; exact this.elim
  | rep t ty =>
    simp only
    cases cur with
    | rep xs =>
      simp only
      cases ty with
      | scalar c =>
        have := Codec.mergeRepeated_good c wt [] bs
        simp only
        cases hm : c.mergeRepeated wt [] bs with
        | ok p => obtain ⟨x, r⟩ := p; rw [hm] at this; exact this
        | err k => trivial
        | panic e => rw [hm] at this; exact this.elim
        | fuel => rw [hm] at this; exact this.elim
      | msg i =>
        simp only [checkWireType]
        by_cases hw : WireType.len = wt
        · subst hw
          have := mergeE_good s recur hr (.msg i) (defaultE s (.msg i)) .len bs
          simp only [if_true]
          cases hm : mergeE s recur (.msg i) (defaultE s (.msg i)) .len bs with
          | ok p => obtain ⟨x, r⟩ := p; rw [hm] at this; exact this
          | err k => trivial
          | panic e => rw [hm] at this; exact this.elim
          | fuel => rw [hm] at this; exact this.elim
        · simp only [hw, if_false]; trivial
    | _ => trivial
  | map t kc vty =>
    simp only
    cases cur with
    | map kvs =>
      simp only
      cases recur with
      | none => trivial
      | some rec =>
        have := mergeLoop_good (fieldStep rec (entryDecls kc vty)) (fieldStep_ok rec hr _) (entry0 s kc vty) bs
        simp only
        cases hm : mergeLoop (fieldStep rec (entryDecls kc vty)) (entry0 s kc vty) bs with
        | ok p =>
          obtain ⟨e, r⟩ := p; rw [hm] at this; simp only [Out.good] at this
          simp only
          cases entryResult e with
          | some kv => exact this
          | none => trivial
        | err k => trivial
        | panic e => rw [hm] at this; exact this.elim
        | fuel => rw [hm] at this; exact this.elim
    | _ => trivial
  | oneof vs =>
    simp only
    obtain ⟨ty, hty⟩ := lookupVariant_some vs tag ht
    rw [hty]
    simp only
    generalize oneCur s ty tag cur = v
    have := mergeE_good s recur hr ty v wt bs
    cases hm : mergeE s recur ty v wt bs with
    | ok p => obtain ⟨x, r⟩ := p; rw [hm] at this; exact this
    | err k => trivial
    | panic e => rw [hm] at this; exact this.elim
    | fuel => rw [hm] at this; exact this.elim

theorem mergeSlots_good (s : Schema) (recur : Recur) (hr : RecurOK recur) (tag : Nat) (wt : WireType) (bs : Bytes) :
    ∀ (ds : List FieldDecl) (m : Slots),
      match mergeSlots s recur tag wt bs ds m with
      | some o => Out.good (fun p => p.2.length < bs.length) o
      | none => True := by
  intro ds
  induction ds with
  | nil => intro m; simp [mergeSlots]
  | cons d ds ih =>
    intro m
    cases m with
    | nil => simp [mergeSlots, Out.good]
    | cons v r =>
      unfold mergeSlots
      by_cases ht : d.tags.contains tag = true
      · have := mergeSlot_good s recur hr d v tag ht wt bs
        simp only [ht, if_true]
        cases hm : mergeSlot s recur d v tag wt bs with
        | ok p => obtain ⟨x, r'⟩ := p; rw [hm] at this; exact this
        | err k => trivial
        | panic e => rw [hm] at this; exact this.elim
        | fuel => rw [hm] at this; exact this.elim
      · have := ih r
        simp only [ht, if_false]
        cases hm : mergeSlots s recur tag wt bs ds r with
        | none => trivial
        | some o =>
          rw [hm] at this
          cases o with
          | ok p => obtain ⟨x, r'⟩ := p; exact this
          | err k => trivial
          | panic e => exact this.elim
          | fuel => exact this.elim

theorem mergeFieldWith_ok (s : Schema) (recur : Recur) (hr : RecurOK recur) (ctx : Nat) :
    FieldOK (mergeFieldWith s recur ctx) := by
  intro ds m tag wt bs
  unfold mergeFieldWith
  have h1 := mergeSlots_good s recur hr tag wt bs ds m
  cases hm : mergeSlots s recur tag wt bs ds m with
  | some o =>
    rw [hm] at h1
    exact Out.good_imp (fun a ha => by omega) _ h1
  | none =>
    have := skipField_good ctx wt tag bs
    simp only
    cases hsk : skipField ctx wt tag bs with
    | ok r => rw [hsk] at this; exact this
    | err k => trivial
    | panic e => rw [hsk] at this; exact this.elim
    | fuel => rw [hsk] at this; exact this.elim

theorem mergeField_ok (s : Schema) (ctx : Nat) : FieldOK (mergeField s ctx) := by
  induction ctx with
  | zero => unfold mergeField; exact mergeFieldWith_ok s none trivial 0
  | succ c ih => unfold mergeField; exact mergeFieldWith_ok s (some (mergeField s c)) ih (c + 1)

theorem recurOf_ok (s : Schema) (ctx : Nat) : RecurOK (recurOf s ctx) := by
  cases ctx with
  | zero => trivial
  | succ c => exact mergeField_ok s c

/-- `Message::merge` on any bytes, from any starting value, with any budget. -/
theorem decodeIntoCtx_good (s : Schema) (ctx i : Nat) (m : Slots) (bs : Bytes) :
    Out.good (fun _ => True) (decodeIntoCtx s ctx i m bs) := by
  unfold decodeIntoCtx
  have := mergeLoopGo_good (fieldStep (mergeField s ctx) (decls s i)) (fieldStep_ok _ (mergeField_ok s ctx) _) 0
    (bs.length + 1) m bs (by omega)
  cases hm : mergeLoopGo (fieldStep (mergeField s ctx) (decls s i)) (bs.length + 1) m bs 0 with
  | ok p => trivial
  | err k => trivial
  | panic e => rw [hm] at this; exact this.elim
  | fuel => rw [hm] at this; exact this.elim

theorem decodeLengthDelimited_good (s : Schema) (i : Nat) (bs : Bytes) :
    Out.good (fun _ => True) (decodeLengthDelimited s i bs) := by
  unfold decodeLengthDelimited
  have := mergeE_good s (recurOf s recursionLimit) (recurOf_ok s _) (.msg i) (.msg (defaultMsg s i)) .len bs
  cases hm : mergeE s (recurOf s recursionLimit) (.msg i) (.msg (defaultMsg s i)) .len bs with
  | ok p => trivial
  | err k => trivial
  | panic e => rw [hm] at this; exact this.elim
  | fuel => rw [hm] at this; exact this.elim

end Pilota.Proto
