import PilotaModel.Lemmas.IdlConst
/-
  C15: `double_rt`.  A `DoubleConstant` keeps its source text; `doubleOk t` says that
  `DoubleConstant::parse` recognises exactly `t`.  The number parsers are *stable*: appending a text
  that begins with a separator character changes neither what they consume nor whether they fail.
-/
namespace Pilota.Idl

/-- appending `r` (which starts with a separator character, or is empty) does not change `p` -/
def SepStable {α} (p : P α) : Prop :=
  ∀ s r, Sep r → (∀ a s', p s = .ok a s' → p (s ++ r) = .ok a (s' ++ r)) ∧ (p s = .err → p (s ++ r) = .err)

namespace SepStable
variable {α β : Type}

theorem ret (a : α) : SepStable (ret a) := fun s r _ =>
  ⟨fun a' s' h => by simp only [Idl.ret, PR.ok.injEq] at h ⊢; obtain ⟨rfl, rfl⟩ := h; exact ⟨rfl, rfl⟩,
   fun h => by simp [Idl.ret] at h⟩

theorem andThen {p : P α} {f : α → P β} (hp : SepStable p) (hf : ∀ a, SepStable (f a)) : SepStable (andThen p f) := by
  intro s r hr
  obtain ⟨h1, h2⟩ := hp s r hr
  refine ⟨?_, ?_⟩
  · intro b s' h
    obtain ⟨a, s1, e1, e2⟩ := andThen_ok h
    rw [andThen_of_ok (h1 a s1 e1)]
    exact ((hf a) s1 r hr).1 b s' e2
  · intro h
    unfold Idl.andThen at h ⊢
    cases e : p s with
    | ok a s1 =>
      rw [e] at h; simp only [PR.bind] at h
      rw [h1 a s1 e]; simp only [PR.bind]
      exact ((hf a) s1 r hr).2 h
    | err => rw [h2 e]; rfl
    | fail => rw [e] at h; cases h
    | panic m => rw [e] at h; cases h
    | fuel => rw [e] at h; cases h

theorem skip {p : P α} {q : P β} (hp : SepStable p) (hq : SepStable q) : SepStable (skip p q) :=
  andThen hp (fun _ => hq)

theorem opt {p : P α} (hp : SepStable p) : SepStable (opt p) := by
  intro s r hr
  obtain ⟨h1, h2⟩ := hp s r hr
  refine ⟨?_, ?_⟩
  · intro a s' h
    unfold Idl.opt at h ⊢
    cases e : p s with
    | ok a0 s1 => rw [e] at h; simp only [PR.ok.injEq] at h; obtain ⟨rfl, rfl⟩ := h; rw [h1 a0 s1 e]
    | err => rw [e] at h; simp only [PR.ok.injEq] at h; obtain ⟨rfl, rfl⟩ := h; rw [h2 e]
    | fail => rw [e] at h; cases h
    | panic m => rw [e] at h; cases h
    | fuel => rw [e] at h; cases h
  · intro h
    unfold Idl.opt at h
    cases e : p s <;> rw [e] at h <;> cases h

theorem alt_nil : SepStable (alt ([] : List (P α))) := fun _ _ _ => ⟨fun _ _ h => (by cases h), fun _ => rfl⟩

theorem alt_cons {p : P α} {ps : List (P α)} (hp : SepStable p) (hps : SepStable (alt ps)) : SepStable (alt (p :: ps)) := by
  intro s r hr
  obtain ⟨h1, h2⟩ := hp s r hr
  obtain ⟨g1, g2⟩ := hps s r hr
  refine ⟨?_, ?_⟩
  · intro a s' h
    rcases alt_cons_ok h with e | ⟨e, e'⟩
    · exact alt_cons_of_ok (h1 a s' e)
    · rw [alt_cons_of_err (h2 e)]; exact g1 a s' e'
  · intro h
    simp only [Idl.alt] at h
    cases e : p s with
    | err => rw [e] at h; rw [alt_cons_of_err (h2 e)]; exact g2 h
    | ok a s1 => rw [e] at h; cases h
    | fail => rw [e] at h; cases h
    | panic m => rw [e] at h; cases h
    | fuel => rw [e] at h; cases h

theorem mapRes {p : P α} (f : α → Option β) (hp : SepStable p) : SepStable (mapRes p f) := by
  intro s r hr
  obtain ⟨h1, h2⟩ := hp s r hr
  unfold Idl.mapRes
  refine ⟨?_, ?_⟩
  · intro b s' h
    obtain ⟨a, s1, e1, e2⟩ := bind_ok h
    rw [h1 a s1 e1]; simp only [PR.bind]
    cases hf : f a with
    | none => rw [hf] at e2; cases e2
    | some b' => rw [hf] at e2; simp only [PR.ok.injEq] at e2 ⊢; obtain ⟨rfl, rfl⟩ := e2; exact ⟨rfl, rfl⟩
  · intro h
    cases e : p s with
    | ok a s1 =>
      rw [e] at h; simp only [PR.bind] at h
      rw [h1 a s1 e]; simp only [PR.bind]
      cases hf : f a with
      | none => rfl
      | some b' => rw [hf] at h; cases h
    | err => rw [h2 e]; rfl
    | fail => rw [e] at h; cases h
    | panic m => rw [e] at h; cases h
    | fuel => rw [e] at h; cases h

theorem pmapChecked {p : P α} (f : α → Except String β) (hp : SepStable p) : SepStable (pmapChecked f p) := by
  intro s r hr
  obtain ⟨h1, h2⟩ := hp s r hr
  unfold Idl.pmapChecked
  refine ⟨?_, ?_⟩
  · intro b s' h
    obtain ⟨a, s1, e1, e2⟩ := bind_ok h
    rw [h1 a s1 e1]; simp only [PR.bind]
    cases hf : f a with
    | error m => rw [hf] at e2; cases e2
    | ok b' => rw [hf] at e2; simp only [PR.ok.injEq] at e2 ⊢; obtain ⟨rfl, rfl⟩ := e2; exact ⟨rfl, rfl⟩
  · intro h
    cases e : p s with
    | ok a s1 =>
      rw [e] at h; simp only [PR.bind] at h
      cases hf : f a <;> rw [hf] at h <;> cases h
    | err => rw [h2 e]; rfl
    | fail => rw [e] at h; cases h
    | panic m => rw [e] at h; cases h
    | fuel => rw [e] at h; cases h

/-- `recognize` of a stable parser whose results are suffixes of its input -/
theorem recognize {p : P α} (hp : SepStable p) (hsuf : ∀ s a s', p s = .ok a s' → s' <:+ s) : SepStable (recognize p) := by
  intro s r hr
  obtain ⟨h1, h2⟩ := hp s r hr
  unfold Idl.recognize
  refine ⟨?_, ?_⟩
  · intro t s' h
    obtain ⟨a, s1, e1, e2⟩ := bind_ok h
    simp only [PR.ok.injEq] at e2
    obtain ⟨rfl, rfl⟩ := e2
    rw [h1 a s1 e1]; simp only [PR.bind, PR.ok.injEq, and_true]
    have hle := (hsuf s a s1 e1).length_le
    have : (s ++ r).length - (s1 ++ r).length = s.length - s1.length := by simp; omega
    rw [this, List.take_append_of_le_length (by omega)]
  · intro h
    cases e : p s with
    | ok a s1 => rw [e] at h; cases h
    | err => rw [h2 e]; rfl
    | fail => rw [e] at h; cases h
    | panic m => rw [e] at h; cases h
    | fuel => rw [e] at h; cases h

end SepStable

/-- a tag made of characters that are not separator characters -/
theorem stable_tag {t : List Char} (ht : ∀ c ∈ t, isSepChar c = false) : SepStable (tag t) := by
  intro s r hr
  refine ⟨?_, ?_⟩
  · intro a s' h
    unfold tag at h ⊢
    cases e : stripPrefix t s with
    | none => rw [e] at h; cases h
    | some s1 =>
      rw [e] at h; simp only [PR.ok.injEq] at h; obtain ⟨rfl, rfl⟩ := h
      have := stripPrefix_eq e
      rw [this, List.append_assoc, stripPrefix_append]
  · intro h
    unfold tag at h ⊢
    cases e : stripPrefix t s with
    | some s1 => rw [e] at h; cases h
    | none =>
      have : stripPrefix t (s ++ r) = none := by
        clear h
        induction t generalizing s with
        | nil => simp [stripPrefix] at e
        | cons c t ih =>
          cases s with
          | nil =>
            cases r with
            | nil => rfl
            | cons x r =>
              have hx : isSepChar x = true := hr
              have hc := ht c (by simp)
              have : c ≠ x := by intro e'; subst e'; rw [hx] at hc; cases hc
              simp [stripPrefix, this]
          | cons y s =>
            simp only [stripPrefix, List.cons_append] at e ⊢
            split
            · rename_i hcy; simp only [hcy, if_true] at e; exact ih (fun c hc => ht c (by simp [hc])) s e
            · rfl
      rw [this]

theorem stable_takeWhile1 {f : Char → Bool} (hf : ∀ c, isSepChar c = true → f c = false) : SepStable (takeWhile1 f) := by
  intro s r hr
  have hstop : hdP (fun c => !f c) r = true := sep_not hf hr
  refine ⟨?_, ?_⟩
  · intro a s' h
    unfold takeWhile1 at h ⊢
    cases s with
    | nil => cases h
    | cons c s =>
      by_cases hc : f c
      · simp only [hc, if_true, PR.ok.injEq] at h
        obtain ⟨rfl, rfl⟩ := h
        simp only [List.cons_append, hc, if_true, PR.ok.injEq]
        have hd := dropWhile_append_stop (f := f) (c :: s) hstop
        have ht : ((c :: s) ++ r).takeWhile f = (c :: s).takeWhile f := by
          have h1 := List.takeWhile_append_dropWhile (p := f) (l := (c :: s) ++ r)
          have h2 := List.takeWhile_append_dropWhile (p := f) (l := c :: s)
          rw [hd] at h1
          have : ((c :: s) ++ r).takeWhile f ++ ((c :: s).dropWhile f ++ r) = (c :: s).takeWhile f ++ ((c :: s).dropWhile f ++ r) := by
            rw [h1, ← List.append_assoc, h2]
          exact List.append_cancel_right this
        exact ⟨ht, hd⟩
      · simp [hc] at h
  · intro h
    unfold takeWhile1 at h ⊢
    cases s with
    | nil =>
      cases r with
      | nil => rfl
      | cons x r => simp [hf x hr]
    | cons c s =>
      by_cases hc : f c
      · simp [hc] at h
      · simp [hc]

theorem sepChar_not_hex (c : Char) (h : isSepChar c = true) : isHexDigit c = false := by
  rcases isSepChar_cases h with h | h | h | h | h | h | h | h | h | h | h | h | h | h | h | h | h | h | h | h <;> subst h <;> decide

theorem stable_digit1 : SepStable digit1 := stable_takeWhile1 sepChar_not_digit
theorem stable_hexDigit1 : SepStable hexDigit1 := stable_takeWhile1 sepChar_not_hex

theorem stable_tagNoCase_e : SepStable (tagNoCase ['e']) := by
  intro s r hr
  refine ⟨?_, ?_⟩
  · intro a s' h
    cases s with
    | nil => simp [tagNoCase, stripPrefixNoCase] at h
    | cons c s =>
      simp only [tagNoCase, stripPrefixNoCase, List.cons_append] at h ⊢
      by_cases hc : lowerEq c 'e' = true
      · simp only [hc, if_true] at h ⊢
        by_cases hu : utf8Len [c] = utf8Len ['e']
        · simp only [hu, if_true, PR.ok.injEq] at h ⊢; obtain ⟨rfl, rfl⟩ := h; exact ⟨rfl, rfl⟩
        · simp [hu] at h
      · simp [hc] at h
  · intro h
    cases s with
    | nil => rw [List.nil_append]; exact tagNoCase_e_err (sep_not sepChar_not_lower_e hr)
    | cons c s =>
      simp only [tagNoCase, stripPrefixNoCase, List.cons_append] at h ⊢
      by_cases hc : lowerEq c 'e' = true
      · simp only [hc, if_true] at h ⊢
        by_cases hu : utf8Len [c] = utf8Len ['e']
        · simp [hu] at h
        · simp [hu] at h
      · simp [hc]

theorem stable_unsigned : SepStable IntConstant.unsigned := by
  unfold IntConstant.unsigned
  exact SepStable.alt_cons (SepStable.skip (stable_tag (by decide)) (SepStable.mapRes _ stable_hexDigit1))
    (SepStable.alt_cons (SepStable.mapRes _ stable_digit1) SepStable.alt_nil)

theorem stable_intConstant : SepStable IntConstant.parse := by
  unfold IntConstant.parse
  exact SepStable.alt_cons (SepStable.skip (stable_tag (by decide)) (SepStable.pmapChecked _ stable_unsigned))
    (SepStable.alt_cons stable_unsigned SepStable.alt_nil)

theorem stable_exponent : SepStable exponent :=
  SepStable.andThen stable_tagNoCase_e (fun _ => SepStable.andThen stable_intConstant (fun _ => SepStable.ret _))

theorem stable_doubleBody : SepStable doubleBody := by
  unfold doubleBody
  have hd := stable_digit1
  have hdot : SepStable (tag ['.']) := stable_tag (by decide)
  have he := stable_exponent
  exact SepStable.alt_cons
    (SepStable.andThen hd fun _ => SepStable.andThen hdot fun _ => SepStable.andThen (SepStable.opt hd) fun _ =>
      SepStable.andThen (SepStable.opt he) fun _ => SepStable.ret _)
    (SepStable.alt_cons
      (SepStable.andThen (SepStable.opt hd) fun _ => SepStable.andThen hdot fun _ => SepStable.andThen hd fun _ =>
        SepStable.andThen (SepStable.opt he) fun _ => SepStable.ret _)
      (SepStable.alt_cons
        (SepStable.andThen hd fun _ => SepStable.andThen stable_tagNoCase_e fun _ =>
          SepStable.andThen stable_intConstant fun _ => SepStable.ret _)
        SepStable.alt_nil))

theorem stable_double : SepStable DoubleConstant.parse := by
  have hinner : SepStable (Idl.andThen (opt (tag ['-'])) fun _ => Idl.andThen (opt (tag ['+'])) fun _ => doubleBody) :=
    SepStable.andThen (SepStable.opt (stable_tag (by decide))) fun _ =>
      SepStable.andThen (SepStable.opt (stable_tag (by decide))) fun _ => stable_doubleBody
  have hgood : Good 0 (Idl.andThen (opt (tag ['-'])) fun _ => Idl.andThen (opt (tag ['+'])) fun _ => doubleBody) := by
    unfold doubleBody; good_tac
  intro s r hr
  rw [double_of_body, double_of_body]
  exact SepStable.mapRes _ (SepStable.recognize hinner (fun s a s' h => hgood.suffix h)) s r hr

/-- `double_rt` -/
theorem double_rt {t r : List Char} (h : doubleOk t = true) (hr : Sep r) :
    DoubleConstant.parse (t ++ r) = .ok t r := by
  unfold doubleOk at h
  cases e : DoubleConstant.parse t with
  | ok t' s' =>
    rw [e] at h
    cases s' with
    | cons _ _ => simp at h
    | nil =>
      simp only [decide_eq_true_eq] at h
      subst h
      have := (stable_double t' r hr).1 t' [] e
      simpa using this
  | err => rw [e] at h; cases h
  | fail => rw [e] at h; cases h
  | panic m => rw [e] at h; cases h
  | fuel => rw [e] at h; cases h

/-- a recognised double starts with `-`, `+`, `.` or a digit; after a leading `.` comes a digit -/
theorem double_head {t : List Char} (h : doubleOk t = true) :
    ∃ c x, t = c :: x ∧ (c = '-' ∨ c = '+' ∨ c = '.' ∨ isDecDigit c = true) := by
  unfold doubleOk at h
  cases t with
  | nil =>
    have : DoubleConstant.parse [] = .err := double_err_hd (by rfl) (by rfl) (by rfl)
    simp [this] at h
  | cons c x =>
    refine ⟨c, x, rfl, ?_⟩
    by_cases h1 : c = '-'; · exact Or.inl h1
    by_cases h2 : c = '+'; · exact Or.inr (Or.inl h2)
    by_cases h3 : c = '.'; · exact Or.inr (Or.inr (Or.inl h3))
    by_cases h4 : isDecDigit c = true; · exact Or.inr (Or.inr (Or.inr h4))
    exfalso
    have : DoubleConstant.parse (c :: x) = .err :=
      double_err_hd (by rw [hdP_cons]; simp [h1, h2]) (by rw [hdP_cons]; simp [h4]) (by rw [hdP_cons]; simp [h3])
    rw [this] at h; cases h

end Pilota.Idl
