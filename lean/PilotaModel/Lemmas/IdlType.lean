import PilotaModel.Lemmas.IdlRender
/-
  C15: literals as rendered, paths, annotation lists, `cpp_type`, types.
-/
namespace Pilota.Idl

theorem tag1 (c : Char) (r : List Char) : tag [c] (c :: r) = .ok [c] r := tag_append [c] r

/-! ### literals as rendered -/

theorem rLiteral_append (t : Literal) (l : Layout) (r : List Char) :
    (rLiteral t l).1 ++ r = quoteFor l.pop.1.flag t :: (t ++ quoteFor l.pop.1.flag t :: r) := by
  simp [rLiteral]

theorem rLiteral_rt {t : Literal} (h : literalOk t = true) (l : Layout) (r : List Char) :
    Literal.parse ((rLiteral t l).1 ++ r) = .ok t r := by
  rw [rLiteral_append]; exact literal_rt _ h

theorem rLiteral_NB {t : Literal} (h : literalOk t = true) (l : Layout) (r : List Char) : NB ((rLiteral t l).1 ++ r) := by
  rw [rLiteral_append]
  rcases (quoteFor_spec l.pop.1.flag h).1 with e | e <;> rw [e] <;> (show notBlankStart _ = true) <;> decide

/-! ### paths -/

/-- `tuple((opt(blank), tag("."), opt(blank)))` -/
def pathSep : P (Option Unit) := andThen (opt blank) fun _ => andThen (tag ['.']) fun _ => opt blank

/-- after the last segment the segment loop stops: no `.` after an optional blank -/
def PathStop (r : List Char) : Prop := ∀ n, sepLoopF pathSep Ident.parse (n + 1) r = .ok [] r

theorem pathStop_of {b r : List Char} (hb : BT b) (hr : NB r) (hd : hdP (fun c => c != '.') r = true) :
    PathStop (b ++ r) := by
  intro n
  have : pathSep (b ++ r) = .err := by
    unfold pathSep
    rw [andThen_optBlank hb hr, andThen_of_err (tag_hd hd)]
  simp [sepLoopF, this]

theorem pathSegs_rt : ∀ (ss : List Ident) (l : Layout) (n : Nat) (r : List Char), (∀ s ∈ ss, identOk s = true) →
    hdP (fun c => !isIdentChar c) r = true → PathStop r →
    ((rSlots (fun seg _ => rB0 +> rLit ['.'] +> rB0 +> rLit seg) ss l).1 ++ r).length < n →
    sepLoopF pathSep Ident.parse n ((rSlots (fun seg _ => rB0 +> rLit ['.'] +> rB0 +> rLit seg) ss l).1 ++ r) = .ok ss r
  | [], l, n, r, _, _, hstop, hn => by
    cases n with
    | zero => omega
    | succ n => simpa using hstop n
  | s :: ss, l, n, r, hok, hr, hstop, hn => by
    rw [rSlots_cons] at hn
    simp only [rSeq_fst, rSeq_snd, rLit_fst, rLit_snd, List.append_assoc, List.length_append, List.length_cons] at hn
    cases n with
    | zero => omega
    | succ n =>
      have hs := hok s (by simp)
      have hss : ∀ x ∈ ss, identOk x = true := fun x hx => hok x (by simp [hx])
      rw [rSlots_cons]
      simp only [rSeq_fst, rSeq_snd, rLit_fst, rLit_snd, List.append_assoc]
      have hfollow : ∀ l', hdP (fun c => !isIdentChar c)
          ((rSlots (fun seg _ => rB0 +> rLit ['.'] +> rB0 +> rLit seg) ss l').1 ++ r) = true := by
        intro l'
        cases ss with
        | nil => simpa using hr
        | cons s2 ss2 =>
          rw [rSlots_cons]
          simp only [rSeq_fst, rLit_fst, List.append_assoc]
          exact (rB0_BT _).hdP_append blankStart_not_identChar (by show (!isIdentChar '.') = true; decide)
      have hsep : ∀ (b b' rest : List Char), BT b → BT b' → pathSep (b ++ (['.'] ++ (b' ++ (s ++ rest)))) =
          .ok (optUnit b') (s ++ rest) := by
        intro b b' rest hb hb'
        unfold pathSep
        rw [andThen_optBlank hb (by show notBlankStart '.' = true; decide), andThen_of_ok (tag_append ['.'] _)]
        exact optBlank_rt hb' (ident_NB hs)
      simp only [sepLoopF, hsep _ _ _ (rB0_BT _) (rB0_BT _)]
      rw [if_neg (by simp only [List.length_append, List.length_cons]; omega)]
      rw [ident_rt hs (hfollow _)]
      simp only
      rw [pathSegs_rt ss _ n r hss hr hstop (by
        simp only [List.length_append, List.length_cons] at hn ⊢; omega)]
      rfl

/-- `path_rt` -/
theorem path_rt {p : Path} (hp : p.wf = true) (l : Layout) {r : List Char}
    (hr : hdP (fun c => !isIdentChar c) r = true) (hstop : PathStop r) :
    Path.parse ((rPath p l).1 ++ r) = .ok p r := by
  obtain ⟨segs⟩ := p
  simp only [Path.wf, Bool.and_eq_true, Bool.not_eq_true', List.all_eq_true] at hp
  cases segs with
  | nil => simp at hp
  | cons s ss =>
    have hs := hp.2 s (by simp)
    have hss : ∀ x ∈ ss, identOk x = true := fun x hx => hp.2 x (by simp [hx])
    simp only [rPath, rSeq_fst, rLit_fst, rSeq_snd, rLit_snd, List.append_assoc]
    have hfollow : hdP (fun c => !isIdentChar c)
        ((rSlots (fun seg _ => rB0 +> rLit ['.'] +> rB0 +> rLit seg) ss l).1 ++ r) = true := by
      cases ss with
      | nil => simpa using hr
      | cons s2 ss2 =>
        rw [rSlots_cons]
        simp only [rSeq_fst, rLit_fst, List.append_assoc]
        exact (rB0_BT _).hdP_append blankStart_not_identChar (by show (!isIdentChar '.') = true; decide)
    have h1 := ident_rt hs hfollow
    have h2 := pathSegs_rt ss l _ r hss hr hstop (Nat.lt_succ_self _)
    unfold Path.parse separatedList1 pmap
    have h2' : sepLoopF (andThen (opt blank) fun _ => andThen (tag ['.']) fun _ => opt blank) Ident.parse
        (((rSlots (fun seg _ => rB0 +> rLit ['.'] +> rB0 +> rLit seg) ss l).1 ++ r).length + 1)
        ((rSlots (fun seg _ => rB0 +> rLit ['.'] +> rB0 +> rLit seg) ss l).1 ++ r) = .ok ss r := h2
    simp only [h1, PR.bind, h2', PR.map]

/-! ### annotation lists -/

theorem forall2_eq' {α} : ∀ {xs ys : List α}, All2 Eq xs ys → xs = ys
  | _, _, .nil => rfl
  | _, _, .cons h t => by rw [h, forall2_eq' t]

theorem identStart_noSep {c : Char} (h : isIdentStart c = true) : (!(c == ',' || c == ';')) = true := by
  by_cases h1 : c = ','; · subst h1; revert h; decide
  by_cases h2 : c = ';'; · subst h2; revert h; decide
  simp [h1, h2]

theorem annKey_start {k : Str} (h : annKeyOk k = true) (r : List Char) : NB (k ++ r) ∧ NoSepStart (k ++ r) := by
  cases k with
  | nil => simp [annKeyOk] at h
  | cons c cs =>
    simp only [annKeyOk, Bool.and_eq_true] at h
    exact ⟨identStart_NB h.1, identStart_noSep h.1⟩

theorem annotation_step {a : Annotation} (hk : annKeyOk a.key = true) (hv : literalOk a.value = true)
    (last : Bool) (l : Layout) {bl R : List Char} (hbl : BT bl) (hR : NB R) (hS : NoSepStart R) :
    annotation (bl ++ ((rAnnotation a last l).1 ++ R)) = .ok a R := by
  simp only [rAnnotation, rSeq_fst, rSeq_snd, rLit_fst, rLit_snd, List.append_assoc]
  unfold annotation
  rw [andThen_optBlank hbl (annKey_start hk _).1]
  rw [andThen_of_ok (annKey_rt hk ((rB0_BT _).sep_append (Or.inr (by show isSepChar '=' = true; decide))).noAnn)]
  rw [andThen_optBlank (rB0_BT _) (by show notBlankStart '=' = true; decide)]
  rw [andThen_of_ok (tag_append ['='] _)]
  rw [andThen_optBlank (rB0_BT _) (rLiteral_NB hv _ _)]
  rw [andThen_of_ok (rLiteral_rt hv _ _)]
  rw [tail_rt false last _ hR hS]
  rfl

theorem annotation_close_err {bl R : List Char} (hbl : BT bl) : annotation (bl ++ ')' :: R) = .err := by
  unfold annotation
  rw [andThen_optBlank hbl (by show notBlankStart ')' = true; decide)]
  exact andThen_of_err (by simp [annKey, recognize, andThen, satisfy, isIdentStart, PR.bind])

/-- `annotations_rt` -/
theorem annotations_rt {as : Annotations} (hw : Annotations.wf as = true) (hne : as ≠ []) (l : Layout) (r : List Char) :
    Annotations.parse ((rAnns as l).1 ++ r) = .ok as r := by
  have hall : ∀ a ∈ as, annKeyOk a.key = true ∧ literalOk a.value = true := by
    intro a ha
    simp only [Annotations.wf, List.all_eq_true, Bool.and_eq_true] at hw
    exact hw a ha
  cases as with
  | nil => exact absurd rfl hne
  | cons a as' =>
    simp only [rAnns, List.isEmpty_cons, Bool.false_eq_true, if_false, rSeq_fst, rSeq_snd, rLit_fst, rLit_snd,
      List.append_assoc]
    rw [rSlots_cons]
    simp only [List.append_assoc]
    unfold Annotations.parse
    rw [andThen_of_ok (tag_append ['('] _)]
    have hloop := many0F_slots annotation rAnnotation Eq (fun a => annKeyOk a.key = true ∧ literalOk a.value = true)
      (fun b => b = []) (fun R => NB R ∧ NoSepStart R) ')'
      (by
        intro x last l bl R hx hL hlast hmid
        subst hL
        have hR : NB R ∧ NoSepStart R := by
          cases last with
          | true => obtain ⟨R', rfl⟩ := hlast rfl; exact ⟨by show notBlankStart ')' = true; decide, by show (!(')' == ',' || ')' == ';')) = true; decide⟩
          | false => exact hmid rfl
        refine ⟨x, [], rfl, rfl, ?_, ?_⟩
        · have := (annKey_start hx.1 ([] : List Char)).1
          simp only [rAnnotation, rSeq_fst, rLit_fst, List.nil_append, List.length_append, List.length_nil]
          cases hk : x.key with
          | nil => rw [hk] at hx; simp [annKeyOk] at hx
          | cons _ _ => simp; omega
        · simpa using annotation_step hx.1 hx.2 last l BT.nil hR.1 hR.2)
      (by
        intro y last l R hy
        simp only [rAnnotation, rSeq_fst, rLit_fst, List.append_assoc]
        exact annKey_start hy.1 _)
      (by intro bl R hL; subst hL; exact annotation_close_err BT.nil)
    have ha := hall a (by simp)
    have hrest : NB ((rSlots rAnnotation as' (rAnnotation a as'.isEmpty (rB0 l).2).2).1 ++ ([')'] ++ r)) ∧
        NoSepStart ((rSlots rAnnotation as' (rAnnotation a as'.isEmpty (rB0 l).2).2).1 ++ ([')'] ++ r)) := by
      cases as' with
      | nil => exact ⟨by show notBlankStart ')' = true; decide, by show (!(')' == ',' || ')' == ';')) = true; decide⟩
      | cons b bs =>
        rw [rSlots_cons]
        simp only [rAnnotation, rSeq_fst, rLit_fst, List.append_assoc]
        exact annKey_start (hall b (by simp)).1 _
    have h1 := annotation_step ha.1 ha.2 as'.isEmpty (rB0 l).2 (rB0_BT l) hrest.1 hrest.2
    obtain ⟨ys, bl', hys, hbl', hm⟩ := hloop as' (rAnnotation a as'.isEmpty (rB0 l).2).2 [] _ r
      (fun x hx => hall x (by simp [hx])) rfl (Nat.lt_succ_self _)
    subst hbl'
    have hys' := forall2_eq' hys
    subst hys'
    simp only [List.nil_append] at hm
    have hm' : many0F annotation (((rSlots rAnnotation as' (rAnnotation a as'.isEmpty (rB0 l).2).2).1 ++ ([')'] ++ r)).length + 1)
        ((rSlots rAnnotation as' (rAnnotation a as'.isEmpty (rB0 l).2).2).1 ++ ([')'] ++ r)) = .ok as' ([')'] ++ r) := hm
    unfold andThen many1
    simp only [h1, PR.bind, hm', PR.map]
    rw [tag_append]
    rfl

theorem annotations_err {r : List Char} (h : hdP (fun c => c != '(') r = true) : Annotations.parse r = .err :=
  andThen_of_err (tag_hd h)

/-! ### optional annotations of a type, `cpp_type` -/

/-- `opt(permutation((opt(blank), Annotations::parse)))` finds no annotations -/
def AnnsStop (r : List Char) : Prop :=
  opt (pmap (fun x => x.2) (permutation2 (opt blank) Annotations.parse)) r = .ok none r

theorem annsStop_of {b r : List Char} (hb : BT b) (hr : NB r) (hd : hdP (fun c => c != '(') r = true) :
    AnnsStop (b ++ r) := by
  unfold AnnsStop
  apply opt_of_err
  apply pmap_of_err
  simp [permutation2, optBlank_rt hb hr, annotations_err hd, PR.map, PR.bind]

theorem typeAnns_rt {as : Annotations} (hw : Annotations.wf as = true) (hne : as ≠ []) (l : Layout) (r : List Char) :
    opt (pmap (fun x => x.2) (permutation2 (opt blank) Annotations.parse)) ((rOptAnns as l).1 ++ r) = .ok (some as) r := by
  have he : as.isEmpty = false := by cases as; exact absurd rfl hne; rfl
  simp only [rOptAnns, he, Bool.false_eq_true, if_false, rSeq_fst, List.append_assoc]
  apply opt_of_ok
  have hnb : NB ((rAnns as (rB0 l).2).1 ++ r) := by
    simp only [rAnns, he, Bool.false_eq_true, if_false, rSeq_fst, rLit_fst, List.append_assoc]
    show notBlankStart '(' = true; decide
  simp [pmap, permutation2, optBlank_rt (rB0_BT l) hnb, annotations_rt hw hne, PR.map, PR.bind]

/-- `opt(preceded(blank, CppType::parse))` finds no `cpp_type` -/
def NoCpp (r : List Char) : Prop := opt (skip blank CppType.parse) r = .ok none r

theorem noCpp_of {b r : List Char} (hb : BT b) (hr : NB r) (h : CppType.parse r = .err) : NoCpp (b ++ r) := by
  unfold NoCpp
  apply opt_of_err
  by_cases hne : b = []
  · subst hne; exact skip_of_err (blank_err hr)
  · rw [skip_of_ok (blank_rt hb hne hr)]; exact h

theorem cppType_err_hd {r : List Char} (h : hdP (fun c => c != 'c') r = true) : CppType.parse r = .err :=
  andThen_of_err (tag_hd h)

/-- a word other than `cpp_type` is not read as the `cpp_type` keyword -/
theorem cppType_err_word {i r : List Char} (hi : identOk i = true) (hr : hdP (fun c => !isIdentChar c) r = true)
    (hne : i ≠ cs!"cpp_type") : CppType.parse (i ++ r) = .err := by
  unfold CppType.parse
  rcases tag_word (kw := cs!"cpp_type") (i := i) (by decide) hr with h | ⟨m, e, h⟩
  · exact andThen_of_err h
  · rw [andThen_of_ok h]
    cases m with
    | nil => simp at e; exact absurd e hne
    | cons c m =>
      have hc : isIdentChar c = true := identOk_all hi c (by simp [e])
      have : NB (c :: m ++ r) := by
        show notBlankStart c = true
        cases hb : notBlankStart c with
        | true => rfl
        | false => have := blankStart_not_identChar c hb; simp [hc] at this
      exact andThen_of_err (blank_err this)

theorem cppOpt_rt {c : Option CppType} (hc : cppOk c = true) (l : Layout) {r : List Char} (hr : c = none → NoCpp r) :
    opt (skip blank CppType.parse) ((rCppOpt c l).1 ++ r) = .ok c r := by
  cases c with
  | none => simp only [rCppOpt, rLit_fst, List.nil_append]; exact hr rfl
  | some lit =>
    simp only [rCppOpt, rSeq_fst, rSeq_snd, rLit_fst, rLit_snd, List.append_assoc]
    apply opt_of_ok
    rw [skip_of_ok (blank_rt (rB1_BT l) (rB1_ne l) (by show notBlankStart 'c' = true; decide))]
    unfold CppType.parse
    rw [andThen_of_ok (tag_append _ _), andThen_blank (rB1_BT _) (rB1_ne _) (rLiteral_NB hc _ _),
      andThen_of_ok (rLiteral_rt hc _ _)]
    rfl

/-- everything a type needs of what follows it holds in front of a closing `>` or a separator -/
theorem follow_close {b r : List Char} {c : Char} (hb : BT b) (hc : c = '>' ∨ c = ',' ∨ c = ';') :
    Sep (b ++ c :: r) ∧ AnnsStop (b ++ c :: r) ∧ PathStop (b ++ c :: r) ∧ NoCpp (b ++ c :: r) := by
  have h1 : isSepChar c = true := by rcases hc with h | h | h <;> subst h <;> decide
  have h2 : notBlankStart c = true := by rcases hc with h | h | h <;> subst h <;> decide
  have h3 : (c != '(') = true := by rcases hc with h | h | h <;> subst h <;> decide
  have h4 : (c != '.') = true := by rcases hc with h | h | h <;> subst h <;> decide
  have h5 : (c != 'c') = true := by rcases hc with h | h | h <;> subst h <;> decide
  exact ⟨hb.sep_append (Or.inr h1), annsStop_of hb h2 h3, pathStop_of hb h2 h4, noCpp_of hb h2 (cppType_err_hd h5)⟩

end Pilota.Idl
