import PilotaModel.Lemmas.AsyncSkipSim
import PilotaModel.Lemmas.SkipTotal
/-
  Converse of `askip_sim`: whatever the asynchronous skipper accepts, the in-memory skipper of the binary family
  accepts too and stops at the same place (given fuel: it either runs out of fuel or agrees) — every skipped value
  occupies at least one byte, so a container count the async skipper got through is within the remaining input.
-/
namespace Pilota.Thrift.Async.ABin
open Pilota Pilota.Thrift Pilota.Thrift.Skip

theorem need_ok {α} (w : Nat) (c : Bytes → Prog α) (bs : Bytes) (x : α × Bytes) (h : runF (.need w c) bs = .ok x) :
    w ≤ bs.length ∧ runF (c (bs.take w)) (bs.drop w) = .ok x := by
  by_cases hle : w ≤ bs.length
  · simp only [runF, Binary.takeN, hle, if_true] at h
    exact ⟨hle, h⟩
  · simp [runF, Binary.takeN, hle] at h

theorem leafI_ok (e : Endian) (w : Nat) (hw : 0 < w) (bs r : Bytes) (h : runF ((readI e w).bind fun _ => Prog.ret ()) bs = .ok ((), r)) :
    advance w bs = .ok (w, r) ∧ r.length < bs.length := by
  simp only [readI, Prog.bind] at h
  obtain ⟨hle, h2⟩ := need_ok w _ bs _ h
  simp only [runF, Out.ok.injEq, Prod.mk.injEq, true_and] at h2
  subst h2
  exact ⟨by simp [advance, hle], by simp; omega⟩

theorem leafU_ok (e : Endian) (w : Nat) (hw : 0 < w) (bs r : Bytes) (h : runF ((readU e w).bind fun _ => Prog.ret ()) bs = .ok ((), r)) :
    advance w bs = .ok (w, r) ∧ r.length < bs.length := by
  simp only [readU, Prog.bind] at h
  obtain ⟨hle, h2⟩ := need_ok w _ bs _ h
  simp only [runF, Out.ok.injEq, Prod.mk.injEq, true_and] at h2
  subst h2
  exact ⟨by simp [advance, hle], by simp; omega⟩

theorem skipBinary_of_async (e : Endian) (bs : Bytes) (hb : bs.length < 2 ^ 63) (r : Bytes)
    (h : runF ((readBytes e).bind fun _ => Prog.ret ()) bs = .ok ((), r)) :
    (∃ k, skipBinary e bs = .ok (k, r)) ∧ r.length < bs.length := by
  rw [runF_bind] at h
  obtain ⟨b, r', h1, h2⟩ := (bindP_ok _ _ _).mp h
  simp only [runF, Out.ok.injEq, Prod.mk.injEq, true_and] at h2
  subst h2
  have hs := (readBytes_iff e bs hb _).mp h1
  unfold Binary.readBytes at hs
  cases hx : Binary.readI e 4 bs with
  | ok p =>
    obtain ⟨len, r0⟩ := p
    rw [hx] at hs
    simp only at hs
    have hle4 := readI_le e 4 bs len r0 hx
    have h4 : r0.length + 4 = bs.length := by
      by_cases hle : 4 ≤ bs.length
      · simp only [Binary.readI, Binary.readU, Binary.takeN, hle, if_true, Out.ok.injEq, Prod.mk.injEq] at hx
        obtain ⟨_, rfl⟩ := hx
        simp; omega
      · simp [Binary.readI, Binary.readU, Binary.takeN, hle] at hx
    by_cases hn : Binary.asUsize len ≤ r0.length
    · simp only [hn, if_true, Binary.splitTo, Out.ok.injEq, Prod.mk.injEq] at hs
      obtain ⟨_, rfl⟩ := hs
      exact ⟨⟨4 + Binary.asUsize len, by simp [skipBinary, hx, hn]⟩, by simp; omega⟩
    · simp [hn] at hs
  | err k => rw [hx] at hs; cases hs
  | panic m => rw [hx] at hs; cases hs
  | fuel => rw [hx] at hs; cases hs

/-- the in-memory skipper, given fuel `g`, either runs out of it or stops at `r` -/
def Agrees (x : Out (Nat × Bytes)) (r : Bytes) : Prop := x = .fuel ∨ ∃ k, x = .ok (k, r)

theorem Agrees.fuel (r : Bytes) : Agrees .fuel r := Or.inl rfl
theorem Agrees.ok (k : Nat) (r : Bytes) : Agrees (.ok (k, r)) r := Or.inr ⟨k, rfl⟩

theorem agrees_step {x : Out (Nat × Bytes)} {r1 r : Bytes} (F : Nat → Bytes → Out (Nat × Bytes))
    (h1 : Agrees x r1) (h2 : ∀ k, Agrees (F k r1) r) :
    Agrees (match x with | .ok (k, q) => F k q | .err e => .err e | .panic m => .panic m | .fuel => .fuel) r := by
  rcases h1 with rfl | ⟨k, rfl⟩
  · left; rfl
  · exact h2 k

theorem askip_conv (e : Endian) : ∀ f : Nat,
    (∀ (d : Nat) t bs r, bs.length < 2 ^ 63 → runF (skip e f d t) bs = .ok ((), r) →
      r.length < bs.length ∧ ∀ g, Agrees (Skip.skipVal e g (d : Int) t bs) r) ∧
    (∀ (d : Nat) bs r, bs.length < 2 ^ 63 → runF (skipFields e f d) bs = .ok ((), r) →
      r.length < bs.length ∧ ∀ g, Agrees (Skip.skipFields e g ((d + 1 : Nat) : Int) bs) r) ∧
    (∀ (d : Nat) et n bs r, bs.length < 2 ^ 63 → runF (skipN e f d et n) bs = .ok ((), r) →
      n + r.length ≤ bs.length ∧ ∀ g, Agrees (Skip.skipN e g ((d + 1 : Nat) : Int) et n bs) r) ∧
    (∀ (d : Nat) kt vt n bs r, bs.length < 2 ^ 63 → runF (skipPairs e f d kt vt n) bs = .ok ((), r) →
      n + r.length ≤ bs.length ∧ ∀ g, Agrees (Skip.skipPairs e g ((d + 1 : Nat) : Int) kt vt n bs) r) := by
  intro f
  induction f with
  | zero =>
    refine ⟨?_, ?_, ?_, ?_⟩ <;> intros <;> simp_all [skip, skipFields, skipN, skipPairs, runF]
  | succ f ih =>
    obtain ⟨ihV, ihF, ihN, ihP⟩ := ih
    have cast1 : ∀ d : Nat, ((d + 1 : Nat) : Int) - 1 = (d : Int) := by intro d; omega
    have ne128 : ∀ d : Nat, ¬ (((d + 1 : Nat) : Int) = -128) := by intro d; omega
    refine ⟨?_, ?_, ?_, ?_⟩
    · intro d t bs r hb h
      cases d with
      | zero => simp [skip, runF] at h
      | succ d =>
        have hd0 : ¬ (((d + 1 : Nat) : Int) = 0) := by omega
        cases t with
        | stop => simp [skip, runF] at h
        | void => simp [skip, runF] at h
        | bool =>
          simp only [skip] at h
          obtain ⟨ha, hl⟩ := leafI_ok e 1 (by decide) bs r h
          refine ⟨hl, fun g => ?_⟩
          cases g with
          | zero => left; rfl
          | succ g => simp only [Skip.skipVal, hd0, if_false]; right; exact ⟨1, ha⟩
        | i8 =>
          simp only [skip] at h
          obtain ⟨ha, hl⟩ := leafI_ok e 1 (by decide) bs r h
          refine ⟨hl, fun g => ?_⟩
          cases g with
          | zero => left; rfl
          | succ g => simp only [Skip.skipVal, hd0, if_false]; right; exact ⟨1, ha⟩
        | i16 =>
          simp only [skip] at h
          obtain ⟨ha, hl⟩ := leafI_ok e 2 (by decide) bs r h
          refine ⟨hl, fun g => ?_⟩
          cases g with
          | zero => left; rfl
          | succ g => simp only [Skip.skipVal, hd0, if_false]; right; exact ⟨2, ha⟩
        | i32 =>
          simp only [skip] at h
          obtain ⟨ha, hl⟩ := leafI_ok e 4 (by decide) bs r h
          refine ⟨hl, fun g => ?_⟩
          cases g with
          | zero => left; rfl
          | succ g => simp only [Skip.skipVal, hd0, if_false]; right; exact ⟨4, ha⟩
        | i64 =>
          simp only [skip] at h
          obtain ⟨ha, hl⟩ := leafI_ok e 8 (by decide) bs r h
          refine ⟨hl, fun g => ?_⟩
          cases g with
          | zero => left; rfl
          | succ g => simp only [Skip.skipVal, hd0, if_false]; right; exact ⟨8, ha⟩
        | double =>
          simp only [skip] at h
          obtain ⟨ha, hl⟩ := leafU_ok e 8 (by decide) bs r h
          refine ⟨hl, fun g => ?_⟩
          cases g with
          | zero => left; rfl
          | succ g => simp only [Skip.skipVal, hd0, if_false]; right; exact ⟨8, ha⟩
        | binary =>
          simp only [skip] at h
          obtain ⟨⟨k, hk⟩, hl⟩ := skipBinary_of_async e bs hb r h
          refine ⟨hl, fun g => ?_⟩
          cases g with
          | zero => left; rfl
          | succ g => simp only [Skip.skipVal, hd0, if_false]; right; exact ⟨k, hk⟩
        | uuid =>
          simp only [skip] at h
          obtain ⟨hle, h2⟩ := need_ok 16 _ bs _ h
          simp only [runF, Out.ok.injEq, Prod.mk.injEq, true_and] at h2
          subst h2
          refine ⟨by simp; omega, fun g => ?_⟩
          cases g with
          | zero => left; rfl
          | succ g => simp only [Skip.skipVal, hd0, if_false]; right; exact ⟨16, by simp [advance, hle]⟩
        | struct =>
          simp only [skip] at h
          obtain ⟨hl, hg⟩ := ihF d bs r hb h
          refine ⟨hl, fun g => ?_⟩
          cases g with
          | zero => left; rfl
          | succ g => simp only [Skip.skipVal, hd0, if_false]; exact hg g
        | list =>
          simp only [skip] at h
          rw [runF_bind] at h
          obtain ⟨⟨et, n⟩, r0, h1, h2⟩ := (bindP_ok _ _ _).mp h
          have hle0 := runF_le _ bs _ r0 h1
          obtain ⟨hn, hg⟩ := ihN d et n r0 r (by omega) h2
          have hs := sync_of_readListBegin e bs hb et n r0 h1 (by omega)
          have hlt : r0.length < bs.length := by
            have := runF_le readTType bs
            simp only [readListBegin, runF_bind] at h1
            obtain ⟨t', r1, ht, h3⟩ := (bindP_ok _ _ _).mp h1
            obtain ⟨n', r2, hn', h4⟩ := (bindP_ok _ _ _).mp h3
            simp only [runF, Out.ok.injEq, Prod.mk.injEq] at h4
            obtain ⟨_, rfl⟩ := h4
            have a := runF_le _ bs _ r1 ht
            rw [runF_readI] at hn'
            have b : r2.length + 4 = r1.length := by
              by_cases hle : 4 ≤ r1.length
              · simp only [Binary.readI, Binary.readU, Binary.takeN, hle, if_true, Out.ok.injEq, Prod.mk.injEq] at hn'
                obtain ⟨_, rfl⟩ := hn'; simp; omega
              · simp [Binary.readI, Binary.readU, Binary.takeN, hle] at hn'
            omega
          refine ⟨by omega, fun g => ?_⟩
          cases g with
          | zero => left; rfl
          | succ g =>
            simp only [Skip.skipVal, hd0, if_false, hs]
            rcases hg g with hf | ⟨k, hk⟩
            · rw [hf]; exact Agrees.fuel r
            · rw [hk]; exact Agrees.ok _ r
        | set =>
          simp only [skip] at h
          rw [runF_bind] at h
          obtain ⟨⟨et, n⟩, r0, h1, h2⟩ := (bindP_ok _ _ _).mp h
          have hle0 := runF_le _ bs _ r0 h1
          obtain ⟨hn, hg⟩ := ihN d et n r0 r (by omega) h2
          have hs := sync_of_readListBegin e bs hb et n r0 h1 (by omega)
          have hlt : r0.length < bs.length := by
            simp only [readListBegin, runF_bind] at h1
            obtain ⟨t', r1, ht, h3⟩ := (bindP_ok _ _ _).mp h1
            obtain ⟨n', r2, hn', h4⟩ := (bindP_ok _ _ _).mp h3
            simp only [runF, Out.ok.injEq, Prod.mk.injEq] at h4
            obtain ⟨_, rfl⟩ := h4
            have a := runF_le _ bs _ r1 ht
            rw [runF_readI] at hn'
            have b : r2.length + 4 = r1.length := by
              by_cases hle : 4 ≤ r1.length
              · simp only [Binary.readI, Binary.readU, Binary.takeN, hle, if_true, Out.ok.injEq, Prod.mk.injEq] at hn'
                obtain ⟨_, rfl⟩ := hn'; simp; omega
              · simp [Binary.readI, Binary.readU, Binary.takeN, hle] at hn'
            omega
          refine ⟨by omega, fun g => ?_⟩
          cases g with
          | zero => left; rfl
          | succ g =>
            simp only [Skip.skipVal, hd0, if_false, hs]
            rcases hg g with hf | ⟨k, hk⟩
            · rw [hf]; exact Agrees.fuel r
            · rw [hk]; exact Agrees.ok _ r
        | map =>
          simp only [skip] at h
          rw [runF_bind] at h
          obtain ⟨⟨kt, vt, n⟩, r0, h1, h2⟩ := (bindP_ok _ _ _).mp h
          have hle0 := runF_le _ bs _ r0 h1
          obtain ⟨hn, hg⟩ := ihP d kt vt n r0 r (by omega) h2
          have hs := sync_of_readMapBegin e bs hb kt vt n r0 h1 (by omega)
          have hlt : r0.length < bs.length := by
            simp only [readMapBegin, runF_bind] at h1
            obtain ⟨t', r1, ht, h3⟩ := (bindP_ok _ _ _).mp h1
            obtain ⟨t2, r1b, ht2, h3b⟩ := (bindP_ok _ _ _).mp h3
            obtain ⟨n', r2, hn', h4⟩ := (bindP_ok _ _ _).mp h3b
            simp only [runF, Out.ok.injEq, Prod.mk.injEq] at h4
            obtain ⟨_, rfl⟩ := h4
            have a := runF_le _ bs _ r1 ht
            have a2 := runF_le _ r1 _ r1b ht2
            rw [runF_readI] at hn'
            have b : r2.length + 4 = r1b.length := by
              by_cases hle : 4 ≤ r1b.length
              · simp only [Binary.readI, Binary.readU, Binary.takeN, hle, if_true, Out.ok.injEq, Prod.mk.injEq] at hn'
                obtain ⟨_, rfl⟩ := hn'; simp; omega
              · simp [Binary.readI, Binary.readU, Binary.takeN, hle] at hn'
            omega
          refine ⟨by omega, fun g => ?_⟩
          cases g with
          | zero => left; rfl
          | succ g =>
            simp only [Skip.skipVal, hd0, if_false, hs]
            rcases hg g with hf | ⟨k, hk⟩
            · rw [hf]; exact Agrees.fuel r
            · rw [hk]; exact Agrees.ok _ r
    · intro d bs r hb h
      simp only [skipFields, runF_bind, runF_readFieldBegin] at h
      obtain ⟨⟨t, id⟩, r0, h1, h2⟩ := (bindP_ok _ _ _).mp h
      have hle0 := fieldBegin_le e bs _ r0 h1
      have hlt0 : r0.length < bs.length := by
        have := runF_readFieldBegin e bs
        simp only [Binary.readFieldBegin] at h1
        cases hx : Binary.readTType bs with
        | ok p =>
          obtain ⟨t', r1⟩ := p
          have a : r1.length < bs.length := by
            cases bs with
            | nil => simp [Binary.readTType, Binary.readByte] at hx
            | cons b tl =>
              simp only [Binary.readTType, Binary.readByte] at hx
              split at hx <;> simp at hx
              obtain ⟨_, rfl⟩ := hx; simp
          rw [hx] at h1
          simp only at h1
          split at h1
          · simp only [Out.ok.injEq, Prod.mk.injEq] at h1; obtain ⟨_, rfl⟩ := h1; exact a
          · cases hy : Binary.readI e 2 r1 with
            | ok q => obtain ⟨i2, r2⟩ := q; rw [hy] at h1; simp only [Out.ok.injEq, Prod.mk.injEq] at h1; obtain ⟨_, rfl⟩ := h1
                      have := readI_le e 2 r1 i2 r2 hy; omega
            | err k => rw [hy] at h1; cases h1
            | panic m => rw [hy] at h1; cases h1
            | fuel => rw [hy] at h1; cases h1
        | err k => rw [hx] at h1; cases h1
        | panic m => rw [hx] at h1; cases h1
        | fuel => rw [hx] at h1; cases h1
      by_cases hs : t = .stop
      · simp only [hs, if_true, runF, Out.ok.injEq, Prod.mk.injEq, true_and] at h2
        subst h2
        refine ⟨hlt0, fun g => ?_⟩
        cases g with
        | zero => left; rfl
        | succ g => simp only [Skip.skipFields, h1, hs, if_true]; right; exact ⟨1, rfl⟩
      · simp only [hs, if_false] at h2
        rw [runF_bind] at h2
        obtain ⟨u, r1, h3, h4⟩ := (bindP_ok _ _ _).mp h2
        obtain ⟨hl1, hg1⟩ := ihV d t r0 r1 (by omega) h3
        obtain ⟨hl2, hg2⟩ := ihF d r1 r (by omega) h4
        refine ⟨by omega, fun g => ?_⟩
        cases g with
        | zero => left; rfl
        | succ g =>
          simp only [Skip.skipFields, h1, hs, if_false, ne128 d, cast1 d]
          rcases hg1 g with hf | ⟨k, hk⟩
          · rw [hf]; exact Agrees.fuel r
          · rw [hk]
            simp only
            rcases hg2 g with hf2 | ⟨k2, hk2⟩
            · rw [hf2]; exact Agrees.fuel r
            · rw [hk2]; exact Agrees.ok _ r
    · intro d et n bs r hb h
      cases n with
      | zero =>
        simp only [skipN, runF, Out.ok.injEq, Prod.mk.injEq, true_and] at h
        subst h
        refine ⟨by omega, fun g => ?_⟩
        cases g with
        | zero => left; rfl
        | succ g => simp only [Skip.skipN]; right; exact ⟨0, rfl⟩
      | succ n =>
        simp only [skipN] at h
        rw [runF_bind] at h
        obtain ⟨u, r1, h3, h4⟩ := (bindP_ok _ _ _).mp h
        obtain ⟨hl1, hg1⟩ := ihV d et bs r1 hb h3
        obtain ⟨hl2, hg2⟩ := ihN d et n r1 r (by omega) h4
        refine ⟨by omega, fun g => ?_⟩
        cases g with
        | zero => left; rfl
        | succ g =>
          simp only [Skip.skipN, ne128 d, if_false, cast1 d]
          rcases hg1 g with hf | ⟨k, hk⟩
          · rw [hf]; exact Agrees.fuel r
          · rw [hk]
            simp only
            rcases hg2 g with hf2 | ⟨k2, hk2⟩
            · rw [hf2]; exact Agrees.fuel r
            · rw [hk2]; exact Agrees.ok _ r
    · intro d kt vt n bs r hb h
      cases n with
      | zero =>
        simp only [skipPairs, runF, Out.ok.injEq, Prod.mk.injEq, true_and] at h
        subst h
        refine ⟨by omega, fun g => ?_⟩
        cases g with
        | zero => left; rfl
        | succ g => simp only [Skip.skipPairs]; right; exact ⟨0, rfl⟩
      | succ n =>
        simp only [skipPairs] at h
        rw [runF_bind] at h
        obtain ⟨u, r1, h3, h4⟩ := (bindP_ok _ _ _).mp h
        rw [runF_bind] at h4
        obtain ⟨u2, r2, h5, h6⟩ := (bindP_ok _ _ _).mp h4
        obtain ⟨hl1, hg1⟩ := ihV d kt bs r1 hb h3
        obtain ⟨hl2, hg2⟩ := ihV d vt r1 r2 (by omega) h5
        obtain ⟨hl3, hg3⟩ := ihP d kt vt n r2 r (by omega) h6
        refine ⟨by omega, fun g => ?_⟩
        cases g with
        | zero => left; rfl
        | succ g =>
          simp only [Skip.skipPairs, ne128 d, if_false, cast1 d]
          rcases hg1 g with hf | ⟨k1, hk1⟩
          · rw [hf]; exact Agrees.fuel r
          · rw [hk1]
            simp only
            rcases hg2 g with hf2 | ⟨k2, hk2⟩
            · rw [hf2]; exact Agrees.fuel r
            · rw [hk2]
              simp only
              rcases hg3 g with hf3 | ⟨k3, hk3⟩
              · rw [hf3]; exact Agrees.fuel r
              · rw [hk3]; exact Agrees.ok _ r

/-- with the budget the in-memory skipper really uses it cannot run out of fuel: it accepts, and stops at the same place -/
theorem skip_of_async (e : Endian) (f : Nat) (d : Nat) (t : TType) (bs r : Bytes) (hb : bs.length < 2 ^ 63)
    (h : runF (skip e f d t) bs = .ok ((), r)) : ∃ k, Skip.skip e (d : Int) t bs = .ok (k, r) := by
  have := ((askip_conv e f).1 d t bs r hb h).2 (3 * bs.length + 3)
  rcases this with hf | hk
  · exact absurd hf ((Skip.skipVal_nofuel e _).1 _ t bs (by omega))
  · exact hk

end Pilota.Thrift.Async.ABin
