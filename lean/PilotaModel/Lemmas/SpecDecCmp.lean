import PilotaModel.Lemmas.SpecDecBin
import PilotaModel.Lemmas.SpecCmp
/-  The reference's compact decoder recovers the value from every legal encoding. -/
namespace Pilota.Thrift.SpecCmp
open Pilota Pilota.Thrift Pilota.Thrift.Spec

theorem varint_uleb (k n : Nat) (r : Bytes) (h : varLen n ≤ k) : varint k (uleb n ++ r) = .ok (n, r) := by
  induction n using Nat.strongRecOn generalizing k with
  | _ n ih =>
    rw [varLen] at h
    show varint k (encVar n ++ r) = .ok (n, r)
    rw [encVar]
    split
    · rename_i hn
      cases k with
      | zero => simp [hn] at h
      | succ k => simp [varint, u8_toNat_ofNat_lt n (by omega), hn]
    · rename_i hn
      simp only [hn, dite_false] at h
      cases k with
      | zero => omega
      | succ k =>
        have hb : (UInt8.ofNat (n % 128 + 128)).toNat = n % 128 + 128 := u8_toNat_ofNat_lt _ (by omega)
        have hnb : ¬ (n % 128 + 128 < 128) := by omega
        simp only [List.cons_append, varint, hb, hnb, if_false]
        have := ih (n / 128) (by omega) k (by omega)
        simp only [uleb] at this
        rw [this]
        simp only [Out.ok.injEq, Prod.mk.injEq, and_true]
        omega

theorem unzz_zz (i : Int) : unzz (zz i) = i := by
  unfold unzz zz zigzag
  split <;> split <;> omega

theorem zint_zz (w : Nat) (hw : w = 2 ∨ w = 4 ∨ w = 8) (n : Int) (h : inS w n) (r : Bytes) :
    zint w (uleb (zz n) ++ r) = .ok (n, r) := by
  have hw0 : 0 < w := by omega
  have hz := zigzag_lt w hw0 n h
  have hl : varLen (zz n) ≤ 10 := by
    apply varLen_le 10 _ (by decide)
    have : (256:Nat) ^ w ≤ 128 ^ 10 := by rcases hw with rfl | rfl | rfl <;> decide
    exact Nat.lt_of_lt_of_le hz this
  simp only [zint, varint_uleb 10 (zz n) r hl]
  have hz' : zz n < 256 ^ w := hz
  simp [hz', unzz_zz]

theorem size_uleb (n : Nat) (h : n < 2 ^ 31) (r : Bytes) : size (uleb n ++ r) = .ok (n, r) := by
  have hl : varLen n ≤ 5 := varLen_le 5 n (by decide) (Nat.lt_trans h (by decide))
  simp [size, varint_uleb 5 n r hl, h]

theorem le_length (w n : Nat) : (le w n).length = w := by
  induction w generalizing n with
  | zero => rfl
  | succ w ih => simp [le, ih]

theorem ofLe_le (w n : Nat) : ofLe (le w n) = n % 256 ^ w := by
  induction w generalizing n with
  | zero => simp [le, ofLe, Nat.mod_one]
  | succ w ih =>
    simp only [le, ofLe, ih]
    have h1 : (UInt8.ofNat (n % 256)).toNat = n % 256 := by simp [UInt8.toNat_ofNat']
    rw [h1, Nat.pow_succ, Nat.mul_comm (256 ^ w) 256, Nat.mod_mul]

theorem elemCode_nibble (t : TType) (c : Nat) (h : elemCode t c = true) : cmpTypeOfNibble c = some t ∧ 1 ≤ c ∧ c ≤ 13 := by
  unfold elemCode at h
  by_cases hb : t = .bool
  · subst hb; simp at h; rcases h with rfl | rfl <;> simp [cmpTypeOfNibble]
  · simp only [hb, if_false, beq_iff_eq] at h
    cases t <;> simp [cmpCode] at h <;> subst h <;> simp [cmpTypeOfNibble]

theorem cmpCode_nibble (t : TType) (c : Nat) (h : cmpCode t = some c) : cmpTypeOfNibble c = some t ∧ 3 ≤ c ∧ c ≤ 13 := by
  cases t <;> simp [cmpCode] at h <;> subst h <;> simp [cmpTypeOfNibble]

/-! leaf cases, one lemma each -/
theorem dec_boolT (f : Nat) (r : Bytes) : decode (f+1) .bool ([1] ++ r) = .ok (.bool true, r) := by simp [decode, boolVal]
theorem dec_boolF (f : Nat) (r : Bytes) : decode (f+1) .bool ([2] ++ r) = .ok (.bool false, r) := by simp [decode, boolVal]
theorem dec_i8 (f : Nat) (n : Int) (hn : inS 1 n) (r : Bytes) : decode (f+1) .i8 (be 1 (twos 1 n) ++ r) = .ok (.i8 n, r) := by
  simp [decode, SpecBin.int_be_twos 1 (by decide) n hn]
theorem dec_i16 (f : Nat) (n : Int) (hn : inS 2 n) (r : Bytes) : decode (f+1) .i16 (uleb (zz n) ++ r) = .ok (.i16 n, r) := by
  simp [decode, zint_zz 2 (Or.inl rfl) n hn]
theorem dec_i32 (f : Nat) (n : Int) (hn : inS 4 n) (r : Bytes) : decode (f+1) .i32 (uleb (zz n) ++ r) = .ok (.i32 n, r) := by
  simp [decode, zint_zz 4 (Or.inr (Or.inl rfl)) n hn]
theorem dec_i64 (f : Nat) (n : Int) (hn : inS 8 n) (r : Bytes) : decode (f+1) .i64 (uleb (zz n) ++ r) = .ok (.i64 n, r) := by
  simp [decode, zint_zz 8 (Or.inr (Or.inr rfl)) n hn]
theorem dec_dbl (f : Nat) (b : Nat) (hb : b < 2 ^ 64) (r : Bytes) : decode (f+1) .double (le 8 b ++ r) = .ok (.dbl b, r) := by
  have e : (256:Nat) ^ 8 = 2 ^ 64 := by decide
  have : b % 256 ^ 8 = b := Nat.mod_eq_of_lt (by omega)
  simp [decode, SpecBin.take_append' 8 _ r (le_length 8 _), ofLe_le, this]
theorem dec_bin (f : Nat) (p : Bytes) (hp : p.length < 2 ^ 31) (r : Bytes) :
    decode (f+1) .binary (uleb p.length ++ p ++ r) = .ok (.bin p, r) := by
  simp [decode, payload, List.append_assoc, size_uleb _ hp, SpecBin.take_append]
theorem dec_uuid (f : Nat) (p : Bytes) (hp : p.length = 16) (r : Bytes) : decode (f+1) .uuid (p ++ r) = .ok (.uuid p, r) := by
  simp [decode, SpecBin.take_append' 16 _ r hp]
theorem dec_mapEmpty (f : Nat) (r : Bytes) : decode (f+1) .map ([0] ++ r) = .ok (.map .stop .stop .nil, r) := by
  have : size ((0 : UInt8) :: r) = .ok (0, r) := by
    have := size_uleb 0 (by decide) r
    rw [show uleb 0 = [0] by rw [uleb, encVar]; simp] at this
    simpa using this
  simp [decode, mapHdr, this]

/-- the reference reads a collection header of either form. -/
theorem listHdr_of (et : TType) (c n : Nat) (hc : elemCode et c = true) (hn : n < 2 ^ 31) (hd : Bytes) (h : CollHdr c n hd) (r : Bytes) :
    listHdr (hd ++ r) = .ok ((et, n), r) := by
  obtain ⟨h1, h2, h3⟩ := elemCode_nibble et c hc
  cases h with
  | short hs =>
    have hb : (UInt8.ofNat (n * 16 + c)).toNat = n * 16 + c := u8_toNat_ofNat_lt _ (by omega)
    have e0 : (n * 16 + c) % 16 = c := by omega
    have e1 : (n * 16 + c) / 16 = n := by omega
    have e2 : ¬ (n = 15) := by omega
    simp only [listHdr, List.cons_append, List.nil_append, hb, e0, e1, h1, e2, if_false]
  | long hs =>
    have hb : (UInt8.ofNat (0xF0 + c)).toNat = 0xF0 + c := u8_toNat_ofNat_lt _ (by omega)
    have e0 : (0xF0 + c) % 16 = c := by omega
    have e1 : (0xF0 + c) / 16 = 15 := by omega
    simp only [listHdr, List.cons_append, hb, e0, e1, h1, if_true, size_uleb n hn]

theorem mapHdr_of (kt vt : TType) (ck cv : Nat) (hk : elemCode kt ck = true) (hv : elemCode vt cv = true) (n : Nat) (hn0 : n ≠ 0)
    (hn : n < 2 ^ 31) (r : Bytes) : mapHdr (uleb n ++ (UInt8.ofNat (ck * 16 + cv) :: r)) = .ok (some (kt, vt, n), r) := by
  obtain ⟨k1, k2, k3⟩ := elemCode_nibble kt ck hk
  obtain ⟨v1, v2, v3⟩ := elemCode_nibble vt cv hv
  have hb : (UInt8.ofNat (ck * 16 + cv)).toNat = ck * 16 + cv := u8_toNat_ofNat_lt _ (by omega)
  have e1 : (ck * 16 + cv) / 16 = ck := by omega
  have e2 : (ck * 16 + cv) % 16 = cv := by omega
  simp only [mapHdr, size_uleb n hn, hn0, if_false, hb, e1, e2, k1, v1]

/-- the reference reads a field header of either form. -/
theorem fieldHdr_of (last : Int) (c : Nat) (t : TType) (hc : 1 ≤ c ∧ c ≤ 13) (ht : cmpTypeOfNibble c = some t) (id : Int) (hid : inS 2 id)
    (hd : Bytes) (h : Hdr last c id hd) (r : Bytes) :
    fieldHdr last (hd ++ r) = .ok (some (t, id, if c = 1 then some true else if c = 2 then some false else none), r) := by
  cases h with
  | short d h1 h2 he =>
    have hb : (UInt8.ofNat (d * 16 + c)).toNat = d * 16 + c := u8_toNat_ofNat_lt _ (by omega)
    have hne : ¬ (UInt8.ofNat (d * 16 + c) = 0) := by
      intro h0; have := congrArg UInt8.toNat h0; rw [hb] at this; simp at this; omega
    have e0 : (d * 16 + c) % 16 = c := by omega
    have e1 : (d * 16 + c) / 16 = d := by omega
    have e2 : ¬ (d = 0) := by omega
    simp only [fieldHdr, List.cons_append, List.nil_append, hne, if_false, hb, e0, e1, e2, ht, he]
  | long =>
    have hb : (UInt8.ofNat c).toNat = c := u8_toNat_ofNat_lt _ (by omega)
    have hne : ¬ (UInt8.ofNat c = 0) := by
      intro h0; have := congrArg UInt8.toNat h0; rw [hb] at this; simp at this; omega
    have e0 : c % 16 = c := by omega
    have e1 : c / 16 = 0 := by omega
    simp only [fieldHdr, List.cons_append, hne, if_false, hb, e0, e1, ht, if_true, zint_zz 2 (Or.inl rfl) id hid]

theorem fieldHdr_stop (last : Int) (r : Bytes) : fieldHdr last ((0 : UInt8) :: r) = .ok (none, r) := by simp [fieldHdr]

mutual
theorem decode_of_enc (v : TVal) (bs : Bytes) (h : Enc v bs) (f : Nat) (hf : v.size ≤ f) (r : Bytes) :
    decode f v.ttype (bs ++ r) = .ok (Compact.norm v, r) := by
  cases f with
  | zero => cases v <;> simp [TVal.size] at hf
  | succ f =>
    cases h with
    | boolT => exact dec_boolT f r
    | boolF => exact dec_boolF f r
    | i8 n hn => exact dec_i8 f n hn r
    | i16 n hn => exact dec_i16 f n hn r
    | i32 n hn => exact dec_i32 f n hn r
    | i64 n hn => exact dec_i64 f n hn r
    | dbl b hb => exact dec_dbl f b hb r
    | bin p hp => exact dec_bin f p hp r
    | uuid p hp => exact dec_uuid f _ hp r
    | struct fs bs hfs =>
      simp [TVal.size] at hf
      simp [TVal.ttype, decode, Compact.norm, decodeFields_of_enc 0 fs bs hfs f hf r]
    | list et c xs hd b hc hl hh hx =>
      simp [TVal.size] at hf
      simp only [TVal.ttype, decode, List.append_assoc, listHdr_of et c xs.length hc hl hd hh, Compact.norm,
        decodeVals_of_enc et xs b hx f hf r]
    | set et c xs hd b hc hl hh hx =>
      simp [TVal.size] at hf
      simp only [TVal.ttype, decode, List.append_assoc, listHdr_of et c xs.length hc hl hd hh, Compact.norm,
        decodeVals_of_enc et xs b hx f hf r]
    | mapEmpty kt vt hk hv => exact dec_mapEmpty f r
    | map kt vt ck cv k v rest b hk hv hl hx =>
      simp [TVal.size] at hf
      have hne : (TPairs.cons k v rest).length ≠ 0 := by simp [TPairs.length]
      simp only [TVal.ttype, decode, List.append_assoc, List.cons_append, mapHdr_of kt vt ck cv hk hv _ hne hl, Compact.norm,
        decodePairs_of_enc kt vt _ b hx f hf r]
theorem decodeFields_of_enc (last : Int) (fs : TFields) (bs : Bytes) (h : EncFields last fs bs) (f : Nat) (hf : fs.size ≤ f) (r : Bytes) :
    decodeFields f last (bs ++ r) = .ok (Compact.normFields fs, r) := by
  cases f with
  | zero => cases fs <;> simp [TFields.size] at hf
  | succ f =>
    cases h with
    | nil => simp only [decodeFields, List.cons_append, List.nil_append, fieldHdr_stop, Compact.normFields]
    | bool _ id b rest hd bs hid hh hr =>
      simp [TFields.size, TVal.size] at hf
      have hnib : cmpTypeOfNibble (if b then 1 else 2) = some .bool := by cases b <;> rfl
      have hval : (if (if b then 1 else 2 : Nat) = 1 then some true else if (if b then 1 else 2 : Nat) = 2 then some false else none) = some b := by
        cases b <;> simp
      simp only [decodeFields, List.append_assoc, fieldHdr_of last _ .bool (by cases b <;> decide) hnib id hid hd hh, hval]
      rw [decodeFields_of_enc id rest bs hr f (by omega)]
      simp [Compact.normFields, Compact.norm]
    | cons _ id v rest c hd a bs hid hc hh hv hr =>
      simp [TFields.size] at hf
      obtain ⟨n1, n2, n3⟩ := cmpCode_nibble v.ttype c hc
      have h1 : c ≠ 1 := by omega
      have h2 : c ≠ 2 := by omega
      simp only [decodeFields, List.append_assoc, fieldHdr_of last c v.ttype (by omega) n1 id hid hd hh, h1, h2, if_false]
      rw [decode_of_enc v a hv f (by omega)]; dsimp only
      rw [decodeFields_of_enc id rest bs hr f (by omega)]
      simp [Compact.normFields]
theorem decodeVals_of_enc (et : TType) (xs : TVals) (bs : Bytes) (h : EncVals et xs bs) (f : Nat) (hf : xs.size ≤ f) (r : Bytes) :
    decodeVals f et xs.length (bs ++ r) = .ok (Compact.normVals xs, r) := by
  cases f with
  | zero => cases xs <;> simp [TVals.size] at hf
  | succ f =>
    cases h with
    | nil => simp [decodeVals, TVals.length, Compact.normVals]
    | cons _ v vs a b ht hv hr =>
      simp [TVals.size] at hf
      simp only [TVals.length, decodeVals, List.append_assoc, Compact.normVals]
      rw [← ht, decode_of_enc v a hv f (by omega)]; dsimp only
      rw [ht, decodeVals_of_enc et vs b hr f (by omega)]
theorem decodePairs_of_enc (kt vt : TType) (kvs : TPairs) (bs : Bytes) (h : EncPairs kt vt kvs bs) (f : Nat) (hf : kvs.size ≤ f) (r : Bytes) :
    decodePairs f kt vt kvs.length (bs ++ r) = .ok (Compact.normPairs kvs, r) := by
  cases f with
  | zero => cases kvs <;> simp [TPairs.size] at hf
  | succ f =>
    cases h with
    | nil => simp [decodePairs, TPairs.length, Compact.normPairs]
    | cons _ _ k v rest a b c hk hv ek ev hr =>
      simp [TPairs.size] at hf
      simp only [TPairs.length, decodePairs, List.append_assoc, Compact.normPairs]
      rw [← hk, decode_of_enc k a ek f (by omega)]; dsimp only
      rw [← hv, decode_of_enc v b ev f (by omega)]; dsimp only
      rw [hk, hv, decodePairs_of_enc kt vt rest c hr f (by omega)]
end

end Pilota.Thrift.SpecCmp
