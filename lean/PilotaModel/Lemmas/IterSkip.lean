import PilotaModel.Lemmas.BinaryRT
import PilotaModel.Lemmas.SkipPrims
import PilotaModel.Props.Tables
/-
  The unchecked reader's iterative skipper (`Skip.iterRun`) consumes exactly the encoding of
  every well-typed value, at every nesting depth: refinement of the stack machine to the
  structure of the value.  A frame `⟨t0, t1, len⟩` on the stack stands for `len` pending values
  whose types alternate by the parity of the counter.
-/
namespace Pilota.Thrift.Skip
open Pilota Pilota.Thrift Pilota.Props.Tables

/-- continue a run from the outcome of one step. -/
def resume (g : Nat) (x : Out (Sum (Nat × Bytes) IState)) : Out (Nat × Bytes) :=
  match x with
  | .ok (.inl res) => .ok res
  | .ok (.inr s') => iterRun g s'
  | .err k => .err k | .panic m => .panic m | .fuel => .fuel

theorem iterRun_succ (g : Nat) (s : IState) : iterRun (g + 1) s = resume g (iterStep s) := by
  simp only [iterRun, resume]; split <;> simp_all

def isFixed (t : TType) : Bool := decide (0 < fixedWidth t)

theorem fixedSize_eq (t : TType) : fixedSize t = .ok (fixedWidth t) := by
  have := fixed_size_table t (by cases t <;> simp [TType.all])
  simp [fixedSize, this]

-- iterations of the loop spent on a value
mutual
def itersV : TVal → Nat
  | .struct fs => itersF fs
  | .list et xs => if xs.length = 0 ∨ isFixed et = true then 1 else 1 + itersL xs
  | .set et xs => if xs.length = 0 ∨ isFixed et = true then 1 else 1 + itersL xs
  | .map kt vt kvs => if kvs.length = 0 ∨ (isFixed kt = true ∧ isFixed vt = true) then 1 else 1 + itersP kvs
  | _ => 1
def itersL : TVals → Nat
  | .nil => 0
  | .cons v vs => itersV v + itersL vs
def itersF : TFields → Nat
  | .nil => 1
  | .cons _ v r => if isFixed v.ttype = true then 1 + itersF r else 1 + itersV v + itersF r
def itersP : TPairs → Nat
  | .nil => 0
  | .cons k v r => itersV k + itersV v + itersP r
end

/-- the stack after `skip_stack_pop!` on a frame with a positive counter. -/
def popped (top : Frame) (st : List Frame) : List Frame :=
  if top.len = 1 then st else { top with len := top.len - 1 } :: st

theorem pop_eq (top : Frame) (st : List Frame) (h : 1 ≤ top.len) : pop (top :: st) = .ok (popped top st) := by
  unfold pop popped
  have : top.len ≠ 0 := by omega
  simp only [this, if_false]
  split <;> rfl

/-! ### encodings of fixed-width values -/

theorem enc_fixed_len (v : TVal) (hw : v.wt = true) (hf : isFixed v.ttype = true) :
    (Binary.enc .be v).length = fixedWidth v.ttype := by
  cases v <;> simp [TVal.ttype, isFixed, fixedWidth] at hf <;> simp [Binary.enc, Binary.i, TVal.ttype, fixedWidth]
  case uuid bs => simpa [TVal.wt] using hw

theorem encVals_fixed_len (xs : TVals) (et : TType) (hw : xs.wt et = true) (hf : isFixed et = true) :
    (Binary.encVals .be xs).length = fixedWidth et * xs.length := by
  match xs with
  | .nil => simp [Binary.encVals, TVals.length]
  | .cons v vs =>
    simp [TVals.wt] at hw
    obtain ⟨⟨ht, hv⟩, hr⟩ := hw
    have := enc_fixed_len v hv (by rw [ht]; exact hf)
    have ih := encVals_fixed_len vs et hr hf
    simp [Binary.encVals, TVals.length, ih, this, ht, Nat.mul_add]; omega

theorem encPairs_fixed_len (kvs : TPairs) (kt vt : TType) (hw : kvs.wt kt vt = true) (hk : isFixed kt = true) (hv : isFixed vt = true) :
    (Binary.encPairs .be kvs).length = (fixedWidth kt + fixedWidth vt) * kvs.length := by
  match kvs with
  | .nil => simp [Binary.encPairs, TPairs.length]
  | .cons k v r =>
    simp [TPairs.wt] at hw
    obtain ⟨⟨⟨⟨hkt, hvt⟩, hkw⟩, hvw⟩, hr⟩ := hw
    have h1 := enc_fixed_len k hkw (by rw [hkt]; exact hk)
    have h2 := enc_fixed_len v hvw (by rw [hvt]; exact hv)
    have ih := encPairs_fixed_len r kt vt hr hk hv
    simp [Binary.encPairs, TPairs.length, ih, h1, h2, hkt, hvt, Nat.mul_add]; omega

theorem uAdvance_append (a r : Bytes) (n : Nat) : uAdvance a.length n (a ++ r) = .ok (n + a.length, r) := by
  simp [uAdvance]

theorem uAdvance_append' (w : Nat) (a r : Bytes) (n : Nat) (h : a.length = w) : uAdvance w n (a ++ r) = .ok (n + w, r) := by
  subst h; exact uAdvance_append a r n

/-! ### headers -/

theorem rawListBegin_enc (et : TType) (n : Nat) (h : n < 2 ^ 31) (r : Bytes) :
    rawListBegin (UInt8.ofNat et.toByte :: (Binary.i .be 4 (toS 4 n) ++ r)) = .ok ((et, n), r) := by
  simp [rawListBegin, Binary.readTType_cons, Binary.readLen .be n h, Binary.asUsize_toS4 _ h]

theorem rawMapBegin_enc (kt vt : TType) (n : Nat) (h : n < 2 ^ 31) (r : Bytes) :
    rawMapBegin (UInt8.ofNat kt.toByte :: UInt8.ofNat vt.toByte :: (Binary.i .be 4 (toS 4 n) ++ r)) = .ok ((kt, vt, n), r) := by
  simp [rawMapBegin, Binary.readTType_cons, Binary.readLen .be n h, Binary.asUsize_toS4 _ h]

theorem fieldBegin_enc (t : TType) (hs : t ≠ .stop) (id : Int) (hid : inS 2 id) (r : Bytes) :
    Binary.readFieldBegin .be (UInt8.ofNat t.toByte :: (Binary.i .be 2 id ++ r)) = .ok ((t, id), r) := by
  simp [Binary.readFieldBegin, Binary.readTType_cons, hs, Binary.readI_i .be 2 (by decide) id hid]

theorem fieldBegin_stop (r : Bytes) : Binary.readFieldBegin .be ((0 : UInt8) :: r) = .ok ((.stop, 0), r) := by
  simp [Binary.readFieldBegin, Binary.readTType, Binary.readByte, TType.ofByte]

/-! ### the refinement -/

theorem sel_same (t : TType) (m : Nat) : ({ t0 := t, t1 := t, len := m } : Frame).sel = t := by
  unfold Frame.sel; split <;> rfl

/-- `v` stands under a frame whose parity selects its type: the machine skips it and pops. -/
def UnderFrame (v : TVal) : Prop :=
  ∀ g n r top st, top.sel = v.ttype → 1 ≤ top.len →
    resume (g + itersV v) (iterBottom n (Binary.enc .be v ++ r) (top :: st))
      = resume g (iterBottom (n + (Binary.enc .be v).length) r (popped top st))

def StmtA (v : TVal) : Prop :=
  ∀ g n r st, iterRun (g + itersV v) { tt := v.ttype, n := n, bs := Binary.enc .be v ++ r, stack := st }
    = resume g (iterBottom (n + (Binary.enc .be v).length) r st)

def StmtB (fs : TFields) : Prop :=
  ∀ g n r top st, top.sel = .struct → 1 ≤ top.len →
    iterRun (g + itersF fs) { tt := .struct, n := n, bs := Binary.encFields .be fs ++ r, stack := top :: st }
      = resume g (iterBottom (n + (Binary.encFields .be fs).length) r (popped top st))

theorem under_frame (v : TVal) (hA : v.ttype ≠ .struct → StmtA v) (hB : ∀ fs, v = .struct fs → StmtB fs) : UnderFrame v := by
  intro g n r top st hsel hlen
  by_cases hs : v.ttype = .struct
  · obtain ⟨fs, rfl⟩ : ∃ fs, v = .struct fs := by
      cases v <;> simp [TVal.ttype] at hs; exact ⟨_, rfl⟩
    have h1 : iterBottom n (Binary.enc .be (.struct fs) ++ r) (top :: st)
        = .ok (.inr { tt := .struct, n := n, bs := Binary.enc .be (.struct fs) ++ r, stack := top :: st }) := by
      simp [iterBottom, hsel, TVal.ttype]
    rw [h1]
    simp only [resume, itersV, Binary.enc]
    exact hB fs rfl g n r top st (by simpa [TVal.ttype] using hsel) hlen
  · have h1 : iterBottom n (Binary.enc .be v ++ r) (top :: st)
        = .ok (.inr { tt := v.ttype, n := n, bs := Binary.enc .be v ++ r, stack := popped top st }) := by
      simp [iterBottom, hsel, hs, pop_eq top st hlen]
    rw [h1]
    simp only [resume]
    exact hA hs g n r (popped top st)

theorem fuel1 (g k : Nat) : g + (1 + k) = (g + k) + 1 := by omega

theorem len_lt32 (n : Nat) (h : n < 2 ^ 31) : n % 2 ^ 32 = n := by
  have e31 : (2:Nat) ^ 31 = 2147483648 := by decide
  have e32 : (2:Nat) ^ 32 = 4294967296 := by decide
  rw [e32]; rw [e31] at h; omega

theorem lt31 {n : Nat} (h : n < 2147483648) : n < 2 ^ 31 := by
  have e : (2:Nat) ^ 31 = 2147483648 := by decide
  rw [e]; exact h

theorem fixedWidth_le (t : TType) : fixedWidth t ≤ 16 := by cases t <;> simp [fixedWidth]

theorem step_leaf (v : TVal) (hw : v.wt = true) (hf : isFixed v.ttype = true) (n : Nat) (r : Bytes) (st : List Frame) :
    iterBody v.ttype n (Binary.enc .be v ++ r) st = .ok (.bottom, n + (Binary.enc .be v).length, r, st) := by
  have hl := enc_fixed_len v hw hf
  cases v <;> simp [TVal.ttype, isFixed, fixedWidth] at hf hl <;>
    simp only [iterBody, TVal.ttype] <;> rw [uAdvance_append' _ _ r n hl] <;> simp [hl]

mutual
theorem stmtA (v : TVal) (hw : v.wt = true) (hs : v.ttype ≠ .struct) : StmtA v := by
  intro g n r st
  cases v with
  | struct fs => simp [TVal.ttype] at hs
  | bool b => simp only [itersV, iterRun_succ, iterStep]; rw [step_leaf _ hw rfl]
  | i8 x => simp only [itersV, iterRun_succ, iterStep]; rw [step_leaf _ hw rfl]
  | i16 x => simp only [itersV, iterRun_succ, iterStep]; rw [step_leaf _ hw rfl]
  | i32 x => simp only [itersV, iterRun_succ, iterStep]; rw [step_leaf _ hw rfl]
  | i64 x => simp only [itersV, iterRun_succ, iterStep]; rw [step_leaf _ hw rfl]
  | dbl x => simp only [itersV, iterRun_succ, iterStep]; rw [step_leaf _ hw rfl]
  | uuid x => simp only [itersV, iterRun_succ, iterStep]; rw [step_leaf _ hw rfl]
  | bin bs =>
    simp [TVal.wt] at hw
    have hw := lt31 hw
    simp only [itersV, iterRun_succ, iterStep, iterBody, TVal.ttype, Binary.enc, List.append_assoc]
    rw [Binary.readLen .be bs.length hw]
    simp only [unchecked, Binary.asUsize_toS4 _ hw]
    rw [uAdvance_append]
    simp [Binary.i]; congr 2; omega
  | list et xs =>
    simp [TVal.wt] at hw
    obtain ⟨⟨he, hl⟩, hx⟩ := hw
    have hl := lt31 hl
    simp only [TVal.ttype, Binary.enc, List.cons_append, List.append_assoc]
    by_cases h0 : xs.length = 0
    · have : xs = .nil := by cases xs <;> simp [TVals.length] at h0; rfl
      subst this
      simp only [itersV, TVals.length, true_or, if_true, iterRun_succ, iterStep, iterBody]
      rw [rawListBegin_enc et 0 (by decide)]
      simp [unchecked, Binary.encVals, Binary.i, TVals.length]
    · by_cases hf : isFixed et = true
      · simp only [itersV, hf, or_true, if_true, iterRun_succ, iterStep, iterBody]
        rw [rawListBegin_enc et _ hl]
        have hw0 : 0 < fixedWidth et := by simpa [isFixed] using hf
        have hlen := encVals_fixed_len xs et hx hf
        have hmul : fixedWidth et * xs.length < 2 ^ 64 := by
          have := fixedWidth_le et
          have e31 : (2:Nat) ^ 31 = 2147483648 := by decide
          have e64 : (2:Nat) ^ 64 = 18446744073709551616 := by decide
          rw [e31] at hl; rw [e64]
          calc fixedWidth et * xs.length ≤ 16 * xs.length := Nat.mul_le_mul_right _ this
            _ < 18446744073709551616 := by omega
        simp only [unchecked, h0, ne_eq, not_false_eq_true, if_true, fixedSize_eq, hw0, gt_iff_lt, hmul]
        rw [uAdvance_append' _ _ r _ hlen]
        simp [Binary.i, hlen]; congr 2; omega
      · have hw0 : ¬ 0 < fixedWidth et := by simpa [isFixed] using hf
        simp only [itersV, h0, hf, false_or, or_false, Bool.false_eq_true, if_false, fuel1, iterRun_succ, iterStep, iterBody]
        rw [rawListBegin_enc et _ hl]
        simp only [unchecked, h0, ne_eq, not_false_eq_true, if_true, fixedSize_eq, hw0, gt_iff_lt, if_false, len_lt32 _ hl]
        have := stmtL xs et hx (by omega) g (n + 5) r st
        rw [this]
        simp [Binary.i]; congr 2; omega
  | set et xs =>
    simp [TVal.wt] at hw
    obtain ⟨⟨he, hl⟩, hx⟩ := hw
    have hl := lt31 hl
    simp only [TVal.ttype, Binary.enc, List.cons_append, List.append_assoc]
    by_cases h0 : xs.length = 0
    · have : xs = .nil := by cases xs <;> simp [TVals.length] at h0; rfl
      subst this
      simp only [itersV, TVals.length, true_or, if_true, iterRun_succ, iterStep, iterBody]
      rw [rawListBegin_enc et 0 (by decide)]
      simp [unchecked, Binary.encVals, Binary.i, TVals.length]
    · by_cases hf : isFixed et = true
      · simp only [itersV, hf, or_true, if_true, iterRun_succ, iterStep, iterBody]
        rw [rawListBegin_enc et _ hl]
        have hw0 : 0 < fixedWidth et := by simpa [isFixed] using hf
        have hlen := encVals_fixed_len xs et hx hf
        have hmul : fixedWidth et * xs.length < 2 ^ 64 := by
          have := fixedWidth_le et
          have e31 : (2:Nat) ^ 31 = 2147483648 := by decide
          have e64 : (2:Nat) ^ 64 = 18446744073709551616 := by decide
          rw [e31] at hl; rw [e64]
          calc fixedWidth et * xs.length ≤ 16 * xs.length := Nat.mul_le_mul_right _ this
            _ < 18446744073709551616 := by omega
        simp only [unchecked, h0, ne_eq, not_false_eq_true, if_true, fixedSize_eq, hw0, gt_iff_lt, hmul]
        rw [uAdvance_append' _ _ r _ hlen]
        simp [Binary.i, hlen]; congr 2; omega
      · have hw0 : ¬ 0 < fixedWidth et := by simpa [isFixed] using hf
        simp only [itersV, h0, hf, false_or, or_false, Bool.false_eq_true, if_false, fuel1, iterRun_succ, iterStep, iterBody]
        rw [rawListBegin_enc et _ hl]
        simp only [unchecked, h0, ne_eq, not_false_eq_true, if_true, fixedSize_eq, hw0, gt_iff_lt, if_false, len_lt32 _ hl]
        have := stmtL xs et hx (by omega) g (n + 5) r st
        rw [this]
        simp [Binary.i]; congr 2; omega
  | map kt vt kvs =>
    simp [TVal.wt] at hw
    obtain ⟨⟨⟨hk, hv⟩, hl⟩, hx⟩ := hw
    have hl := lt31 hl
    simp only [TVal.ttype, Binary.enc, List.cons_append, List.append_assoc]
    by_cases h0 : kvs.length = 0
    · have : kvs = .nil := by cases kvs <;> simp [TPairs.length] at h0; rfl
      subst this
      simp only [itersV, TPairs.length, true_or, if_true, iterRun_succ, iterStep, iterBody]
      rw [rawMapBegin_enc kt vt 0 (by decide)]
      simp [unchecked, Binary.encPairs, Binary.i, TPairs.length]
    · have hpos : kvs.length > 0 := by omega
      by_cases hf : isFixed kt = true ∧ isFixed vt = true
      · simp only [itersV, hf, and_self, or_true, if_true, iterRun_succ, iterStep, iterBody]
        rw [rawMapBegin_enc kt vt _ hl]
        have hk0 : 0 < fixedWidth kt := by simpa [isFixed] using hf.1
        have hv0 : 0 < fixedWidth vt := by simpa [isFixed] using hf.2
        have hlen := encPairs_fixed_len kvs kt vt hx hf.1 hf.2
        have hmul : (fixedWidth kt + fixedWidth vt) * kvs.length < 2 ^ 64 := by
          have := fixedWidth_le kt
          have := fixedWidth_le vt
          have e31 : (2:Nat) ^ 31 = 2147483648 := by decide
          have e64 : (2:Nat) ^ 64 = 18446744073709551616 := by decide
          rw [e31] at hl; rw [e64]
          calc (fixedWidth kt + fixedWidth vt) * kvs.length ≤ 32 * kvs.length := Nat.mul_le_mul_right _ (by omega)
            _ < 18446744073709551616 := by omega
        simp only [unchecked, hpos, if_true, fixedSize_eq, hk0, hv0, gt_iff_lt, and_self, hmul]
        rw [uAdvance_append' _ _ r _ hlen]
        simp [Binary.i, hlen]; congr 2; omega
      · have hw0 : ¬ (0 < fixedWidth kt ∧ 0 < fixedWidth vt) := by simpa [isFixed] using hf
        have h2 : kvs.length * 2 < 2 ^ 64 := by
          have e31 : (2:Nat) ^ 31 = 2147483648 := by decide
          have e64 : (2:Nat) ^ 64 = 18446744073709551616 := by decide
          rw [e31] at hl; rw [e64]; omega
        have h3 : (kvs.length * 2) % 2 ^ 32 = 2 * kvs.length := by
          have e31 : (2:Nat) ^ 31 = 2147483648 := by decide
          have e32 : (2:Nat) ^ 32 = 4294967296 := by decide
          rw [e31] at hl; rw [e32]; omega
        simp only [itersV, h0, hf, false_or, or_false, if_false, fuel1, iterRun_succ, iterStep, iterBody]
        rw [rawMapBegin_enc kt vt _ hl]
        simp only [unchecked, hpos, if_true, fixedSize_eq, gt_iff_lt, hw0, if_false, h2, h3]
        have := stmtP kvs kt vt hx (by omega) g (n + 6) r st
        rw [this]
        simp [Binary.i]; congr 2; omega
theorem stmtB (fs : TFields) (hw : fs.wt = true) : StmtB fs := by
  intro g n r top st hsel hlen
  cases fs with
  | nil =>
    simp only [itersF, iterRun_succ, iterStep, iterBody, Binary.encFields, List.cons_append, List.nil_append]
    rw [fieldBegin_stop]
    simp [unchecked, pop_eq top st hlen]
  | cons id v rest =>
    simp [TFields.wt] at hw
    obtain ⟨⟨hid, hv⟩, hr⟩ := hw
    have hns : v.ttype ≠ .stop := Binary.ttype_isValue_ne_stop _ (Binary.val_ttype_isValue v)
    simp only [Binary.encFields, List.cons_append, List.append_assoc]
    by_cases hf : isFixed v.ttype = true
    · have hw0 : 0 < fixedWidth v.ttype := by simpa [isFixed] using hf
      have hlen' := enc_fixed_len v hv hf
      simp only [itersF, hf, if_true, fuel1, iterRun_succ, iterStep, iterBody]
      rw [fieldBegin_enc _ hns id hid]
      simp only [unchecked, hns, if_false, fixedSize_eq, hw0, gt_iff_lt, if_true]
      rw [uAdvance_append' _ _ _ _ hlen']
      simp only [resume]
      have := stmtB rest hr g (n + 3 + fixedWidth v.ttype) r top st hsel hlen
      rw [this]
      simp [Binary.i, hlen']; congr 2; omega
    · have hw0 : ¬ 0 < fixedWidth v.ttype := by simpa [isFixed] using hf
      have e : g + (1 + itersV v + itersF rest) = ((g + itersF rest) + itersV v) + 1 := by omega
      simp only [itersF, hf, Bool.false_eq_true, if_false, e, iterRun_succ, iterStep, iterBody]
      rw [fieldBegin_enc _ hns id hid]
      simp only [unchecked, hns, if_false, fixedSize_eq, hw0, gt_iff_lt]
      have hU : UnderFrame v := under_frame v (fun hs => stmtA v hv hs) (fun fs' h' => by subst h'; exact stmtB fs' (by simpa [TVal.wt] using hv))
      have := hU (g + itersF rest) (n + 3) (Binary.encFields .be rest ++ r) { t0 := v.ttype, t1 := v.ttype, len := 1 } (top :: st)
        (sel_same _ _) (by simp)
      rw [this]
      have hp : popped { t0 := v.ttype, t1 := v.ttype, len := 1 } (top :: st) = top :: st := by simp [popped]
      rw [hp]
      have h1 : iterBottom (n + 3 + (Binary.enc .be v).length) (Binary.encFields .be rest ++ r) (top :: st)
          = .ok (.inr { tt := .struct, n := n + 3 + (Binary.enc .be v).length, bs := Binary.encFields .be rest ++ r, stack := top :: st }) := by
        simp [iterBottom, hsel]
      rw [h1]
      simp only [resume]
      have := stmtB rest hr g (n + 3 + (Binary.enc .be v).length) r top st hsel hlen
      rw [this]
      simp [Binary.i]; congr 2; omega
theorem stmtL (xs : TVals) (et : TType) (hw : xs.wt et = true) (hpos : 1 ≤ xs.length) :
    ∀ g n r st, resume (g + itersL xs) (iterBottom n (Binary.encVals .be xs ++ r) ({ t0 := et, t1 := et, len := xs.length } :: st))
      = resume g (iterBottom (n + (Binary.encVals .be xs).length) r st) := by
  intro g n r st
  cases xs with
  | nil => simp [TVals.length] at hpos
  | cons v vs =>
    simp [TVals.wt] at hw
    obtain ⟨⟨ht, hv⟩, hr⟩ := hw
    have hU : UnderFrame v := under_frame v (fun hs => stmtA v hv hs) (fun fs' h' => by subst h'; exact stmtB fs' (by simpa [TVal.wt] using hv))
    have e : g + (itersV v + itersL vs) = (g + itersL vs) + itersV v := by omega
    simp only [itersL, e, Binary.encVals, List.append_assoc, TVals.length]
    have := hU (g + itersL vs) n (Binary.encVals .be vs ++ r) { t0 := et, t1 := et, len := vs.length + 1 } st
      (by rw [sel_same, ht]) (by simp)
    rw [this]
    by_cases hn : vs.length = 0
    · have : vs = .nil := by cases vs <;> simp [TVals.length] at hn; rfl
      subst this
      simp [popped, TVals.length, itersL, Binary.encVals]
    · have hp : popped { t0 := et, t1 := et, len := vs.length + 1 } st = { t0 := et, t1 := et, len := vs.length } :: st := by
        simp [popped, hn]
      rw [hp]
      have := stmtL vs et hr (by omega) g (n + (Binary.enc .be v).length) r st
      rw [this]
      simp; congr 2; omega
theorem stmtP (kvs : TPairs) (kt vt : TType) (hw : kvs.wt kt vt = true) (hpos : 1 ≤ kvs.length) :
    ∀ g n r st, resume (g + itersP kvs) (iterBottom n (Binary.encPairs .be kvs ++ r) ({ t0 := kt, t1 := vt, len := 2 * kvs.length } :: st))
      = resume g (iterBottom (n + (Binary.encPairs .be kvs).length) r st) := by
  intro g n r st
  cases kvs with
  | nil => simp [TPairs.length] at hpos
  | cons k v rest =>
    simp [TPairs.wt] at hw
    obtain ⟨⟨⟨⟨hkt, hvt⟩, hkw⟩, hvw⟩, hr⟩ := hw
    have hUk : UnderFrame k := under_frame k (fun hs => stmtA k hkw hs) (fun fs' h' => by subst h'; exact stmtB fs' (by simpa [TVal.wt] using hkw))
    have hUv : UnderFrame v := under_frame v (fun hs => stmtA v hvw hs) (fun fs' h' => by subst h'; exact stmtB fs' (by simpa [TVal.wt] using hvw))
    have e : g + (itersV k + itersV v + itersP rest) = ((g + itersP rest) + itersV v) + itersV k := by omega
    simp only [itersP, e, Binary.encPairs, List.append_assoc, TPairs.length]
    have h1 := hUk ((g + itersP rest) + itersV v) n (Binary.enc .be v ++ (Binary.encPairs .be rest ++ r))
      { t0 := kt, t1 := vt, len := 2 * (rest.length + 1) } st
      (by simp [Frame.sel, hkt]) (by simp; omega)
    rw [h1]
    have hp1 : popped { t0 := kt, t1 := vt, len := 2 * (rest.length + 1) } st = { t0 := kt, t1 := vt, len := 2 * rest.length + 1 } :: st := by
      have : 2 * (rest.length + 1) ≠ 1 := by omega
      simp [popped, this] <;> omega
    rw [hp1]
    have h2 := hUv (g + itersP rest) (n + (Binary.enc .be k).length) (Binary.encPairs .be rest ++ r)
      { t0 := kt, t1 := vt, len := 2 * rest.length + 1 } st
      (by simp [Frame.sel, hvt] <;> omega) (by simp)
    rw [h2]
    by_cases hn : rest.length = 0
    · have : rest = .nil := by cases rest <;> simp [TPairs.length] at hn; rfl
      subst this
      simp [popped, TPairs.length, itersP, Binary.encPairs]; congr 2; omega
    · have hp : popped { t0 := kt, t1 := vt, len := 2 * rest.length + 1 } st = { t0 := kt, t1 := vt, len := 2 * rest.length } :: st := by
        have : 2 * rest.length + 1 ≠ 1 := by omega
        simp [popped, hn] <;> omega
      rw [hp]
      have := stmtP rest kt vt hr (by omega) g (n + (Binary.enc .be k).length + (Binary.enc .be v).length) r st
      rw [this]
      simp; congr 2; omega
end

/-! ### every iteration consumes a byte: the budget `len + 1` suffices on every input -/

mutual
theorem itersV_le (v : TVal) (hw : v.wt = true) : itersV v ≤ (Binary.enc .be v).length := by
  cases v with
  | struct fs => simp [TVal.wt] at hw; simpa [itersV, Binary.enc] using itersF_le fs hw
  | list et xs =>
    simp [TVal.wt] at hw
    have := itersL_le xs et hw.2
    simp only [itersV, Binary.enc]; split <;> simp [Binary.i] <;> omega
  | set et xs =>
    simp [TVal.wt] at hw
    have := itersL_le xs et hw.2
    simp only [itersV, Binary.enc]; split <;> simp [Binary.i] <;> omega
  | map kt vt kvs =>
    simp [TVal.wt] at hw
    have := itersP_le kvs kt vt hw.2
    simp only [itersV, Binary.enc]; split <;> simp [Binary.i] <;> omega
  | uuid bs => simp [TVal.wt] at hw; simp [itersV, Binary.enc, hw]
  | bin bs => simp [itersV, Binary.enc, Binary.i]; omega
  | bool b => simp [itersV, Binary.enc]
  | i8 x => simp [itersV, Binary.enc, Binary.i]
  | i16 x => simp [itersV, Binary.enc, Binary.i]
  | i32 x => simp [itersV, Binary.enc, Binary.i]
  | i64 x => simp [itersV, Binary.enc, Binary.i]
  | dbl x => simp [itersV, Binary.enc]
theorem itersL_le (xs : TVals) (et : TType) (hw : xs.wt et = true) : itersL xs ≤ (Binary.encVals .be xs).length := by
  cases xs with
  | nil => simp [itersL]
  | cons v vs =>
    simp [TVals.wt] at hw
    have := itersV_le v hw.1.2
    have := itersL_le vs et hw.2
    simp [itersL, Binary.encVals]; omega
theorem itersF_le (fs : TFields) (hw : fs.wt = true) : itersF fs ≤ (Binary.encFields .be fs).length := by
  cases fs with
  | nil => simp [itersF, Binary.encFields]
  | cons id v rest =>
    simp [TFields.wt] at hw
    have := itersV_le v hw.1.2
    have := itersF_le rest hw.2
    simp only [itersF, Binary.encFields]; split <;> simp [Binary.i] <;> omega
theorem itersP_le (kvs : TPairs) (kt vt : TType) (hw : kvs.wt kt vt = true) : itersP kvs ≤ (Binary.encPairs .be kvs).length := by
  cases kvs with
  | nil => simp [itersP]
  | cons k v rest =>
    simp [TPairs.wt] at hw
    have := itersV_le k hw.1.1.2
    have := itersV_le v hw.1.2
    have := itersP_le rest kt vt hw.2
    simp [itersP, Binary.encPairs]; omega
end

/-- the iterative skipper on the encoding of any well-typed value followed by anything:
exactly the value is consumed and counted — no depth bound. -/
theorem iterSkip_enc (v : TVal) (hw : v.wt = true) (r : Bytes) :
    iterSkip v.ttype (Binary.enc .be v ++ r) = .ok ((Binary.enc .be v).length, r) := by
  have hle := itersV_le v hw
  unfold iterSkip iterInit
  obtain ⟨g, hg⟩ : ∃ g, (Binary.enc .be v ++ r).length + 1 = g + itersV v := ⟨(Binary.enc .be v ++ r).length + 1 - itersV v, by simp; omega⟩
  rw [hg]
  by_cases hs : v.ttype = .struct
  · obtain ⟨fs, rfl⟩ : ∃ fs, v = .struct fs := by
      cases v <;> simp [TVal.ttype] at hs; exact ⟨_, rfl⟩
    simp only [TVal.ttype, if_true, itersV, Binary.enc]
    have := stmtB fs (by simpa [TVal.wt] using hw) g 0 r { t0 := .struct, t1 := .struct, len := 1 } [] (sel_same _ _) (by simp)
    rw [this]
    simp [popped, iterBottom, resume]
  · simp only [hs, if_false]
    have := stmtA v hw hs g 0 r []
    rw [this]
    simp [iterBottom, resume]

theorem uAdvance_len {w n bs n' r} (h : uAdvance w n bs = .ok (n', r)) : r.length + w = bs.length := by
  unfold uAdvance at h; split at h <;> simp at h
  obtain ⟨_, rfl⟩ := h; simp; omega

theorem unchecked_ok {α} {x : Out α} {a} (h : unchecked x = .ok a) : x = .ok a := by
  unfold unchecked at h; split at h <;> simp_all

attribute [grind →] uAdvance_len unchecked_ok

theorem iterBody_len {tt n bs st a n' bs' st'} (h : iterBody tt n bs st = .ok (a, n', bs', st')) : bs'.length + 1 ≤ bs.length := by
  cases tt <;> simp only [iterBody] at h <;> osplit_at h <;> grind

theorem iterStep_len {s s'} (h : iterStep s = .ok (.inr s')) : s'.bs.length + 1 ≤ s.bs.length := by
  unfold iterStep at h
  cases hb : iterBody s.tt s.n s.bs s.stack with
  | ok p =>
    obtain ⟨a, n', bs', st'⟩ := p
    have := iterBody_len hb
    simp only [hb] at h
    cases a
    · simp at h; subst h; simpa using this
    · simp only [iterBottom] at h
      osplit_at h <;> (subst h; simpa using this)
  | err k => simp [hb] at h
  | panic m => simp [hb] at h
  | fuel => simp [hb] at h

theorem iterStep_ne_fuel (s : IState) : iterStep s ≠ .fuel := by
  have hf : ∀ t, fixedSize t ≠ .fuel := fun t => by simp [fixedSize_eq]
  have hp : ∀ st, pop st ≠ .fuel := fun st => by unfold pop; osplit
  have hu : ∀ w n bs, uAdvance w n bs ≠ .fuel := fun w n bs => by unfold uAdvance; osplit
  have hun : ∀ {α} (x : Out α), x ≠ .fuel → unchecked x ≠ .fuel := fun x hx => by unfold unchecked; split <;> simp_all
  have h1 := hun _ (Binary.readI_ne_fuel .be 4 s.bs)
  have h2 := hun _ (Binary.readFieldBegin_ne_fuel .be s.bs)
  have h3 := hun _ (rawListBegin_ne_fuel s.bs)
  have h4 := hun _ (rawMapBegin_ne_fuel s.bs)
  intro h
  unfold iterStep at h
  cases hb : iterBody s.tt s.n s.bs s.stack with
  | ok p =>
    obtain ⟨a, n', bs', st'⟩ := p
    simp only [hb] at h
    cases a
    · simp at h
    · simp only [iterBottom] at h; osplit_at h; simp_all
  | err k => simp [hb] at h
  | panic m => simp [hb] at h
  | fuel =>
    generalize s.tt = tt at hb
    cases tt <;> simp only [iterBody] at hb <;> osplit_at hb <;> simp_all

theorem iterRun_nofuel : ∀ f s, s.bs.length + 1 ≤ f → iterRun f s ≠ .fuel := by
  intro f
  induction f with
  | zero => intro s h; omega
  | succ f ih =>
    intro s hf h
    simp only [iterRun] at h
    cases hs : iterStep s with
    | ok x =>
      cases x with
      | inl res => simp [hs] at h
      | inr s' =>
        simp only [hs] at h
        have := iterStep_len hs
        exact ih s' (by omega) h
    | err k => simp [hs] at h
    | panic m => simp [hs] at h
    | fuel => exact iterStep_ne_fuel s hs

end Pilota.Thrift.Skip
