import PilotaModel.Lemmas.Base
import PilotaModel.Lemmas.Fuel
import PilotaModel.Thrift.Binary
namespace Pilota.Thrift.Binary
open Pilota Pilota.Thrift

theorem takeN_append (a r : Bytes) : takeN a.length (a ++ r) = .ok (a, r) := by
  simp [takeN]

theorem takeN_append' (n : Nat) (a r : Bytes) (h : a.length = n) : takeN n (a ++ r) = .ok (a, r) := by
  subst h; exact takeN_append a r

theorem readU_enc (e w n) (r : Bytes) : readU e w (encFixed e w n ++ r) = .ok (n % 256 ^ w, r) := by
  simp [readU, takeN_append' w _ r (encFixed_length e w n), decFixed_encFixed]

theorem readI_i (e w) (hw : 0 < w) (n : Int) (h : inS w n) (r : Bytes) :
    readI e w (i e w n ++ r) = .ok (n, r) := by
  simp only [readI, i, readU_enc]
  rw [Nat.mod_eq_of_lt (toU_lt w n), toS_toU w hw n h]

theorem readI_i_cons (e w) (hw : 0 < w) (n : Int) (h : inS w n) (r : Bytes) (b : UInt8) :
    readI e w (i e w n ++ b :: r) = .ok (n, b :: r) := readI_i e w hw n h (b :: r)

theorem toByte_lt (t : TType) : t.toByte < 256 := by cases t <;> decide

theorem ofByte_toByte (t : TType) : TType.ofByte t.toByte = some t := by cases t <;> rfl

theorem readTType_cons (t : TType) (r : Bytes) : readTType (UInt8.ofNat t.toByte :: r) = .ok (t, r) := by
  have : (UInt8.ofNat t.toByte).toNat = t.toByte := by
    simp [UInt8.toNat_ofNat']; exact toByte_lt t
  simp [readTType, readByte, this, ofByte_toByte]

theorem inS4_len (n : Nat) (_h : n < 2 ^ 31) : inS 4 (toS 4 n) := inS_toS 4 (by decide) n

theorem asUsize_toS4 (n : Nat) (h : n < 2 ^ 31) : asUsize (toS 4 n) = n := by
  unfold asUsize toS toU
  have e4 : (256:Nat) ^ 4 = 4294967296 := by decide
  have e8 : (256:Nat) ^ 8 = 18446744073709551616 := by decide
  have e31 : (2:Nat) ^ 31 = 2147483648 := by decide
  rw [e4, e8]; rw [e31] at h
  have h1 : n % 4294967296 = n := Nat.mod_eq_of_lt (by omega)
  rw [h1]
  have h2 : n < 4294967296 / 2 := by omega
  simp only [h2, if_true]
  have : ((n : Int) % ((18446744073709551616 : Nat) : Int)) = n := Int.emod_eq_of_lt (by omega) (by omega)
  rw [this]; simp

theorem readLen (e) (n : Nat) (h : n < 2 ^ 31) (r : Bytes) :
    readI e 4 (i e 4 (toS 4 n) ++ r) = .ok (toS 4 n, r) :=
  readI_i e 4 (by decide) _ (inS4_len n h) r

theorem readBytes_enc (e) (bs r : Bytes) (h : bs.length < 2 ^ 31) :
    readBytes e (i e 4 (toS 4 bs.length) ++ (bs ++ r)) = .ok (bs, r) := by
  simp [readBytes, readLen e bs.length h, asUsize_toS4 _ h, splitTo]

theorem toS4_eq (n : Nat) (h : n < 2 ^ 31) : toS 4 n = (n : Int) := by
  unfold toS
  have e4 : (256:Nat) ^ 4 = 4294967296 := by decide
  have e31 : (2:Nat) ^ 31 = 2147483648 := by decide
  rw [e4]; rw [e31] at h
  have h1 : n % 4294967296 = n := Nat.mod_eq_of_lt (by omega)
  rw [h1]
  have h2 : n < 4294967296 / 2 := by omega
  simp [h2]

theorem checkSize_ok (n : Nat) (r : Bytes) (h : n ≤ r.length) : checkSize (n : Int) r = .ok n := by
  unfold checkSize
  have : ¬ ((n : Int) < 0) := by omega
  simp [this, h]

theorem readListBegin_enc (e) (et : TType) (n : Nat) (h : n < 2 ^ 31) (r : Bytes) (hr : n ≤ r.length) :
    readListBegin e (UInt8.ofNat et.toByte :: (i e 4 (toS 4 n) ++ r)) = .ok ((et, n), r) := by
  have hl := readLen e n h r
  rw [toS4_eq n h] at hl ⊢
  simp [readListBegin, readTType_cons, hl, checkSize_ok n r hr]

theorem readMapBegin_enc (e) (kt vt : TType) (n : Nat) (h : n < 2 ^ 31) (r : Bytes) (hr : n ≤ r.length) :
    readMapBegin e (UInt8.ofNat kt.toByte :: UInt8.ofNat vt.toByte :: (i e 4 (toS 4 n) ++ r)) = .ok ((kt, vt, n), r) := by
  have hl := readLen e n h r
  rw [toS4_eq n h] at hl ⊢
  simp [readMapBegin, readTType_cons, hl, checkSize_ok n r hr]

theorem ttype_isValue_ne_stop (t : TType) (h : t.isValue = true) : t ≠ .stop := by
  cases t <;> simp_all [TType.isValue]

theorem val_ttype_isValue (v : TVal) : v.ttype.isValue = true := by
  cases v <;> rfl

end Pilota.Thrift.Binary

namespace Pilota.Thrift.Binary
open Pilota Pilota.Thrift

mutual
theorem readVal_enc (e : Endian) (v : TVal) (hw : v.wt = true) (f : Nat) (hf : v.size ≤ f) (r : Bytes) :
    readVal e f v.ttype (enc e v ++ r) = .ok (v, r) := by
  cases f with
  | zero => cases v <;> simp [TVal.size] at hf
  | succ f =>
    cases v with
    | bool b => cases b <;> simp [enc, TVal.ttype, readVal, readI, readU, takeN, decFixed, beToNat, leToNat, toS] <;> cases e <;> decide
    | i8 n => simp [TVal.wt] at hw; simp [enc, TVal.ttype, readVal, readI_i e 1 (by decide) n hw]
    | i16 n => simp [TVal.wt] at hw; simp [enc, TVal.ttype, readVal, readI_i e 2 (by decide) n hw]
    | i32 n => simp [TVal.wt] at hw; simp [enc, TVal.ttype, readVal, readI_i e 4 (by decide) n hw]
    | i64 n => simp [TVal.wt] at hw; simp [enc, TVal.ttype, readVal, readI_i e 8 (by decide) n hw]
    | dbl b =>
      simp [TVal.wt] at hw
      have : b % 256 ^ 8 = b := Nat.mod_eq_of_lt (by have : (256:Nat)^8 = 2^64 := by decide
                                                     omega)
      simp [enc, TVal.ttype, readVal, readU_enc, this]
    | bin bs =>
      simp [TVal.wt] at hw
      simp [enc, TVal.ttype, readVal, readBytes_enc e bs r hw, List.append_assoc]
    | uuid bs =>
      simp [TVal.wt] at hw
      simp [enc, TVal.ttype, readVal, takeN_append' 16 bs r hw]
    | struct fs =>
      simp [TVal.wt] at hw; simp [TVal.size] at hf
      simp [enc, TVal.ttype, readVal, readFields_enc e fs hw f hf r]
    | list et xs =>
      simp [TVal.wt] at hw; simp [TVal.size] at hf
      obtain ⟨⟨_, hl⟩, hx⟩ := hw
      simp only [enc, TVal.ttype, readVal, List.cons_append, List.append_assoc]
      rw [readListBegin_enc e et _ hl _ (by have := vals_length_le e xs et hx; simp only [List.length_append]; omega)]
      simp [readN_enc e et xs hx f hf r]
    | set et xs =>
      simp [TVal.wt] at hw; simp [TVal.size] at hf
      obtain ⟨⟨_, hl⟩, hx⟩ := hw
      simp only [enc, TVal.ttype, readVal, List.cons_append, List.append_assoc]
      rw [readListBegin_enc e et _ hl _ (by have := vals_length_le e xs et hx; simp only [List.length_append]; omega)]
      simp [readN_enc e et xs hx f hf r]
    | map kt vt kvs =>
      simp [TVal.wt] at hw; simp [TVal.size] at hf
      obtain ⟨⟨⟨_, _⟩, hl⟩, hx⟩ := hw
      simp only [enc, TVal.ttype, readVal, List.cons_append, List.append_assoc]
      rw [readMapBegin_enc e kt vt _ hl _ (by have := pairs_length_le e kvs kt vt hx; simp only [List.length_append]; omega)]
      simp [readPairs_enc e kt vt kvs hx f hf r]
theorem readFields_enc (e : Endian) (fs : TFields) (hw : fs.wt = true) (f : Nat) (hf : fs.size ≤ f) (r : Bytes) :
    readFields e f (encFields e fs ++ r) = .ok (fs, r) := by
  cases f with
  | zero => cases fs <;> simp [TFields.size] at hf
  | succ f =>
    cases fs with
    | nil => simp [encFields, readFields, readFieldBegin, readTType, readByte, TType.ofByte]
    | cons id v rest =>
      simp [TFields.wt] at hw; simp [TFields.size] at hf
      obtain ⟨⟨hid, hv⟩, hr⟩ := hw
      have hns : v.ttype ≠ .stop := ttype_isValue_ne_stop _ (val_ttype_isValue v)
      simp only [encFields, readFields, readFieldBegin, List.cons_append, List.append_assoc, readTType_cons, hns, if_false]
      rw [readI_i e 2 (by decide) id hid]
      simp only [hns, if_false]
      rw [readVal_enc e v hv f (by omega)]; dsimp only
      rw [readFields_enc e rest hr f (by omega)]
theorem readN_enc (e : Endian) (et : TType) (xs : TVals) (hw : xs.wt et = true) (f : Nat) (hf : xs.size ≤ f) (r : Bytes) :
    readN e f et xs.length (encVals e xs ++ r) = .ok (xs, r) := by
  cases f with
  | zero => cases xs <;> simp [TVals.size] at hf
  | succ f =>
    cases xs with
    | nil => simp [encVals, readN, TVals.length]
    | cons v vs =>
      simp [TVals.wt] at hw; simp [TVals.size] at hf
      obtain ⟨⟨ht, hv⟩, hr⟩ := hw
      simp only [encVals, TVals.length, readN, List.append_assoc]
      rw [← ht, readVal_enc e v hv f (by omega)]; dsimp only
      rw [ht, readN_enc e et vs hr f (by omega)]
theorem readPairs_enc (e : Endian) (kt vt : TType) (kvs : TPairs) (hw : kvs.wt kt vt = true) (f : Nat) (hf : kvs.size ≤ f) (r : Bytes) :
    readPairs e f kt vt kvs.length (encPairs e kvs ++ r) = .ok (kvs, r) := by
  cases f with
  | zero => cases kvs <;> simp [TPairs.size] at hf
  | succ f =>
    cases kvs with
    | nil => simp [encPairs, readPairs, TPairs.length]
    | cons k v rest =>
      simp [TPairs.wt] at hw; simp [TPairs.size] at hf
      obtain ⟨⟨⟨⟨hk, hv⟩, hkw⟩, hvw⟩, hr⟩ := hw
      simp only [encPairs, TPairs.length, readPairs, List.append_assoc]
      rw [← hk, readVal_enc e k hkw f (by omega)]; dsimp only
      rw [← hv, readVal_enc e v hvw f (by omega)]; dsimp only
      rw [hk, hv, readPairs_enc e kt vt rest hr f (by omega)]
end

end Pilota.Thrift.Binary
