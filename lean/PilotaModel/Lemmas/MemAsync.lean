import PilotaModel.TGen.Mem
namespace Pilota.TGen
open Pilota Pilota.Thrift

theorem ofOut_err_zero {α} (o : Out α) (l : Nat) (h : OutL.ofOut o = .err l) : l = 0 := by
  cases o <;> simp [OutL.ofOut] at h; exact h.symm

variable {σ : Type} (R : Rd σ) (d : Doc)

/-- with the push-based (asynchronous) list arm nothing is ever left unreachable. -/
theorem no_leak_async_all : ∀ f : Nat,
    (∀ ty s l, decTyL R d false f ty s = .err l → l = 0) ∧
    (∀ e n acc t s l, decNL R d false f e n acc t s = .err l → l = 0) ∧
    (∀ e n acc t s l, decNS R d false f e n acc t s = .err l → l = 0) ∧
    (∀ k v n acc t s l, decPairsL R d false f k v n acc t s = .err l → l = 0) ∧
    (∀ fs slots s l, decFieldsL R d false f fs slots s = .err l → l = 0) ∧
    (∀ vs ret s l, decUnionL R d false f vs ret s = .err l → l = 0) := by
  intro f
  induction f with
  | zero =>
    refine ⟨?_, ?_, ?_, ?_, ?_, ?_⟩ <;> intros <;> simp_all [decTyL, decNL, decNS, decPairsL, decFieldsL, decUnionL]
  | succ f ih =>
    obtain ⟨ihT, ihN, ihS, ihP, ihF, ihU⟩ := ih
    refine ⟨?_, ?_, ?_, ?_, ?_, ?_⟩
    · intro ty s l h
      cases ty with
      | list e =>
        simp only [decTyL] at h
        split at h
        · split at h
          · cases h
          · rename_i hx; cases h; exact ihN _ _ _ _ _ _ hx
          · cases h
          · cases h
        · exact ofOut_err_zero _ _ h
      | set e =>
        simp only [decTyL] at h
        split at h
        · split at h
          · cases h
          · rename_i hx; cases h; exact ihS _ _ _ _ _ _ hx
          · cases h
          · cases h
        · exact ofOut_err_zero _ _ h
      | map k v =>
        simp only [decTyL] at h
        split at h
        · split at h
          · cases h
          · rename_i hx; cases h; exact ihP _ _ _ _ _ _ _ hx
          · cases h
          · cases h
        · exact ofOut_err_zero _ _ h
      | ref n =>
        simp only [decTyL] at h
        split at h
        · split at h
          · split at h
            · split at h
              · cases h
              · cases h; rfl
            · cases h; rfl
          · rename_i hx; cases h; exact ihF _ _ _ _ hx
          · cases h
          · cases h
        · split at h
          · split at h
            · split at h
              · cases h
              · split at h
                · cases h
                · cases h; rfl
            · cases h; rfl
          · rename_i hx; cases h; exact ihU _ _ _ _ hx
          · cases h
          · cases h
        · exact ofOut_err_zero _ _ h
        · exact ihT _ _ _ h
        · cases h
      | binary =>
        simp only [decTyL] at h
        split at h
        · cases h
        · exact ofOut_err_zero _ _ h
      | _ => simp only [decTyL] at h; exact ofOut_err_zero _ _ h
    · intro e n acc t s l h
      cases n with
      | zero => simp only [decNL] at h; cases h
      | succ n =>
        simp only [decNL] at h
        split at h
        · exact ihN _ _ _ _ _ _ h
        · rename_i hx; have := ihT _ _ _ hx; simp at h; omega
        · cases h
        · cases h
    · intro e n acc t s l h
      cases n with
      | zero => simp only [decNS] at h; cases h
      | succ n =>
        simp only [decNS] at h
        split at h
        · exact ihS _ _ _ _ _ _ h
        · rename_i hx; cases h; exact ihT _ _ _ hx
        · cases h
        · cases h
    · intro k v n acc t s l h
      cases n with
      | zero => simp only [decPairsL] at h; cases h
      | succ n =>
        simp only [decPairsL] at h
        split at h
        · split at h
          · exact ihP _ _ _ _ _ _ _ h
          · rename_i hx; cases h; exact ihT _ _ _ hx
          · cases h
          · cases h
        · rename_i hx; cases h; exact ihT _ _ _ hx
        · cases h
        · cases h
    · intro fs slots s l h
      simp only [decFieldsL] at h
      split at h
      · split at h
        · cases h
        · split at h
          · split at h
            · exact ihF _ _ _ _ h
            · rename_i hx; cases h; exact ihT _ _ _ hx
            · cases h
            · cases h
          · split at h
            · exact ihF _ _ _ _ h
            · exact ofOut_err_zero _ _ h
      · exact ofOut_err_zero _ _ h
    · intro vs ret s l h
      simp only [decUnionL] at h
      split at h
      · split at h
        · cases h
        · split at h
          · split at h
            · cases h; rfl
            · split at h
              · exact ihU _ _ _ _ h
              · rename_i hx; cases h; exact ihT _ _ _ hx
              · cases h
              · cases h
          · split at h
            · exact ihU _ _ _ _ h
            · exact ofOut_err_zero _ _ h
      · exact ofOut_err_zero _ _ h

end Pilota.TGen
