import PilotaModel.Lemmas.GenTotal
import PilotaModel.Lemmas.SkipExt
/-
  The checked binary / LE readers and the compact reader satisfy `Rd.Safe` (measure: the bytes left, resp.
  3 · bytes left + one unit for a bool carried by a field header).
-/
namespace Pilota.TGen
open Pilota Pilota.Thrift

theorem primOk_mapOut_bin {α β : Type} (p : Bytes → Out (α × Bytes)) (g : α × Bytes → β × Bytes)
    (hg : ∀ x, (g x).2 = x.2)
    (hnp : ∀ bs m, p bs ≠ .panic m) (hnf : ∀ bs, p bs ≠ .fuel)
    (hlen : ∀ bs a r, p bs = .ok (a, r) → r.length + 1 ≤ bs.length) :
    PrimOk (σ := Bytes) List.length 1 (fun bs => mapOut g (p bs)) := by
  intro bs
  refine ⟨fun m => by rw [Ne, mapOut_eq_panic]; exact hnp bs m, by rw [Ne, mapOut_eq_fuel]; exact hnf bs, ?_⟩
  intro a s' h
  rw [mapOut_eq_ok] at h
  obtain ⟨⟨a0, r⟩, hp, hga⟩ := h
  have := hlen bs a0 r hp
  have h2 := hg (a0, r)
  rw [hga] at h2
  simp at h2
  subst h2
  exact this

theorem primOk_bin {α : Type} (p : Bytes → Out (α × Bytes))
    (hnp : ∀ bs m, p bs ≠ .panic m) (hnf : ∀ bs, p bs ≠ .fuel)
    (hlen : ∀ bs a r, p bs = .ok (a, r) → r.length + 1 ≤ bs.length) :
    PrimOk (σ := Bytes) List.length 1 p := by
  intro bs
  exact ⟨hnp bs, hnf bs, fun a s' h => hlen bs a s' h⟩

/-- the checked binary / little-endian reader with the recursive skipper at depth budget `dpt` -/
theorem binRd_safe (e : Endian) (dpt : Nat) : (binRd e (some dpt)).Safe List.length 1 where
  sb _ := Nat.le_refl _
  se s := ⟨fun m => by simp [binRd], by simp [binRd], fun s' h => by simp [binRd] at h; subst h; exact Nat.le_refl _⟩
  fb := primOk_bin _ (Binary.readFieldBegin_ne_panic e) (Binary.readFieldBegin_ne_fuel e)
    (fun bs a r h => by have := Binary.readFieldBegin_len h; omega)
  bool := primOk_mapOut_bin (Binary.readI e 1) _ (fun _ => rfl) (Binary.readI_ne_panic e 1) (Binary.readI_ne_fuel e 1)
    (fun bs a r h => by have := Binary.readI_len h; omega)
  i8 := primOk_bin _ (Binary.readI_ne_panic e 1) (Binary.readI_ne_fuel e 1) (fun bs a r h => by have := Binary.readI_len h; omega)
  i16 := primOk_bin _ (Binary.readI_ne_panic e 2) (Binary.readI_ne_fuel e 2) (fun bs a r h => by have := Binary.readI_len h; omega)
  i32 := primOk_bin _ (Binary.readI_ne_panic e 4) (Binary.readI_ne_fuel e 4) (fun bs a r h => by have := Binary.readI_len h; omega)
  i64 := primOk_bin _ (Binary.readI_ne_panic e 8) (Binary.readI_ne_fuel e 8) (fun bs a r h => by have := Binary.readI_len h; omega)
  double := primOk_bin _ (Binary.readU_ne_panic e 8) (Binary.readU_ne_fuel e 8) (fun bs a r h => by have := Binary.readU_len h; omega)
  bytes := primOk_bin _ (Binary.readBytes_ne_panic e) (Binary.readBytes_ne_fuel e) (fun bs a r h => by have := Binary.readBytes_len h; omega)
  uuid := primOk_bin _ (Binary.takeN_ne_panic 16) (Binary.takeN_ne_fuel 16) (fun bs a r h => by have := Binary.takeN_len h; omega)
  lb := primOk_bin _ (Binary.readListBegin_ne_panic e) (Binary.readListBegin_ne_fuel e) (fun bs a r h => by have := Binary.readListBegin_len h; omega)
  mb := primOk_bin _ (Binary.readMapBegin_ne_panic e) (Binary.readMapBegin_ne_fuel e) (fun bs a r h => by have := Binary.readMapBegin_len h; omega)
  skip t bs := by
    refine ⟨fun m => ?_, ?_, fun s' h => ?_⟩
    · simp only [binRd, Ne, mapOut_eq_panic]
      exact (Skip.skipVal_nopanic e _).1 (dpt : Int) t bs m (by omega)
    · simp only [binRd, Ne, mapOut_eq_fuel]
      exact (Skip.skipVal_nofuel e _).1 (dpt : Int) t bs (by omega)
    · simp only [binRd, mapOut_eq_ok] at h
      obtain ⟨⟨k, r⟩, hk, hr⟩ := h
      simp at hr; subst hr
      have := (Skip.skipVal_count e (3 * bs.length + 3)).1 (dpt : Int) t bs k r hk
      show r.length ≤ bs.length
      omega

def cmpM (s : Compact.CR × Bytes) : Nat := 3 * s.2.length + Compact.mu s.1

theorem primOk_cmp {α : Type} (p : Bytes → Out (α × Bytes))
    (hnp : ∀ bs m, p bs ≠ .panic m) (hnf : ∀ bs, p bs ≠ .fuel)
    (hlen : ∀ bs a r, p bs = .ok (a, r) → r.length + 1 ≤ bs.length) :
    PrimOk cmpM 1 (fun s : Compact.CR × Bytes => mapOut (fun x => (x.1, s.1, x.2)) (p s.2)) := by
  intro s
  refine ⟨fun m => by rw [Ne, mapOut_eq_panic]; exact hnp _ m, by rw [Ne, mapOut_eq_fuel]; exact hnf _, ?_⟩
  intro a s' h
  rw [mapOut_eq_ok] at h
  obtain ⟨⟨a0, r⟩, hp, hga⟩ := h
  have := hlen _ a0 r hp
  simp at hga
  obtain ⟨_, hs'⟩ := hga
  subst hs'
  simp only [cmpM]
  omega

theorem cmpRd_safe : cmpRd.Safe cmpM 1 where
  sb s := by simp [cmpRd, cmpM]
  se s := by
    refine ⟨fun m => ?_, ?_, fun s' h => ?_⟩
    · simp only [cmpRd, Ne, mapOut_eq_panic]; exact Compact.readStructEnd_ne_panic _ _
    · simp only [cmpRd, Ne, mapOut_eq_fuel]; exact Compact.readStructEnd_ne_fuel _
    · simp only [cmpRd, mapOut_eq_ok] at h
      obtain ⟨c, hc, hs'⟩ := h
      subst hs'
      have := Compact.readStructEnd_mu hc
      simp only [cmpM]; omega
  fb s := by
    refine ⟨fun m => ?_, ?_, fun a s' h => ?_⟩
    · simp only [cmpRd, Ne, mapOut_eq_panic]; exact Compact.readFieldBegin_ne_panic _ _ _
    · simp only [cmpRd, Ne, mapOut_eq_fuel]; exact Compact.readFieldBegin_ne_fuel _ _
    · simp only [cmpRd, mapOut_eq_ok] at h
      obtain ⟨⟨x, c, r⟩, hc, hs'⟩ := h
      simp at hs'
      obtain ⟨_, hs'⟩ := hs'
      subst hs'
      have := Compact.readFieldBegin_len hc
      have := Compact.mu_le c
      simp only [cmpM]; omega
  bool s := by
    refine ⟨fun m => ?_, ?_, fun a s' h => ?_⟩
    · simp only [cmpRd, Ne, mapOut_eq_panic]; exact Compact.readBool_ne_panic _ _ _
    · simp only [cmpRd, Ne, mapOut_eq_fuel]; exact Compact.readBool_ne_fuel _ _
    · simp only [cmpRd, mapOut_eq_ok] at h
      obtain ⟨⟨x, c, r⟩, hc, hs'⟩ := h
      simp at hs'
      obtain ⟨_, hs'⟩ := hs'
      subst hs'
      have := Compact.readBool_len hc
      simp only [cmpM]; omega
  i8 := primOk_cmp _ (Binary.readI_ne_panic .be 1) (Binary.readI_ne_fuel .be 1) (fun bs a r h => by have := Binary.readI_len h; omega)
  i16 := primOk_cmp _ (readVarS_ne_panic 2) (readVarS_ne_fuel 2) (fun bs a r h => by have := readVarS_len h; omega)
  i32 := primOk_cmp _ (readVarS_ne_panic 4) (readVarS_ne_fuel 4) (fun bs a r h => by have := readVarS_len h; omega)
  i64 := primOk_cmp _ (readVarS_ne_panic 8) (readVarS_ne_fuel 8) (fun bs a r h => by have := readVarS_len h; omega)
  double := primOk_cmp _ (Binary.readU_ne_panic .le 8) (Binary.readU_ne_fuel .le 8) (fun bs a r h => by have := Binary.readU_len h; omega)
  bytes := primOk_cmp _ Compact.readBytes_ne_panic Compact.readBytes_ne_fuel (fun bs a r h => by have := Compact.readBytes_len h; omega)
  uuid := primOk_cmp _ (Binary.takeN_ne_panic 16) (Binary.takeN_ne_fuel 16) (fun bs a r h => by have := Binary.takeN_len h; omega)
  lb := primOk_cmp _ Compact.readCollBegin_ne_panic Compact.readCollBegin_ne_fuel (fun bs a r h => by have := Compact.readCollBegin_len h; omega)
  mb := primOk_cmp _ Compact.readMapBegin_ne_panic Compact.readMapBegin_ne_fuel (fun bs a r h => by have := Compact.readMapBegin_len h; omega)
  skip t s := by
    have hnp := (Skip.rdSkip_nopanic _ _ Skip.compactPrims_good (3 * s.2.length + 3)).1 (skipDepth : Int) t s.1 s.2
    have hnf := (Skip.rdSkip_nofuel _ _ Skip.compactPrims_good (3 * s.2.length + 3)).1 (skipDepth : Int) t s.1 s.2
      (by have := Compact.mu_le s.1; omega)
    have hlen := (Skip.rdSkip_len _ _ Skip.compactPrims_good (3 * s.2.length + 3)).1 (skipDepth : Int) t s.1 s.2
    refine ⟨fun m => ?_, ?_, fun s' h => ?_⟩
    · simp only [cmpRd, Ne, mapOut_eq_panic, Skip.cskip, Skip.cskipVal]
      intro h; split at h <;> simp_all [skipDepth]
    · simp only [cmpRd, Ne, mapOut_eq_fuel, Skip.cskip, Skip.cskipVal]
      intro h; split at h <;> simp_all
    · simp only [cmpRd, mapOut_eq_ok, Skip.cskip, Skip.cskipVal] at h
      obtain ⟨⟨k, c, r⟩, hc, hs'⟩ := h
      subst hs'
      split at hc <;> simp at hc
      rename_i c' r' heq
      obtain ⟨_, hc1, hc2⟩ := hc
      subst hc1 hc2
      have := hlen _ _ heq
      simp only [cmpM]; omega

end Pilota.TGen
