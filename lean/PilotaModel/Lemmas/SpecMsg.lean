import PilotaModel.Lemmas.SpecBin
import PilotaModel.Lemmas.SpecCmpRV
import PilotaModel.Thrift.Msg
/-  Message envelopes and the TApplicationException struct against the reference. -/
namespace Pilota.Thrift.Msg
open Pilota Pilota.Thrift Pilota.Thrift.Spec

theorem mt_cases (mt : Nat) (h : 1 ≤ mt ∧ mt ≤ 4) : mt = 1 ∨ mt = 2 ∨ mt = 3 ∨ mt = 4 := by omega

/-- strict binary envelope: pilota writes exactly the reference bytes. -/
theorem write_bin (name : Bytes) (mt : Nat) (seq : Int) (hm : 1 ≤ mt ∧ mt ≤ 4) (hn : name.length < 2 ^ 31) (hs : inS 4 seq) :
    Binary.wOp .be (.msgBegin name mt seq) = SpecBin.message name mt seq := by
  simp only [Binary.wOp, SpecBin.message, be_len _ hn, be_twos 4 seq hs, be_eq]
  rcases mt_cases mt hm with rfl | rfl | rfl | rfl <;> rfl

theorem readI_be4 (n : Nat) (r : Bytes) : Binary.readI .be 4 (natToBE 4 n ++ r) = .ok (toS 4 (n % 256 ^ 4), r) := by
  have := Binary.readU_enc .be 4 n r
  simp only [encFixed] at this
  simp [Binary.readI, this]

/-- …and pilota reads the reference bytes back to (name, type, seqid). -/
theorem read_bin (name : Bytes) (mt : Nat) (seq : Int) (hm : 1 ≤ mt ∧ mt ≤ 4) (hn : name.length < 2 ^ 31) (hs : inS 4 seq)
    (r : Bytes) : readBeginBin .be (SpecBin.message name mt seq ++ r) = .ok ((name, mt, seq), r) := by
  unfold readBeginBin SpecBin.message
  simp only [be_eq, List.append_assoc, readI_be4]
  have hb := Binary.readBytes_enc .be name (natToBE 4 (twos 4 seq) ++ r) hn
  rw [← be_len _ hn, be_eq] at hb
  have hq : Binary.readI .be 4 (natToBE 4 (twos 4 seq) ++ r) = .ok (seq, r) := by
    have := Binary.readI_i .be 4 (by decide) seq hs r
    rw [← be_twos 4 seq hs, be_eq] at this; exact this
  rcases mt_cases mt hm with rfl | rfl | rfl | rfl <;>
    simp (config := { decide := true }) [version, hb, hq, toS, toU]

theorem uleb_len (n : Nat) (hn : n < 2 ^ 31) : encVar (n % 2 ^ 32) = uleb n := by
  rw [SpecCmp.len_mod n hn]

/-- compact envelope: pilota writes exactly the reference bytes. -/
theorem write_cmp (s : Compact.CW) (name : Bytes) (mt : Nat) (seq : Int) (hm : 1 ≤ mt ∧ mt ≤ 4) (hn : name.length < 2 ^ 31)
    (hs : inS 4 seq) : Compact.wStep s (.msgBegin name mt seq) = .ok (s, SpecCmp.message name mt seq) := by
  simp only [Compact.wStep, SpecCmp.message, uleb_len _ hn, twos_eq 4 seq hs]
  rcases mt_cases mt hm with rfl | rfl | rfl | rfl <;> rfl

theorem read_cmp (name : Bytes) (mt : Nat) (seq : Int) (hm : 1 ≤ mt ∧ mt ≤ 4) (hn : name.length < 2 ^ 31) (hs : inS 4 seq)
    (r : Bytes) : readBeginCmp (SpecCmp.message name mt seq ++ r) = .ok ((name, mt, seq), r) := by
  unfold readBeginCmp SpecCmp.message
  have hq : readVarU 4 (uleb (twos 4 seq) ++ (uleb name.length ++ name ++ r)) = .ok (twos 4 seq, uleb name.length ++ name ++ r) := by
    apply readVarU4_encVar
    rw [twos_eq 4 seq hs]
    have := toU_lt 4 seq
    have e : (256:Nat) ^ 4 = 2 ^ 32 := by decide
    omega
  have hb : Compact.readBytes (uleb name.length ++ name ++ r) = .ok (name, r) := by
    have := SpecCmp.readBytes_of name r hn
    simpa [List.append_assoc] using this
  have hseq : toS 4 (twos 4 seq) = seq := by rw [twos_eq 4 seq hs]; exact toS_toU 4 (by decide) seq hs
  rcases mt_cases mt hm with rfl | rfl | rfl | rfl <;>
    simp [Compact.readByte, Binary.readByte, List.append_assoc] <;>
    simp [List.append_assoc] at hq hb <;> simp [hq, hb, hseq]

/-! ### TApplicationException -/

theorem appOps_eq (msg : Bytes) (kind : Int) : appOps msg kind = (appVal msg kind).ops := rfl

theorem appVal_wt (msg : Bytes) (kind : Int) (hm : msg.length < 2 ^ 31) (hk : inS 4 kind) : (appVal msg kind).wt = true := by
  simp [appVal, TVal.wt, TFields.wt, hm, hk]; decide

/-- `decode` reads every legal binary encoding of the exception struct back. -/
theorem appDecode_bin (msg : Bytes) (kind : Int) (bs : Bytes) (h : SpecBin.Enc (appVal msg kind) bs) (f : Nat) (hf : 3 ≤ f)
    (d : Bytes × Int) (r : Bytes) : appDecodeBin .be f d (bs ++ r) = .ok ((msg, kind), r) := by
  unfold appVal at h
  cases h with
  | struct _ _ hfs =>
  cases hfs with
  | cons _ _ _ c1 a1 b1 hid1 hc1 hv1 hr1 =>
  cases hr1 with
  | cons _ _ _ c2 a2 b2 hid2 hc2 hv2 hr2 =>
  cases hr2 with
  | nil =>
  cases hv1 with
  | bin _ hm =>
  cases hv2 with
  | i32 _ hk =>
  simp only [TVal.ttype, binCode, Option.some.injEq] at hc1 hc2
  subst hc1; subst hc2
  obtain ⟨f1, rfl⟩ : ∃ f1, f = f1 + 3 := ⟨f - 3, by omega⟩
  obtain ⟨m0, k0⟩ := d
  have e1 : be 2 (twos 2 1) = Binary.i .be 2 1 := be_twos 2 1 (by decide)
  have e2 : be 2 (twos 2 2) = Binary.i .be 2 2 := be_twos 2 2 (by decide)
  have hfb1 : ∀ rest : Bytes, Binary.readFieldBegin .be (UInt8.ofNat 11 :: (Binary.i .be 2 1 ++ rest)) = .ok ((.binary, 1), rest) := by
    intro rest
    simp [Binary.readFieldBegin, Binary.readTType, Binary.readByte, TType.ofByte, Binary.readI_i .be 2 (by decide) 1 (by decide)]
  have hfb2 : ∀ rest : Bytes, Binary.readFieldBegin .be (UInt8.ofNat 8 :: (Binary.i .be 2 2 ++ rest)) = .ok ((.i32, 2), rest) := by
    intro rest
    simp [Binary.readFieldBegin, Binary.readTType, Binary.readByte, TType.ofByte, Binary.readI_i .be 2 (by decide) 2 (by decide)]
  have hstop : ∀ rest : Bytes, Binary.readFieldBegin .be ((0 : UInt8) :: rest) = .ok ((.stop, 0), rest) := by
    intro rest; simp [Binary.readFieldBegin, Binary.readTType, Binary.readByte, TType.ofByte]
  simp only [List.cons_append, List.append_assoc, e1, e2, be_len _ hm, be_twos 4 kind hk]
  simp only [appDecodeBin, hfb1, hfb2, hstop, Binary.readBytes_enc .be msg _ hm, Binary.readI_i .be 4 (by decide) kind hk]
  simp

theorem cmpCode_bin : cmpCode TType.binary = some 8 := rfl
theorem cmpCode_i32 : cmpCode TType.i32 = some 5 := rfl

/-- …and every legal compact encoding (short or long field headers), restoring the reader's field-id context. -/
theorem appDecode_cmp (msg : Bytes) (kind : Int) (bs : Bytes) (h : SpecCmp.Enc (appVal msg kind) bs) (f : Nat) (hf : 3 ≤ f)
    (s : Compact.CR) (hs : s.pendingBool = none) (r : Bytes) : appDecodeCmp f s (bs ++ r) = .ok ((msg, kind), s, r) := by
  unfold appVal at h
  cases h with
  | struct _ _ hfs =>
  cases hfs with
  | cons _ _ _ _ c1 hd1 a1 b1 hid1 hc1 hh1 hv1 hr1 =>
  cases hr1 with
  | cons _ _ _ _ c2 hd2 a2 b2 hid2 hc2 hh2 hv2 hr2 =>
  cases hr2 with
  | nil =>
  cases hv1 with
  | bin _ hm =>
  cases hv2 with
  | i32 _ hk =>
  simp only [TVal.ttype, cmpCode, Option.some.injEq] at hc1 hc2
  subst hc1; subst hc2
  obtain ⟨f1, rfl⟩ : ∃ f1, f = f1 + 3 := ⟨f - 3, by omega⟩
  have t1 : Compact.ttypeOfCompact 8 = some TType.binary := rfl
  have t2 : Compact.ttypeOfCompact 5 = some TType.i32 := rfl
  unfold appDecodeCmp
  simp only [List.append_assoc]
  simp only [appDecodeCmpLoop]
  rw [SpecCmp.readFieldBegin_of_hdr (Compact.readStructBegin s) 8 .binary (by decide) t1 1 hid1 hd1 (by simpa [Compact.readStructBegin] using hh1)]
  simp only [show (TType.binary = TType.stop) = False by simp, if_false, if_true]
  rw [SpecCmp.readBytes_of msg _ hm]
  simp only
  rw [SpecCmp.readFieldBegin_of_hdr _ 5 .i32 (by decide) t2 2 hid2 hd2 (by simpa using hh2)]
  simp only [show (TType.i32 = TType.stop) = False by simp, show ((2 : Int) = 1) = False by simp, if_false, if_true]
  rw [readVarS_zigzag 4 (Or.inr (Or.inl rfl)) kind hk]
  simp only [List.cons_append, List.nil_append, Compact.readFieldBegin_stop]
  cases s
  simp_all [Compact.readStructBegin, Compact.readStructEnd]
  all_goals (first | rfl | decide)

end Pilota.Thrift.Msg
