import PilotaModel.TGen.AsyncC
import PilotaModel.Lemmas.AsyncCmpSkipSim
import PilotaModel.Lemmas.AsyncGen
/-
  Emitted `decode_async` on the compact async protocol returns what the emitted in-memory `decode` returns, in the same
  reader state and at the same place, whenever the latter succeeds — on arbitrary bytes, for every document and type.
-/
namespace Pilota.TGen
open Pilota Pilota.Thrift Pilota.Thrift.Async Pilota.Thrift.Async.ACmp Pilota.Thrift.Compact

variable (d : Doc) (sf : Nat)

theorem cleaf {α} (g : α → TVal) (cr : CR) (x : Out (α × Bytes)) (v : TVal) (cr' : CR) (r : Bytes)
    (h : mapOut (fun y : α × CR × Bytes => (g y.1, y.2)) (mapOut (fun y : α × Bytes => (y.1, cr, y.2)) x) = .ok (v, (cr', r))) :
    ∃ a, x = .ok (a, r) ∧ v = g a ∧ cr' = cr := by
  cases x with
  | ok p => obtain ⟨a, r'⟩ := p; simp only [mapOut, Out.ok.injEq, Prod.mk.injEq] at h; obtain ⟨rfl, rfl, rfl⟩ := h; exact ⟨a, rfl, rfl, rfl⟩
  | err k => cases h
  | panic m => cases h
  | fuel => cases h

theorem cskip_of_cmpRd (t : TType) (cr : CR) (bs : Bytes) (cr' : CR) (r : Bytes) (hsf : 3 * bs.length + 3 ≤ sf)
    (h : cmpRd.skip t (cr, bs) = .ok (cr', r)) : runF (skip sf skipDepth t cr) bs = .ok (cr', r) := by
  have hq : cmpRd.skip t (cr, bs) = mapOut (fun x => (x.2.1, x.2.2)) (Skip.cskip (skipDepth : Int) t cr bs) := rfl
  rw [hq] at h
  obtain ⟨⟨k, s1, r1⟩, h1, h2⟩ := mapOut_ok _ _ _ h
  simp only [Prod.mk.injEq] at h2
  obtain ⟨rfl, rfl⟩ := h2
  simp only [Skip.cskip, Skip.cskipVal] at h1
  cases hx : Skip.rdSkip Skip.compactPrims (3 * bs.length + 3) (skipDepth : Int) t cr bs with
  | ok q =>
    obtain ⟨s2, r2⟩ := q
    rw [hx] at h1
    simp only [Out.ok.injEq, Prod.mk.injEq] at h1
    obtain ⟨_, rfl, rfl⟩ := h1
    exact (acskip_sim _).1 sf skipDepth t cr bs _ _ hsf hx
  | err k => rw [hx] at h1; cases h1
  | panic m => rw [hx] at h1; cases h1
  | fuel => rw [hx] at h1; cases h1

theorem adecC_sim : ∀ f : Nat,
    (∀ ty cr bs v cr' r, 3 * bs.length + 3 ≤ sf → decTy cmpRd d f ty (cr, bs) = .ok (v, (cr', r)) →
      runF (adecTyC d sf f ty cr) bs = .ok ((v, cr'), r)) ∧
    (∀ el n acc cr bs xs cr' r, 3 * bs.length + 3 ≤ sf → decN cmpRd d f el n acc (cr, bs) = .ok (xs, (cr', r)) →
      runF (adecNC d sf f el n acc cr) bs = .ok ((xs, cr'), r)) ∧
    (∀ k v n acc cr bs xs cr' r, 3 * bs.length + 3 ≤ sf → decPairs cmpRd d f k v n acc (cr, bs) = .ok (xs, (cr', r)) →
      runF (adecPairsC d sf f k v n acc cr) bs = .ok ((xs, cr'), r)) ∧
    (∀ fs slots cr bs out cr' r, 3 * bs.length + 3 ≤ sf → decFields cmpRd d f fs slots (cr, bs) = .ok (out, (cr', r)) →
      runF (adecFieldsC d sf f fs slots cr) bs = .ok ((out, cr'), r)) ∧
    (∀ vs ret cr bs out cr' r, 3 * bs.length + 3 ≤ sf → decUnion cmpRd d f vs ret (cr, bs) = .ok (out, (cr', r)) →
      runF (adecUnionC d sf f vs ret cr) bs = .ok ((out, cr'), r)) := by
  intro f
  induction f with
  | zero =>
    refine ⟨?_, ?_, ?_, ?_, ?_⟩ <;> intros <;> simp_all [decTy, decN, decPairs, decFields, decUnion]
  | succ f ih =>
    obtain ⟨ihT, ihN, ihP, ihF, ihU⟩ := ih
    refine ⟨?_, ?_, ?_, ?_, ?_⟩
    · intro ty cr bs v cr' r hsf h
      cases ty with
      | bool =>
        simp only [decTy] at h
        have hq : cmpRd.readBool (cr, bs) = mapOut (fun x => (x.1, x.2.1, x.2.2)) (Compact.readBool cr bs) := rfl
        rw [hq] at h
        simp only [adecTyC, runF_bind, runF_readBool]
        cases hx : Compact.readBool cr bs with
        | ok p => obtain ⟨b, s1, r1⟩ := p; rw [hx] at h; simp only [mapOut, Out.ok.injEq, Prod.mk.injEq] at h; obtain ⟨rfl, rfl, rfl⟩ := h; simp [pack, bindP]
        | err k => rw [hx] at h; cases h
        | panic m => rw [hx] at h; cases h
        | fuel => rw [hx] at h; cases h
      | i8 =>
        simp only [decTy] at h
        have hq : cmpRd.readI8 (cr, bs) = mapOut (fun x => (x.1, cr, x.2)) (Binary.readI .be 1 bs) := rfl
        rw [hq] at h
        obtain ⟨a, ha, rfl, rfl⟩ := cleaf TVal.i8 cr _ v cr' r h
        simp [adecTyC, runF_bind, ABin.runF_readI, ha, bindP]
      | i16 =>
        simp only [decTy] at h
        have hq : cmpRd.readI16 (cr, bs) = mapOut (fun x => (x.1, cr, x.2)) (Pilota.readVarS 2 bs) := rfl
        rw [hq] at h
        obtain ⟨a, ha, rfl, rfl⟩ := cleaf TVal.i16 cr _ v cr' r h
        simp [adecTyC, runF_bind, runF_readVarS, ha, bindP]
      | i32 =>
        simp only [decTy] at h
        have hq : cmpRd.readI32 (cr, bs) = mapOut (fun x => (x.1, cr, x.2)) (Pilota.readVarS 4 bs) := rfl
        rw [hq] at h
        obtain ⟨a, ha, rfl, rfl⟩ := cleaf TVal.i32 cr _ v cr' r h
        simp [adecTyC, runF_bind, runF_readVarS, ha, bindP]
      | i64 =>
        simp only [decTy] at h
        have hq : cmpRd.readI64 (cr, bs) = mapOut (fun x => (x.1, cr, x.2)) (Pilota.readVarS 8 bs) := rfl
        rw [hq] at h
        obtain ⟨a, ha, rfl, rfl⟩ := cleaf TVal.i64 cr _ v cr' r h
        simp [adecTyC, runF_bind, runF_readVarS, ha, bindP]
      | double =>
        simp only [decTy] at h
        have hq : cmpRd.readDouble (cr, bs) = mapOut (fun x => (x.1, cr, x.2)) (Binary.readU .le 8 bs) := rfl
        rw [hq] at h
        obtain ⟨a, ha, rfl, rfl⟩ := cleaf TVal.dbl cr _ v cr' r h
        simp [adecTyC, runF_bind, ABin.runF_readU, ha, bindP]
      | string =>
        simp only [decTy] at h
        have hq : cmpRd.readBytes (cr, bs) = mapOut (fun x => (x.1, cr, x.2)) (Compact.readBytes bs) := rfl
        rw [hq] at h
        obtain ⟨a, ha, rfl, rfl⟩ := cleaf TVal.bin cr _ v cr' r h
        simp [adecTyC, runF_bind, runF_readBytes, ha, bindP]
      | binary =>
        simp only [decTy] at h
        have hq : cmpRd.readBytes (cr, bs) = mapOut (fun x => (x.1, cr, x.2)) (Compact.readBytes bs) := rfl
        rw [hq] at h
        obtain ⟨a, ha, rfl, rfl⟩ := cleaf TVal.bin cr _ v cr' r h
        simp [adecTyC, runF_bind, runF_readBytes, ha, bindP]
      | uuid =>
        simp only [decTy] at h
        have hq : cmpRd.readUuid (cr, bs) = mapOut (fun x => (x.1, cr, x.2)) (Binary.takeN 16 bs) := rfl
        rw [hq] at h
        obtain ⟨a, ha, rfl, rfl⟩ := cleaf TVal.uuid cr _ v cr' r h
        simp [adecTyC, runF, ha]
      | void => simp [decTy] at h
      | list el =>
        simp only [decTy] at h
        have hq : cmpRd.listBegin (cr, bs) = mapOut (fun x => (x.1, cr, x.2)) (Compact.readCollBegin bs) := rfl
        rw [hq] at h
        simp only [adecTyC]
        cases hx : Compact.readCollBegin bs with
        | ok p =>
          obtain ⟨⟨et, n⟩, r0⟩ := p
          rw [hx] at h
          simp only [mapOut] at h
          have ha := readCollBegin_of_sync bs _ hx
          have hle := runF_le _ bs _ r0 ha
          cases hy : decN cmpRd d f el n [] (cr, r0) with
          | ok q =>
            obtain ⟨xs, s1, r1⟩ := q
            rw [hy] at h
            simp only [Out.ok.injEq, Prod.mk.injEq] at h
            obtain ⟨rfl, rfl, rfl⟩ := h
            rw [runF_bind, ha]
            simp only [bindP]
            rw [runF_bind, ihN el n [] cr r0 xs _ _ (by omega) hy]
            rfl
          | err x => rw [hy] at h; cases h
          | panic m => rw [hy] at h; cases h
          | fuel => rw [hy] at h; cases h
        | err x => rw [hx] at h; cases h
        | panic m => rw [hx] at h; cases h
        | fuel => rw [hx] at h; cases h
      | set el =>
        simp only [decTy] at h
        have hq : cmpRd.listBegin (cr, bs) = mapOut (fun x => (x.1, cr, x.2)) (Compact.readCollBegin bs) := rfl
        rw [hq] at h
        simp only [adecTyC]
        cases hx : Compact.readCollBegin bs with
        | ok p =>
          obtain ⟨⟨et, n⟩, r0⟩ := p
          rw [hx] at h
          simp only [mapOut] at h
          have ha := readCollBegin_of_sync bs _ hx
          have hle := runF_le _ bs _ r0 ha
          cases hy : decN cmpRd d f el n [] (cr, r0) with
          | ok q =>
            obtain ⟨xs, s1, r1⟩ := q
            rw [hy] at h
            simp only [Out.ok.injEq, Prod.mk.injEq] at h
            obtain ⟨rfl, rfl, rfl⟩ := h
            rw [runF_bind, ha]
            simp only [bindP]
            rw [runF_bind, ihN el n [] cr r0 xs _ _ (by omega) hy]
            rfl
          | err x => rw [hy] at h; cases h
          | panic m => rw [hy] at h; cases h
          | fuel => rw [hy] at h; cases h
        | err x => rw [hx] at h; cases h
        | panic m => rw [hx] at h; cases h
        | fuel => rw [hx] at h; cases h
      | map k v' =>
        simp only [decTy] at h
        have hq : cmpRd.mapBegin (cr, bs) = mapOut (fun x => (x.1, cr, x.2)) (Compact.readMapBegin bs) := rfl
        rw [hq] at h
        simp only [adecTyC]
        cases hx : Compact.readMapBegin bs with
        | ok p =>
          obtain ⟨⟨kt, vt, n⟩, r0⟩ := p
          rw [hx] at h
          simp only [mapOut] at h
          have ha := readMapBegin_of_sync bs _ hx
          have hle := runF_le _ bs _ r0 ha
          cases hy : decPairs cmpRd d f k v' n [] (cr, r0) with
          | ok q =>
            obtain ⟨xs, s1, r1⟩ := q
            rw [hy] at h
            simp only [Out.ok.injEq, Prod.mk.injEq] at h
            obtain ⟨rfl, rfl, rfl⟩ := h
            rw [runF_bind, ha]
            simp only [bindP]
            rw [runF_bind, ihP k v' n [] cr r0 xs _ _ (by omega) hy]
            rfl
          | err x => rw [hy] at h; cases h
          | panic m => rw [hy] at h; cases h
          | fuel => rw [hy] at h; cases h
        | err x => rw [hx] at h; cases h
        | panic m => rw [hx] at h; cases h
        | fuel => rw [hx] at h; cases h
      | ref n =>
        simp only [decTy] at h
        simp only [adecTyC]
        cases hfind : d.find n with
        | none => simp [hfind] at h
        | some df =>
          cases df with
          | struct fs =>
            simp only [hfind] at h ⊢
            have hsb : cmpRd.structBegin (cr, bs) = (readStructBegin cr, bs) := rfl
            rw [hsb] at h
            cases hy : decFields cmpRd d f fs [] (readStructBegin cr, bs) with
            | ok q =>
              obtain ⟨slots, s1, r1⟩ := q
              rw [hy] at h
              simp only at h
              have hse : cmpRd.structEnd (s1, r1) = mapOut (fun c => (c, r1)) (Compact.readStructEnd s1) := rfl
              rw [hse] at h
              rw [runF_bind, ihF fs [] _ bs slots s1 r1 hsf hy]
              simp only [bindP]
              rw [runF_bind, runF_readStructEnd]
              cases hz : Compact.readStructEnd s1 with
              | ok s2 =>
                rw [hz] at h
                simp only [mapOut] at h
                simp only [bindP]
                cases hfin : finish fs slots with
                | ok out => rw [hfin] at h; simp only [Out.ok.injEq, Prod.mk.injEq] at h; obtain ⟨rfl, rfl, rfl⟩ := h; rfl
                | err x => rw [hfin] at h; cases h
                | panic m => rw [hfin] at h; cases h
                | fuel => rw [hfin] at h; cases h
              | err x => rw [hz] at h; cases h
              | panic m => rw [hz] at h; cases h
              | fuel => rw [hz] at h; cases h
            | err x => rw [hy] at h; cases h
            | panic m => rw [hy] at h; cases h
            | fuel => rw [hy] at h; cases h
          | union vs =>
            simp only [hfind] at h ⊢
            have hsb : cmpRd.structBegin (cr, bs) = (readStructBegin cr, bs) := rfl
            rw [hsb] at h
            cases hy : decUnion cmpRd d f vs none (readStructBegin cr, bs) with
            | ok q =>
              obtain ⟨ret, s1, r1⟩ := q
              rw [hy] at h
              simp only at h
              have hse : cmpRd.structEnd (s1, r1) = mapOut (fun c => (c, r1)) (Compact.readStructEnd s1) := rfl
              rw [hse] at h
              rw [runF_bind, ihU vs none _ bs ret s1 r1 hsf hy]
              simp only [bindP]
              rw [runF_bind, runF_readStructEnd]
              cases hz : Compact.readStructEnd s1 with
              | ok s2 =>
                rw [hz] at h
                simp only [mapOut] at h
                simp only [bindP]
                cases ret with
                | some p => obtain ⟨id, pv⟩ := p; simp only [Out.ok.injEq, Prod.mk.injEq] at h; obtain ⟨rfl, rfl, rfl⟩ := h; rfl
                | none =>
                  simp only at h ⊢
                  split at h
                  · simp only [Out.ok.injEq, Prod.mk.injEq] at h; obtain ⟨rfl, rfl, rfl⟩ := h; rfl
                  · cases h
              | err x => rw [hz] at h; cases h
              | panic m => rw [hz] at h; cases h
              | fuel => rw [hz] at h; cases h
            | err x => rw [hy] at h; cases h
            | panic m => rw [hy] at h; cases h
            | fuel => rw [hy] at h; cases h
          | enum =>
            simp only [hfind] at h ⊢
            have hq : cmpRd.readI32 (cr, bs) = mapOut (fun x => (x.1, cr, x.2)) (Pilota.readVarS 4 bs) := rfl
            rw [hq] at h
            obtain ⟨a, ha, rfl, rfl⟩ := cleaf TVal.i32 cr _ v cr' r h
            simp [runF_bind, runF_readVarS, ha, bindP]
          | typedef t =>
            simp only [hfind] at h ⊢
            exact ihT t cr bs v cr' r hsf h
    · intro el n acc cr bs xs cr' r hsf h
      cases n with
      | zero => simp only [decN] at h; simp only [Out.ok.injEq, Prod.mk.injEq] at h; obtain ⟨rfl, rfl, rfl⟩ := h; simp [adecNC]
      | succ n =>
        simp only [decN] at h
        simp only [adecNC]
        cases hy : decTy cmpRd d f el (cr, bs) with
        | ok q =>
          obtain ⟨v, s1, r1⟩ := q
          rw [hy] at h
          simp only at h
          have h1 := ihT el cr bs v s1 r1 hsf hy
          have hle := runF_le _ bs _ r1 h1
          rw [runF_bind, h1]
          exact ihN el n _ s1 r1 xs cr' r (by omega) h
        | err x => rw [hy] at h; cases h
        | panic m => rw [hy] at h; cases h
        | fuel => rw [hy] at h; cases h
    · intro k v n acc cr bs xs cr' r hsf h
      cases n with
      | zero => simp only [decPairs] at h; simp only [Out.ok.injEq, Prod.mk.injEq] at h; obtain ⟨rfl, rfl, rfl⟩ := h; simp [adecPairsC]
      | succ n =>
        simp only [decPairs] at h
        simp only [adecPairsC]
        cases hy : decTy cmpRd d f k (cr, bs) with
        | ok q =>
          obtain ⟨kv, s1, r1⟩ := q
          rw [hy] at h
          simp only at h
          have h1 := ihT k cr bs kv s1 r1 hsf hy
          have hle := runF_le _ bs _ r1 h1
          cases hz : decTy cmpRd d f v (s1, r1) with
          | ok q2 =>
            obtain ⟨vv, s2, r2⟩ := q2
            rw [hz] at h
            simp only at h
            have h2 := ihT v s1 r1 vv s2 r2 (by omega) hz
            have hle2 := runF_le _ r1 _ r2 h2
            rw [runF_bind, h1]
            simp only [bindP]
            rw [runF_bind, h2]
            exact ihP k v n _ s2 r2 xs cr' r (by omega) h
          | err x => rw [hz] at h; cases h
          | panic m => rw [hz] at h; cases h
          | fuel => rw [hz] at h; cases h
        | err x => rw [hy] at h; cases h
        | panic m => rw [hy] at h; cases h
        | fuel => rw [hy] at h; cases h
    · intro fs slots cr bs out cr' r hsf h
      simp only [decFields] at h
      simp only [adecFieldsC, runF_bind, runF_readFieldBegin]
      have hfb : cmpRd.fieldBegin (cr, bs) = mapOut (fun x => (x.1, x.2.1, x.2.2)) (Compact.readFieldBegin cr bs) := rfl
      rw [hfb] at h
      cases hx : Compact.readFieldBegin cr bs with
      | ok p =>
        obtain ⟨⟨t, id⟩, s0, r0⟩ := p
        rw [hx] at h
        simp only [mapOut] at h
        have hle : r0.length ≤ bs.length := by
          have := runF_le (readFieldBegin cr) bs ((t, id), s0) r0 (by rw [runF_readFieldBegin, hx]; rfl)
          exact this
        simp only [pack, bindP]
        by_cases hs : t = .stop
        · simp only [hs, if_true] at h ⊢; simp only [Out.ok.injEq, Prod.mk.injEq] at h; obtain ⟨rfl, rfl, rfl⟩ := h; rfl
        · simp only [hs, if_false] at h ⊢
          cases hfind : fs.find? (fun fl => fl.id == id && d.ttype fl.ty == t) with
          | some fl =>
            simp only [hfind] at h ⊢
            cases hy : decTy cmpRd d f fl.ty (s0, r0) with
            | ok q =>
              obtain ⟨v, s1, r1⟩ := q
              rw [hy] at h
              simp only at h
              have h1 := ihT fl.ty s0 r0 v s1 r1 (by omega) hy
              have hle1 := runF_le _ r0 _ r1 h1
              rw [runF_bind, h1]
              exact ihF fs _ s1 r1 out cr' r (by omega) h
            | err x => rw [hy] at h; cases h
            | panic m => rw [hy] at h; cases h
            | fuel => rw [hy] at h; cases h
          | none =>
            simp only [hfind] at h ⊢
            cases hy : cmpRd.skip t (s0, r0) with
            | ok q =>
              obtain ⟨s1, r1⟩ := q
              rw [hy] at h
              simp only at h
              have h1 := cskip_of_cmpRd sf t s0 r0 s1 r1 (by omega) hy
              have hle1 := runF_le _ r0 _ r1 h1
              rw [runF_bind, h1]
              exact ihF fs slots s1 r1 out cr' r (by omega) h
            | err x => rw [hy] at h; cases h
            | panic m => rw [hy] at h; cases h
            | fuel => rw [hy] at h; cases h
      | err x => rw [hx] at h; cases h
      | panic m => rw [hx] at h; cases h
      | fuel => rw [hx] at h; cases h
    · intro vs ret cr bs out cr' r hsf h
      simp only [decUnion] at h
      simp only [adecUnionC, runF_bind, runF_readFieldBegin]
      have hfb : cmpRd.fieldBegin (cr, bs) = mapOut (fun x => (x.1, x.2.1, x.2.2)) (Compact.readFieldBegin cr bs) := rfl
      rw [hfb] at h
      cases hx : Compact.readFieldBegin cr bs with
      | ok p =>
        obtain ⟨⟨t, id⟩, s0, r0⟩ := p
        rw [hx] at h
        simp only [mapOut] at h
        have hle : r0.length ≤ bs.length := by
          have := runF_le (readFieldBegin cr) bs ((t, id), s0) r0 (by rw [runF_readFieldBegin, hx]; rfl)
          exact this
        simp only [pack, bindP]
        by_cases hs : t = .stop
        · simp only [hs, if_true] at h ⊢; simp only [Out.ok.injEq, Prod.mk.injEq] at h; obtain ⟨rfl, rfl, rfl⟩ := h; rfl
        · simp only [hs, if_false] at h ⊢
          cases hfind : vs.find? (fun x => x.1 == id && !(x.2 == .void)) with
          | some pr =>
            obtain ⟨pid, ty⟩ := pr
            simp only [hfind] at h ⊢
            by_cases hret : ret.isSome = true
            · simp [hret] at h
            · simp only [hret, Bool.false_eq_true, if_false] at h ⊢
              cases hy : decTy cmpRd d f ty (s0, r0) with
              | ok q =>
                obtain ⟨v, s1, r1⟩ := q
                rw [hy] at h
                simp only at h
                have h1 := ihT ty s0 r0 v s1 r1 (by omega) hy
                have hle1 := runF_le _ r0 _ r1 h1
                rw [runF_bind, h1]
                exact ihU vs _ s1 r1 out cr' r (by omega) h
              | err x => rw [hy] at h; cases h
              | panic m => rw [hy] at h; cases h
              | fuel => rw [hy] at h; cases h
          | none =>
            simp only [hfind] at h ⊢
            cases hy : cmpRd.skip t (s0, r0) with
            | ok q =>
              obtain ⟨s1, r1⟩ := q
              rw [hy] at h
              simp only at h
              have h1 := cskip_of_cmpRd sf t s0 r0 s1 r1 (by omega) hy
              have hle1 := runF_le _ r0 _ r1 h1
              rw [runF_bind, h1]
              exact ihU vs ret s1 r1 out cr' r (by omega) h
            | err x => rw [hy] at h; cases h
            | panic m => rw [hy] at h; cases h
            | fuel => rw [hy] at h; cases h
      | err x => rw [hx] at h; cases h
      | panic m => rw [hx] at h; cases h
      | fuel => rw [hx] at h; cases h

end Pilota.TGen
