import PilotaModel.Lemmas.Varint
import PilotaModel.Proto.Wire
/-
  prost's `decode_varint` (fast / slice / slow path) against the reference reading
  `decVarSpec`; round trip; `encoded_len_varint`; stability under appended input.
-/
namespace Pilota.Proto
open Pilota

/-- reference reading continued at byte `i` with `acc` the value of the first `i` bytes. -/
def specGo (i acc : Nat) (bs : Bytes) : Out (Nat × Bytes) :=
  match gatherVar (10 - i) bs with
  | .ok (g, r) => if acc + varValue g * 128 ^ i < 2 ^ 64 then .ok (acc + varValue g * 128 ^ i, r) else .err .invalid
  | .err _ => .err .invalid
  | .panic s => .panic s
  | .fuel => .fuel

theorem decVarSpec_eq (bs : Bytes) : decVarSpec bs = specGo 0 0 bs := by
  unfold decVarSpec specGo
  cases gatherVar 10 bs with
  | ok p => obtain ⟨g, r⟩ := p; simp
  | err k => rfl
  | panic s => rfl
  | fuel => rfl

theorem gatherVar_suffix (m : Nat) (bs g r : Bytes) (h : gatherVar m bs = .ok (g, r)) : bs = g ++ r := by
  induction m generalizing bs g with
  | zero => cases bs <;> simp [gatherVar] at h
  | succ m ih =>
    cases bs with
    | nil => simp [gatherVar] at h
    | cons b bs =>
      simp only [gatherVar] at h
      split at h
      · cases h; rfl
      · cases h2 : gatherVar m bs with
        | ok p =>
          obtain ⟨g', r'⟩ := p
          simp only [h2] at h
          cases h
          simp [ih bs g' h2]
        | err k => simp [h2] at h
        | panic s => simp [h2] at h
        | fuel => simp [h2] at h

theorem gatherVar_pos (m : Nat) (bs g r : Bytes) (h : gatherVar m bs = .ok (g, r)) : 0 < g.length := by
  cases m with
  | zero => cases bs <;> simp [gatherVar] at h
  | succ m =>
    cases bs with
    | nil => simp [gatherVar] at h
    | cons b bs =>
      simp only [gatherVar] at h
      split at h
      · cases h; simp
      · cases h2 : gatherVar m bs with
        | ok p => obtain ⟨g', r'⟩ := p; simp only [h2] at h; cases h; simp
        | err k => simp [h2] at h
        | panic s => simp [h2] at h
        | fuel => simp [h2] at h

theorem gatherVar_not_panic (m : Nat) (bs : Bytes) : (∀ s, gatherVar m bs ≠ .panic s) ∧ gatherVar m bs ≠ .fuel := by
  induction m generalizing bs with
  | zero => cases bs <;> simp [gatherVar]
  | succ m ih =>
    cases bs with
    | nil => simp [gatherVar]
    | cons b bs =>
      simp only [gatherVar]
      split
      · simp
      · have := ih bs
        cases h2 : gatherVar m bs <;> simp_all

private theorem p128 : (128:Nat)^0 = 1 ∧ (128:Nat)^1 = 128 ∧ (128:Nat)^2 = 16384 ∧ (128:Nat)^3 = 2097152 ∧
    (128:Nat)^4 = 268435456 ∧ (128:Nat)^5 = 34359738368 ∧ (128:Nat)^6 = 4398046511104 ∧
    (128:Nat)^7 = 562949953421312 ∧ (128:Nat)^8 = 72057594037927936 ∧ (128:Nat)^9 = 9223372036854775808 ∧
    (128:Nat)^10 = 1180591620717411303424 ∧ (2:Nat)^64 = 18446744073709551616 := by decide

/-- the overflow test of both paths (`count == 9 && byte >= 2`) is "the value does not fit 64 bits". -/
theorem last_check (i acc b : Nat) (hi : i ≤ 9) (hacc : acc < 128 ^ i) (hb : b < 128) :
    (i = 9 ∧ b ≥ 2) ↔ ¬ (acc + b * 128 ^ i < 2 ^ 64) := by
  obtain ⟨e0, e1, e2, e3, e4, e5, e6, e7, e8, e9, _, e64⟩ := p128
  have : i = 0 ∨ i = 1 ∨ i = 2 ∨ i = 3 ∨ i = 4 ∨ i = 5 ∨ i = 6 ∨ i = 7 ∨ i = 8 ∨ i = 9 := by omega
  rcases this with rfl | rfl | rfl | rfl | rfl | rfl | rfl | rfl | rfl | rfl
  all_goals (first | rw [e0] at * | rw [e1] at * | rw [e2] at * | rw [e3] at * | rw [e4] at * | rw [e5] at * | rw [e6] at * | rw [e7] at * | rw [e8] at * | rw [e9] at *)
  all_goals (rw [e64]; omega)

theorem acc_step (i acc b : Nat) (hacc : acc < 128 ^ i) : acc + b % 128 * 128 ^ i < 128 ^ (i + 1) := by
  have hb : b % 128 ≤ 127 := by omega
  have : b % 128 * 128 ^ i ≤ 127 * 128 ^ i := Nat.mul_le_mul_right _ hb
  rw [Nat.pow_succ]; omega

theorem acc_shift (i acc b v : Nat) :
    acc + (b % 128 + 128 * v) * 128 ^ i = (acc + b % 128 * 128 ^ i) + v * 128 ^ (i + 1) := by
  rw [Nat.pow_succ, Nat.add_mul, Nat.add_assoc]
  congr 1; congr 1
  rw [Nat.mul_comm 128 v, Nat.mul_assoc, Nat.mul_comm 128]

/-- the slow path computes the reference reading. -/
theorem slowGo_spec (left : Nat) : ∀ (i acc : Nat) (bs : Bytes), acc < 128 ^ i → left ≤ bs.length →
    (i + left = 10 ∨ (left = bs.length ∧ i + left ≤ 10)) → slowGo i acc left bs = specGo i acc bs := by
  induction left with
  | zero =>
    intro i acc bs _ _ h
    unfold slowGo specGo
    rcases h with h | ⟨h, _⟩
    · have : 10 - i = 0 := by omega
      rw [this]; cases bs <;> simp [gatherVar]
    · have : bs = [] := List.eq_nil_of_length_eq_zero h.symm
      subst this
      cases hm : 10 - i <;> simp [gatherVar]
  | succ left ih =>
    intro i acc bs hacc hlen h
    cases bs with
    | nil => simp at hlen
    | cons b bs =>
      have hi : i ≤ 9 := by rcases h with h | ⟨_, h⟩ <;> omega
      obtain ⟨m, hm⟩ : ∃ m, 10 - i = m + 1 := ⟨9 - i, by omega⟩
      unfold slowGo specGo
      rw [hm]
      simp only [gatherVar]
      by_cases hb : b.toNat < 128
      · simp only [hb, if_true, varValue, Nat.mul_zero, Nat.add_zero]
        have hmod : b.toNat % 128 = b.toNat := Nat.mod_eq_of_lt hb
        simp only [hmod]
        have := last_check i acc b.toNat hi hacc hb
        by_cases hc : i = 9 ∧ b.toNat ≥ 2
        · rw [if_pos hc, if_neg (this.mp hc)]
        · have h2 : acc + b.toNat * 128 ^ i < 2 ^ 64 := by
            by_cases h3 : acc + b.toNat * 128 ^ i < 2 ^ 64
            · exact h3
            · exact absurd (this.mpr h3) hc
          rw [if_neg hc, if_pos h2]
      · simp only [hb, if_false]
        have hlen' : left ≤ bs.length := by simp at hlen; omega
        have h' : (i + 1) + left = 10 ∨ (left = bs.length ∧ (i + 1) + left ≤ 10) := by
          rcases h with h | ⟨h1, h2⟩
          · left; omega
          · right; simp at h1; omega
        rw [ih (i + 1) _ bs (acc_step i acc b.toNat hacc) hlen' h']
        unfold specGo
        have hm' : 10 - (i + 1) = m := by omega
        rw [hm']
        cases hg : gatherVar m bs with
        | ok p =>
          obtain ⟨g, r⟩ := p
          simp only [varValue, acc_shift]
        | err k => rfl
        | panic s => rfl
        | fuel => rfl

/-- precondition of the slice path at byte `i`: it cannot run off the slice. -/
def sliceOk (i : Nat) (bs : Bytes) : Prop := i + bs.length > 10 ∨ lastLt128 bs = true

theorem lastLt128_cons (b : UInt8) (bs : Bytes) (hb : ¬ b.toNat < 128) (h : lastLt128 (b :: bs) = true) :
    bs ≠ [] ∧ lastLt128 bs = true := by
  cases bs with
  | nil => simp [lastLt128, hb] at h
  | cons c cs =>
    refine ⟨by simp, ?_⟩
    simpa [lastLt128, List.getLast?_cons_cons] using h

/-- the slice path computes the reference reading and reports how many bytes it used. -/
theorem sliceGo_spec (bs : Bytes) : ∀ (i acc : Nat), acc < 128 ^ i → i ≤ 9 → sliceOk i bs →
    match specGo i acc bs with
    | .ok (v, r) => sliceGo i acc bs = .ok (v, i + (bs.length - r.length))
    | .err _ => sliceGo i acc bs = .err .invalid
    | _ => False := by
  induction bs with
  | nil =>
    intro i acc _ hi h
    rcases h with h | h
    · simp at h; omega
    · simp [lastLt128] at h
  | cons b bs ih =>
    intro i acc hacc hi hok
    obtain ⟨m, hm⟩ : ∃ m, 10 - i = m + 1 := ⟨9 - i, by omega⟩
    unfold specGo sliceGo
    rw [hm]
    simp only [gatherVar]
    by_cases hb : b.toNat < 128
    · simp only [hb, if_true, varValue, Nat.mul_zero, Nat.add_zero]
      have hmod : b.toNat % 128 = b.toNat := Nat.mod_eq_of_lt hb
      simp only [hmod]
      have hl := last_check i acc b.toNat hi hacc hb
      by_cases h9 : i = 9
      · subst h9
        by_cases h2 : b.toNat < 2
        · have : acc + b.toNat * 128 ^ 9 < 2 ^ 64 := by
            by_cases h3 : acc + b.toNat * 128 ^ 9 < 2 ^ 64
            · exact h3
            · have := hl.mpr h3; omega
          simp [this, h2]
        · have : ¬ acc + b.toNat * 128 ^ 9 < 2 ^ 64 := hl.mp ⟨rfl, by omega⟩
          simp [this, h2]
      · have : acc + b.toNat * 128 ^ i < 2 ^ 64 := by
          by_cases h3 : acc + b.toNat * 128 ^ i < 2 ^ 64
          · exact h3
          · exact absurd (hl.mpr h3).1 h9
        simp [this, h9]
    · simp only [hb, if_false]
      by_cases h9 : i = 9
      · subst h9
        have hm0 : m = 0 := by omega
        subst hm0
        have h2 : ¬ b.toNat < 2 := by omega
        simp only [if_true, h2, if_false]
        cases bs <;> simp [gatherVar]
      · simp only [h9, if_false]
        have hok' : sliceOk (i + 1) bs := by
          rcases hok with h | h
          · left; simp at h; omega
          · right; exact (lastLt128_cons b bs hb h).2
        have hacc' : acc + (b.toNat - 128) * 128 ^ i < 128 ^ (i + 1) := by
          have : b.toNat - 128 = b.toNat % 128 := by
            have := b.toNat_lt; omega
          rw [this]; exact acc_step i acc b.toNat hacc
        have := ih (i + 1) _ hacc' (by omega) hok'
        unfold specGo at this
        have hm' : 10 - (i + 1) = m := by omega
        rw [hm'] at this
        have hsub : b.toNat - 128 = b.toNat % 128 := by
          have := b.toNat_lt; omega
        cases hg : gatherVar m bs with
        | ok p =>
          obtain ⟨g, r⟩ := p
          simp only [hg] at this
          simp only [varValue, acc_shift]
          rw [← hsub]
          by_cases hlt : acc + (b.toNat - 128) * 128 ^ i + varValue g * 128 ^ (i + 1) < 2 ^ 64
          · rw [if_pos hlt] at this ⊢
            simp only at this ⊢
            rw [this]
            have hs := gatherVar_suffix m bs g r hg
            simp only [List.length_cons]
            have hle : r.length ≤ bs.length := by rw [hs]; simp
            have : i + 1 + (bs.length - r.length) = i + (bs.length + 1 - r.length) := by omega
            rw [this]
          · rw [if_neg hlt] at this ⊢
            exact this
        | err k => simp only [hg] at this; exact this
        | panic s => exact absurd hg ((gatherVar_not_panic m bs).1 s)
        | fuel => exact absurd hg (gatherVar_not_panic m bs).2

theorem specGo_err (i acc : Nat) (bs : Bytes) (k : ErrKind) (h : specGo i acc bs = .err k) : k = .invalid := by
  unfold specGo at h
  cases hg : gatherVar (10 - i) bs with
  | ok p =>
    obtain ⟨g, r⟩ := p
    simp only [hg] at h
    split at h
    · cases h
    · cases h; rfl
  | err k' => simp only [hg] at h; cases h; rfl
  | panic s => simp [hg] at h
  | fuel => simp [hg] at h

theorem specGo_zero_fast (b : UInt8) (rest : Bytes) (hb : b.toNat < 128) :
    specGo 0 0 (b :: rest) = .ok (b.toNat, rest) := by
  have e64 := p128.2.2.2.2.2.2.2.2.2.2.2
  simp [specGo, gatherVar, hb, varValue, Nat.mod_eq_of_lt hb]
  omega

/-- the slow path is the reference reading on every input. -/
theorem varintSlow_spec (bs : Bytes) : varintSlow bs = decVarSpec bs := by
  rw [decVarSpec_eq]
  unfold varintSlow
  by_cases hlen : bs.length ≤ 10
  · rw [Nat.min_eq_right hlen]
    exact slowGo_spec _ 0 0 bs (by simp) (Nat.le_refl _) (Or.inr ⟨rfl, by omega⟩)
  · rw [Nat.min_eq_left (by omega)]
    exact slowGo_spec 10 0 0 bs (by simp) (by omega) (Or.inl rfl)

/-- the slice path (with the `advance` that follows it) is the reference reading wherever its
guard holds. -/
theorem varintViaSlice_spec (bs : Bytes) (hpre : slicePre bs = true) : varintViaSlice bs = decVarSpec bs := by
  rw [decVarSpec_eq]
  unfold slicePre at hpre
  simp only [Bool.and_eq_true, Bool.not_eq_true', Bool.or_eq_true, decide_eq_true_eq] at hpre
  obtain ⟨hne, hpre⟩ := hpre
  have hok : sliceOk 0 bs := by
    rcases hpre with h | h
    · left; omega
    · right; exact h
  have hs := sliceGo_spec bs 0 0 (by simp) (by omega) hok
  have hpre' : (decide (bs.length > 10) || lastLt128 bs) = true := by
    simp only [Bool.or_eq_true, decide_eq_true_eq]; exact hpre
  have hvs : varintSlice bs = sliceGo 0 0 bs := by
    unfold varintSlice
    simp only [hne, Bool.false_eq_true, if_false, hpre', Bool.not_true]
  unfold varintViaSlice
  rw [hvs]
  cases hsp : specGo 0 0 bs with
  | ok p =>
    obtain ⟨v, r⟩ := p
    simp only [hsp] at hs
    rw [hs]
    simp only [Nat.zero_add]
    have hsuf : ∃ g, bs = g ++ r := by
      unfold specGo at hsp
      cases hg : gatherVar (10 - 0) bs with
      | ok q =>
        obtain ⟨g, r'⟩ := q
        simp only [hg] at hsp
        split at hsp
        · cases hsp; exact ⟨g, gatherVar_suffix _ _ _ _ hg⟩
        · cases hsp
      | err k => simp [hg] at hsp
      | panic s => simp [hg] at hsp
      | fuel => simp [hg] at hsp
    obtain ⟨g, hg⟩ := hsuf
    have hle : bs.length - r.length ≤ bs.length := Nat.sub_le _ _
    simp only [hle, if_true]
    rw [hg]
    simp
  | err k => simp only [hsp] at hs; rw [hs, specGo_err _ _ _ _ hsp]
  | panic s => simp [hsp] at hs
  | fuel => simp [hsp] at hs

/-- **the three paths agree**: `decode_varint` is the reference reading on every input. -/
theorem decodeVarint_eq_spec (bs : Bytes) : decodeVarint bs = decVarSpec bs := by
  cases bs with
  | nil => simp [decodeVarint, decVarSpec, gatherVar]
  | cons b rest =>
    unfold decodeVarint
    by_cases hb : b.toNat < 128
    · simp only [hb, if_true]; rw [decVarSpec_eq]; exact (specGo_zero_fast b rest hb).symm
    · simp only [hb, if_false]
      split
      · rename_i hpre
        apply varintViaSlice_spec
        unfold slicePre
        simp only [List.isEmpty_cons, Bool.not_false, Bool.true_and]
        exact hpre
      · rename_i hpre
        exact varintSlow_spec _

/-! ### consequences -/

theorem decodeVarint_encode (n : Nat) (h : n < 2 ^ 64) (r : Bytes) :
    decodeVarint (encodeVarint n ++ r) = .ok (n, r) := by
  rw [decodeVarint_eq_spec]
  unfold decVarSpec encodeVarint
  have hl : varLen n ≤ 10 := varLen_le 10 n (by decide) (Nat.lt_trans h (by decide))
  simp only [gatherVar_encVar 10 n r hl, varValue_encVar, h, if_true]

theorem decodeVarint_not_panic (bs : Bytes) : (∀ s, decodeVarint bs ≠ .panic s) ∧ decodeVarint bs ≠ .fuel := by
  rw [decodeVarint_eq_spec]
  unfold decVarSpec
  have := gatherVar_not_panic 10 bs
  cases h : gatherVar 10 bs with
  | ok p => obtain ⟨g, r⟩ := p; simp only; split <;> simp
  | err k => simp
  | panic s => exact absurd h (this.1 s)
  | fuel => exact absurd h this.2

theorem gatherVar_len_le (m : Nat) : ∀ (bs g r : Bytes), gatherVar m bs = .ok (g, r) → g.length ≤ m := by
  induction m with
  | zero => intro bs g r h; cases bs <;> simp [gatherVar] at h
  | succ m ih =>
    intro bs g r h
    cases bs with
    | nil => simp [gatherVar] at h
    | cons b bs =>
      simp only [gatherVar] at h
      split at h
      · cases h; simp
      · cases h2 : gatherVar m bs with
        | ok p => obtain ⟨g', r'⟩ := p; simp only [h2] at h; cases h; have := ih bs g' _ h2; simp; omega
        | err k => simp [h2] at h
        | panic s => simp [h2] at h
        | fuel => simp [h2] at h

/-- a successful `decode_varint` consumed a non-empty prefix `g` and returned a `u64`. -/
theorem decodeVarint_ok (bs : Bytes) (v : Nat) (r : Bytes) (h : decodeVarint bs = .ok (v, r)) :
    ∃ g, bs = g ++ r ∧ 0 < g.length ∧ g.length ≤ 10 ∧ v < 2 ^ 64 ∧ gatherVar 10 bs = .ok (g, r) ∧ v = varValue g := by
  rw [decodeVarint_eq_spec] at h
  unfold decVarSpec at h
  cases hg : gatherVar 10 bs with
  | ok p =>
    obtain ⟨g, r'⟩ := p
    simp only [hg] at h
    split at h
    · rename_i hv
      cases h
      exact ⟨g, gatherVar_suffix _ _ _ _ hg, gatherVar_pos _ _ _ _ hg, gatherVar_len_le _ _ _ _ hg, hv, rfl, rfl⟩
    · cases h
  | err k => simp [hg] at h
  | panic s => simp [hg] at h
  | fuel => simp [hg] at h

theorem gatherVar_append (m : Nat) (bs g r x : Bytes) (h : gatherVar m bs = .ok (g, r)) :
    gatherVar m (bs ++ x) = .ok (g, r ++ x) := by
  induction m generalizing bs g with
  | zero => cases bs <;> simp [gatherVar] at h
  | succ m ih =>
    cases bs with
    | nil => simp [gatherVar] at h
    | cons b bs =>
      simp only [gatherVar, List.cons_append] at h ⊢
      split
      · rename_i hb; simp only [hb, if_true] at h; cases h; rfl
      · rename_i hb
        simp only [hb, if_false] at h
        cases h2 : gatherVar m bs with
        | ok p =>
          obtain ⟨g', r'⟩ := p
          simp only [h2] at h; cases h
          rw [ih bs g' h2]
        | err k => simp [h2] at h
        | panic s => simp [h2] at h
        | fuel => simp [h2] at h

/-- a successful read is unaffected by input appended behind it. -/
theorem decodeVarint_append (bs : Bytes) (v : Nat) (r x : Bytes) (h : decodeVarint bs = .ok (v, r)) :
    decodeVarint (bs ++ x) = .ok (v, r ++ x) := by
  obtain ⟨g, _, _, _, hv, hg, rfl⟩ := decodeVarint_ok bs v r h
  rw [decodeVarint_eq_spec]
  unfold decVarSpec
  rw [gatherVar_append 10 bs g r x hg]
  simp [hv]

/-! ### `encoded_len_varint` -/

theorem varLen_eq_log (n : Nat) (hn : n ≠ 0) : varLen n = Nat.log2 n / 7 + 1 := by
  induction n using Nat.strongRecOn with
  | _ n ih =>
    rw [varLen]
    split
    · rename_i h
      have : Nat.log2 n < 7 := (Nat.log2_lt hn).mpr (by omega)
      omega
    · rename_i h
      have hd : n / 128 ≠ 0 := by omega
      rw [ih (n / 128) (by omega) hd]
      have h1 : Nat.log2 n = Nat.log2 (n / 128) + 7 := by
        have e : n / 128 = n >>> 7 := by simp [Nat.shiftRight_eq_div_pow]
        have ge : 2 ^ 7 ≤ n := by omega
        apply Nat.le_antisymm
        · have : Nat.log2 n < Nat.log2 (n / 128) + 7 + 1 := by
            rw [Nat.log2_lt hn]
            have := @Nat.lt_log2_self (n / 128)
            rw [Nat.pow_add, Nat.pow_add] at *
            have : n < (n / 128 + 1) * 128 := by omega
            have h3 : (n / 128 + 1) ≤ 2 ^ (n / 128).log2 * 2 ^ 1 := by omega
            calc n < (n / 128 + 1) * 128 := this
              _ ≤ (2 ^ (n / 128).log2 * 2 ^ 1) * 128 := Nat.mul_le_mul_right _ h3
              _ = 2 ^ (n / 128).log2 * 2 ^ 7 * 2 ^ 1 := by
                rw [Nat.mul_assoc, Nat.mul_assoc]
          omega
        · have h4 := @Nat.log2_self_le (n / 128) hd
          have : 2 ^ ((n / 128).log2 + 7) ≤ n := by
            rw [Nat.pow_add]
            calc 2 ^ (n / 128).log2 * 2 ^ 7 ≤ (n / 128) * 128 := Nat.mul_le_mul_right _ h4
              _ ≤ n := by omega
          have : ¬ Nat.log2 n < (n / 128).log2 + 7 := by
            rw [Nat.log2_lt hn]; omega
          omega
      omega

theorem or_one_eq (n : Nat) : n ||| 1 = if n % 2 = 0 then n + 1 else n := by
  apply Nat.eq_of_testBit_eq
  intro i
  cases i with
  | zero =>
    split <;> simp [Nat.testBit_zero] <;> omega
  | succ i =>
    have h1 : (1:Nat).testBit (i+1) = false := by simp [Nat.testBit_succ]
    rw [Nat.testBit_or, h1, Bool.or_false]
    split
    · rename_i he
      rw [Nat.testBit_succ, Nat.testBit_succ]
      have : (n + 1) / 2 = n / 2 := by omega
      rw [this]
    · rfl

theorem or_one_log2 (n : Nat) (hn : n ≠ 0) : Nat.log2 (n ||| 1) = Nat.log2 n := by
  have h1 := or_one_eq n
  rw [h1]
  split
  · rename_i he
    apply Nat.le_antisymm
    · have : Nat.log2 (n + 1) < Nat.log2 n + 1 := by
        rw [Nat.log2_lt (by omega)]
        have h2 := @Nat.lt_log2_self n
        have hev : 2 ^ (n.log2 + 1) % 2 = 0 := by rw [Nat.pow_succ]; omega
        omega
      omega
    · have : ¬ Nat.log2 (n + 1) < Nat.log2 n := by
        rw [Nat.log2_lt (by omega)]
        have := @Nat.log2_self_le n hn
        omega
      omega
  · rfl

theorem encodedLenVarint_eq (n : Nat) (h : n < 2 ^ 64) : encodedLenVarint n = varLen n := by
  unfold encodedLenVarint
  by_cases hn : n = 0
  · subst hn
    have : Nat.log2 1 = 0 := by rw [show (1:Nat) = 2 ^ 0 from rfl, Nat.log2_two_pow]
    simp [varLen, this]
  · rw [or_one_log2 n hn, varLen_eq_log n hn]
    have hl : Nat.log2 n < 64 := (Nat.log2_lt hn).mpr h
    generalize Nat.log2 n = L at *
    omega

end Pilota.Proto
