import PilotaModel.Lemmas.PbInterleave
import PilotaModel.Proto.Group
/-
  The runtime's group codec: round trip, merge semantics, encoded_len, totality.
-/
namespace Pilota.Proto
open Pilota Spec

theorem wtOf_ne_egroup (ty : FTy) : wtOf ty ≠ .egroup := by
  cases ty with
  | scalar c => cases c <;> simp [wtOf, Codec.wt, Codec.shape]
  | msg i => simp [wtOf]

theorem recsEs_wt (s : Schema) (flag : Bool) (tag : Nat) (ty : FTy) : ∀ (xs : EVals), ∀ r ∈ recsEs s flag tag ty xs, r.wt ≠ .egroup
  | .nil, _, h => by simp [recsEs] at h
  | .cons v rest, r, h => by
    simp only [recsEs, List.mem_cons] at h
    rcases h with rfl | h
    · exact wtOf_ne_egroup ty
    · exact recsEs_wt s flag tag ty rest r h

theorem recsPairs_wt (s : Schema) (flag : Bool) (tag : Nat) (kc : Codec) (vty : FTy) : ∀ (kvs : Pairs),
    ∀ r ∈ recsPairs s flag tag kc vty kvs, r.wt ≠ .egroup
  | .nil, _, h => by simp [recsPairs] at h
  | .cons k v rest, r, h => by
    simp only [recsPairs, List.mem_cons] at h
    rcases h with rfl | h
    · simp
    · exact recsPairs_wt s flag tag kc vty rest r h

theorem recsSlot_wt (s : Schema) (flag : Bool) (d : FieldDecl) (v : Slot) : ∀ r ∈ recsSlot s flag d v, r.wt ≠ .egroup := by
  intro r h
  cases d with
  | single t ty opt =>
    cases opt <;> cases v <;> simp [recsSlot] at h <;> subst h <;> exact wtOf_ne_egroup ty
  | rep t ty => cases v <;> simp [recsSlot] at h; exact recsEs_wt s flag t ty _ r h
  | map t kc vty => cases v <;> simp [recsSlot] at h; exact recsPairs_wt s flag t kc vty _ r h
  | oneof vs =>
    cases v <;> simp [recsSlot] at h
    rename_i t x
    cases hl : lookupVariant vs t with
    | none => simp [hl] at h
    | some ty => simp only [hl, List.mem_singleton] at h; subst h; exact wtOf_ne_egroup ty

theorem recsSlots_wt (s : Schema) (flag : Bool) : ∀ (ds : List FieldDecl) (vs : Slots), ∀ r ∈ recsSlots s flag ds vs, r.wt ≠ .egroup
  | [], _, r, h => by simp [recsSlots] at h
  | _ :: _, .nil, r, h => by simp [recsSlots] at h
  | d :: ds, .cons v rest, r, h => by
    simp only [recsSlots, List.mem_append] at h
    rcases h with h | h
    · exact recsSlot_wt s flag d v r h
    · exact recsSlots_wt s flag ds rest r h

/-- the records pilota writes for a whole struct, applied to any value of the struct. -/
theorem foldRecs_recsSlots (s : Schema) (flag : Bool) (hs : WFSchema s = true) (ctx : Nat) :
    ∀ (ds : List FieldDecl) (ys M : Slots), ds.all (FieldDecl.wfIn s.length) = true → nodup (allTags ds) = true →
      okSlots s flag ds ys = true → needSlots ys ≤ ctx → shapeSlots s ds M = true →
      foldRecs s (recurOf s ctx) ctx ds M (recsSlots s flag ds ys) = .ok (mergeValSlots s ds M ys)
  | [], .nil, M, _, _, _, _, hM => by
    cases M with
    | nil => rfl
    | cons a b => simp [shapeSlots] at hM
  | d :: ds, .cons y ys, M, hwf, hnd, hy, hn, hM => by
    cases M with
    | nil => simp [shapeSlots] at hM
    | cons m M' =>
      simp only [List.all_cons, Bool.and_eq_true] at hwf
      simp only [okSlots, Bool.and_eq_true] at hy
      simp only [needSlots] at hn
      simp only [shapeSlots, Bool.and_eq_true] at hM
      have hf := filter_slot s flag d ds y ys hnd
      simp only [mergeValSlots]
      apply foldRecs_split
      · rw [hf.1]; exact foldSlot_recs s flag hs d hwf.1 m y ctx hy.1 (by omega) hM.1
      · rw [hf.2]
        apply foldRecs_recsSlots s flag hs ctx ds ys M' hwf.2 _ hy.2 (by omega) hM.2
        rw [nodup_iff, allTags_cons, List.nodup_append] at hnd
        rw [nodup_iff]; exact hnd.2.1
  | [], .cons _ _, _, _, _, h, _, _ => by simp [okSlots] at h
  | _ :: _, .nil, _, _, _, h, _, _ => by simp [okSlots] at h

/-- from records to the group loop. -/
theorem foldRecs_groupLoop (s : Schema) (c : Nat) (D : List FieldDecl) (tag : Nat) (h1 : minTag ≤ tag) (h2 : tag ≤ maxTag) :
    ∀ (rs : List Rec) (M M1 : Slots), (∀ r ∈ rs, tagOk r.tag = true ∧ r.wt ≠ .egroup) →
      foldRecs s (recurOf s c) c D M rs = .ok M1 →
      ∀ (rest : Bytes) (f : Nat), (flat rs ++ (keyBytes tag .egroup ++ rest)).length < f →
        groupMergeLoop (mergeField s c) D tag f M (flat rs ++ (keyBytes tag .egroup ++ rest)) = .ok (M1, rest) := by
  intro rs
  induction rs with
  | nil =>
    intro M M1 _ h rest f hf
    simp only [foldRecs, Out.ok.injEq] at h
    subst h
    obtain ⟨f, rfl⟩ : ∃ g, f = g + 1 := ⟨f - 1, by omega⟩
    simp [flat_nil, groupMergeLoop, decodeKey_keyBytes tag .egroup h1 h2]
  | cons r rs ih =>
    intro M M1 hr h rest f hf
    simp only [foldRecs] at h
    cases ha : applyRec s (recurOf s c) c D M r with
    | ok Ma =>
      rw [ha] at h
      unfold applyRec at ha
      cases hm : mergeFieldWith s (recurOf s c) c D M r.tag r.wt r.payload with
      | ok p =>
        obtain ⟨Mb, rem⟩ := p
        rw [hm] at ha
        cases rem with
        | nil =>
          simp only [Out.ok.injEq] at ha
          subst ha
          have hrr := hr r (by simp)
          have ht := (tagOk_iff r.tag).mp hrr.1
          have hst := mergeFieldWith_stable s (recurOf s c) (recurOf_stable s c) c D M r.tag r.wt r.payload Mb []
            (flat rs ++ (keyBytes tag .egroup ++ rest)) hm
          simp only [List.nil_append] at hst
          obtain ⟨f, rfl⟩ : ∃ g, f = g + 1 := ⟨f - 1, by omega⟩
          have hkp := keyBytes_pos r.tag r.wt
          have hb : flat (r :: rs) ++ (keyBytes tag .egroup ++ rest) =
              keyBytes r.tag r.wt ++ (r.payload ++ (flat rs ++ (keyBytes tag .egroup ++ rest))) := by
            obtain ⟨t, w, p⟩ := r
            simp only [flat_cons, rec_bytes, List.append_assoc]
          rw [hb] at hf ⊢
          conv => lhs; unfold groupMergeLoop
          simp only [decodeKey_keyBytes r.tag r.wt ht.1 ht.2, hrr.2, if_false, mergeField_eq, hst]
          rw [← mergeField_eq]
          exact ih Mb M1 (fun x hx => hr x (by simp [hx])) h rest f (by simp only [List.length_append] at hf ⊢; omega)
        | cons a b => simp at ha
      | err k => rw [hm] at ha; simp at ha
      | panic e => rw [hm] at ha; simp at ha
      | fuel => rw [hm] at ha; simp at ha
    | err k => rw [ha] at h; simp at h
    | panic e => rw [ha] at h; simp at h
    | fuel => rw [ha] at h; simp at h

/-- `group::merge` of what `group::encode` wrote after the start key, into any value of the struct. -/
theorem groupMerge_encode (s : Schema) (flag : Bool) (hs : WFSchema s = true) (tag : Nat) (h1 : minTag ≤ tag) (h2 : tag ≤ maxTag)
    (i : Nat) (x y : Slots) (ctx : Nat) (hy : okSlots s flag (decls s i) y = true) (hn : needSlots y + 1 ≤ ctx)
    (hx : shapeSlots s (decls s i) x = true) (rest : Bytes) :
    groupMerge s ctx tag .sgroup i x (encSlots s flag (decls s i) y ++ (keyBytes tag .egroup ++ rest)) = .ok (mergeVal s i x y, rest) := by
  obtain ⟨c, rfl⟩ : ∃ c, ctx = c + 1 := ⟨ctx - 1, by omega⟩
  have hdw := decls_wf s hs i
  have hfold := foldRecs_recsSlots s flag hs c (decls s i) y x hdw.1 hdw.2 hy (by omega) hx
  have hrs : ∀ r ∈ recsSlots s flag (decls s i) y, tagOk r.tag = true ∧ r.wt ≠ .egroup := fun r hr =>
    ⟨wf_tags_ok _ _ hdw.1 _ (recsSlots_tags s flag _ _ r hr), recsSlots_wt s flag _ _ r hr⟩
  have := foldRecs_groupLoop s c (decls s i) tag h1 h2 _ x _ hrs hfold rest
    ((encSlots s flag (decls s i) y ++ (keyBytes tag .egroup ++ rest)).length + 1)
    (by rw [flat_recsSlots s flag hs _ y hy]; omega)
  rw [flat_recsSlots s flag hs _ y hy] at this
  simp only [groupMerge, checkWireType, if_true, this, mergeVal]

theorem groupEncodedLen_eq (s : Schema) (flag : Bool) (hs : WFSchema s = true) (tag : Nat) (h1 : minTag ≤ tag) (h2 : tag ≤ maxTag)
    (i : Nat) (m : Slots) (hm : okSlots s flag (decls s i) m = true) :
    groupEncodedLen s flag tag i m = (groupEncode s flag tag i m).length := by
  unfold groupEncodedLen groupEncode
  simp only [List.length_append, lenSlots_eq s flag hs _ (decls_wf s hs i).1 m hm, keyLen_eq tag .sgroup h1 h2,
    ← keyLen_eq tag .egroup h1 h2]
  omega

/-- `group::merge` never panics. -/
theorem groupMergeLoop_good (rec) (hr : FieldOK rec) (ds : List FieldDecl) (tag : Nat) :
    ∀ (f : Nat) (m : Slots) (bs : Bytes), bs.length < f → Out.good (fun p => p.2.length < bs.length) (groupMergeLoop rec ds tag f m bs) := by
  intro f
  induction f with
  | zero => intro m bs h; omega
  | succ f ih =>
    intro m bs hf
    unfold groupMergeLoop
    have h1 := decodeKey_good bs
    cases hk : decodeKey bs with
    | ok p =>
      obtain ⟨⟨t, w⟩, r⟩ := p
      rw [hk] at h1; simp only [Out.good] at h1
      simp only
      split
      · split
        · trivial
        · simp only [Out.good]; exact h1
      · have h2 := hr ds m t w r
        cases hm : rec ds m t w r with
        | ok q =>
          obtain ⟨m', r'⟩ := q
          rw [hm] at h2; simp only [Out.good] at h2
          exact Out.good_imp (fun a ha => by omega) _ (ih m' r' (by omega))
        | err k => trivial
        | panic e => rw [hm] at h2; exact h2.elim
        | fuel => rw [hm] at h2; exact h2.elim
    | err k => trivial
    | panic e => rw [hk] at h1; exact h1.elim
    | fuel => rw [hk] at h1; exact h1.elim

theorem groupMerge_good (s : Schema) (ctx tag : Nat) (wt : WireType) (i : Nat) (m : Slots) (bs : Bytes) :
    Out.good (fun _ => True) (groupMerge s ctx tag wt i m bs) := by
  unfold groupMerge checkWireType
  by_cases hw : WireType.sgroup = wt
  · simp only [hw, if_true]
    cases ctx with
    | zero => trivial
    | succ c =>
      exact Out.good_imp (fun _ _ => trivial) _ (groupMergeLoop_good _ (mergeField_ok s c) _ tag _ m bs (by omega))
  · simp only [hw, if_false]; trivial

end Pilota.Proto
