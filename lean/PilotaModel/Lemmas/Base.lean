import PilotaModel.Base.Bytes
import PilotaModel.Base.Varint
namespace Pilota

theorem natToLE_length (w n : Nat) : (natToLE w n).length = w := by
  induction w generalizing n with
  | zero => rfl
  | succ w ih => simp [natToLE, ih]

theorem leToNat_natToLE (w n : Nat) : leToNat (natToLE w n) = n % 256 ^ w := by
  induction w generalizing n with
  | zero => simp [natToLE, leToNat, Nat.mod_one]
  | succ w ih =>
    simp only [natToLE, leToNat, ih]
    have h1 : (UInt8.ofNat (n % 256)).toNat = n % 256 := by
      simp [UInt8.toNat_ofNat']
    rw [h1, Nat.pow_succ, Nat.mul_comm (256 ^ w) 256, Nat.mod_mul]

@[simp] theorem encFixed_length (e w n) : (encFixed e w n).length = w := by
  cases e <;> simp [encFixed, natToBE, natToLE_length]

theorem decFixed_encFixed (e w n) : decFixed e (encFixed e w n) = n % 256 ^ w := by
  cases e <;> simp [encFixed, decFixed, natToBE, beToNat, leToNat_natToLE]

theorem pow256_pos (w : Nat) : 0 < 256 ^ w := Nat.pow_pos (by decide)

theorem pow256_even (w : Nat) (h : 0 < w) : 256 ^ w % 2 = 0 := by
  cases w with
  | zero => omega
  | succ w => rw [Nat.pow_succ]; omega

theorem toU_lt (w : Nat) (i : Int) : toU w i < 256 ^ w := by
  unfold toU
  have hp := pow256_pos w
  have : i % ((256 ^ w : Nat) : Int) < ((256 ^ w : Nat) : Int) := Int.emod_lt_of_pos _ (by omega)
  have h0 : 0 ≤ i % ((256 ^ w : Nat) : Int) := Int.emod_nonneg _ (by omega)
  omega

theorem toS_toU (w : Nat) (hw : 0 < w) (i : Int) (h : inS w i) : toS w (toU w i) = i := by
  unfold toS toU inS at *
  have hp := pow256_pos w
  have he := pow256_even w hw
  generalize 256 ^ w = M at *
  have h0 : 0 ≤ i % (M : Int) := Int.emod_nonneg _ (by omega)
  have h1 : i % (M : Int) < (M : Int) := Int.emod_lt_of_pos _ (by omega)
  have hm : ((i % (M:Int)).toNat % M) = (i % (M:Int)).toNat := Nat.mod_eq_of_lt (by omega)
  rw [hm]
  by_cases hi : 0 ≤ i
  · have : i % (M : Int) = i := Int.emod_eq_of_lt hi (by omega)
    rw [this]; split <;> omega
  · have : i % (M : Int) = i + M := by
      have := Int.emod_emod_of_dvd i (Int.dvd_refl (M:Int))
      have h2 : (i + (M:Int)) % (M:Int) = i % (M:Int) := by simp
      rw [← h2]; exact Int.emod_eq_of_lt (by omega) (by omega)
    rw [this]; split <;> omega

theorem inS_toS (w : Nat) (hw : 0 < w) (n : Nat) : inS w (toS w n) := by
  unfold inS toS
  have hp := pow256_pos w
  have he := pow256_even w hw
  have : n % 256 ^ w < 256 ^ w := Nat.mod_lt _ hp
  generalize 256 ^ w = M at *
  generalize n % M = k at *
  split <;> omega

theorem toU_toS (w : Nat) (hw : 0 < w) (n : Nat) : toU w (toS w n) = n % 256 ^ w := by
  unfold toU toS
  have hp := pow256_pos w
  have he := pow256_even w hw
  have hk : n % 256 ^ w < 256 ^ w := Nat.mod_lt _ hp
  generalize 256 ^ w = M at *
  generalize n % M = k at *
  split
  · have : (k : Int) % (M : Int) = k := Int.emod_eq_of_lt (by omega) (by omega)
    rw [this]; omega
  · have h2 : ((k : Int) - (M:Int)) % (M:Int) = (k:Int) % (M:Int) := by simp
    rw [h2]
    have : (k : Int) % (M : Int) = k := Int.emod_eq_of_lt (by omega) (by omega)
    rw [this]; omega

end Pilota
