import PilotaModel.Lemmas.PbScalar
/-
  Repeated and packed forms of the scalar modules.
-/
namespace Pilota.Proto
open Pilota

namespace Codec

theorem encVar_pos (n : Nat) : 0 < (encVar n).length := by rw [encVar_length]; exact varLen_pos n

theorem encPayload_pos (c : Codec) (v : SVal) (hn : c.isNumeric = true) : 0 < (c.encPayload v).length := by
  unfold encPayload
  cases hs : c.shape with
  | varint => exact encVar_pos _
  | fixed w =>
    simp only [natToLE_length]
    cases c <;> simp [shape] at hs <;> omega
  | lenDelim => simp [isNumeric, hs] at hn

def allOk (c : Codec) (vs : List SVal) : Prop := ∀ v ∈ vs, c.ok v = true ∧ lenOk v

/-- the loop of `merge_loop` over the payloads of a packed run. -/
theorem mergeLoopGo_packed (c : Codec) (hn : c.isNumeric = true) (vs : List SVal) (hv : allOk c vs) (r : Bytes) :
    ∀ (acc : List SVal) (f : Nat), vs.length < f →
    mergeLoopGo c.packedStep f acc (vs.flatMap c.encPayload ++ r) r.length
      = .ok (acc ++ vs, r) := by
  induction vs with
  | nil =>
    intro acc f hf
    cases f with
    | zero => omega
    | succ f => simp [mergeLoopGo]
  | cons v vs ih =>
    intro acc f hf
    cases f with
    | zero => omega
    | succ f =>
      have hp := encPayload_pos c v hn
      have hgt : (List.flatMap c.encPayload (v :: vs) ++ r).length > r.length := by
        simp only [List.flatMap_cons, List.length_append]; omega
      unfold mergeLoopGo
      simp only [hgt, if_true]
      have hv1 := hv v (by simp)
      simp only [packedStep, List.flatMap_cons, List.append_assoc, merge_enc c v hv1.1 hv1.2]
      rw [ih (fun x hx => hv x (by simp [hx])) (acc ++ [v]) f (by simp at hf; omega)]
      simp

theorem flatMap_payload_length (c : Codec) (vs : List SVal) (hv : ∀ v ∈ vs, lenOk v) :
    (vs.flatMap c.encPayload).length = c.payloadLenSum vs := by
  induction vs with
  | nil => rfl
  | cons v vs ih =>
    simp only [List.flatMap_cons, List.length_append, payloadLenSum, List.map_cons, List.sum_cons]
    rw [payloadLen_eq c v (hv v (by simp)), ih (fun x hx => hv x (by simp [hx]))]
    rfl

theorem flatMap_payload_ge (c : Codec) (hn : c.isNumeric = true) (vs : List SVal) :
    vs.length ≤ (vs.flatMap c.encPayload).length := by
  induction vs with
  | nil => simp
  | cons v vs ih =>
    have := encPayload_pos c v hn
    simp only [List.flatMap_cons, List.length_append, List.length_cons]; omega

/-- a packed run is read back by `merge_repeated` with wire type `LengthDelimited`. -/
theorem mergeRepeated_packed (c : Codec) (hn : c.isNumeric = true) (vs : List SVal) (hv : allOk c vs)
    (hlen : c.payloadLenSum vs < 2 ^ 64) (acc : List SVal) (r : Bytes) :
    c.mergeRepeated .len acc (encodeVarint (c.payloadLenSum vs) ++ (vs.flatMap c.encPayload ++ r)) = .ok (acc ++ vs, r) := by
  unfold mergeRepeated mergeLoop
  simp only [hn, Bool.true_and, decide_true, if_true]
  rw [decodeVarint_encode _ hlen]
  have hl := flatMap_payload_length c vs (fun v h => (hv v h).2)
  have hle : ¬ c.payloadLenSum vs > (vs.flatMap c.encPayload ++ r).length := by
    simp only [List.length_append]; omega
  simp only [hle, if_false]
  have hlim : (vs.flatMap c.encPayload ++ r).length - c.payloadLenSum vs = r.length := by
    simp only [List.length_append]; omega
  rw [hlim]
  apply mergeLoopGo_packed c hn vs hv r acc
  have := flatMap_payload_ge c hn vs
  simp only [List.length_append]; omega

/-- one unpacked element. -/
theorem mergeRepeated_one (c : Codec) (v : SVal) (hv : c.ok v = true) (hl : lenOk v) (acc : List SVal) (r : Bytes) :
    c.mergeRepeated c.wt acc (c.encPayload v ++ r) = .ok (acc ++ [v], r) := by
  unfold mergeRepeated
  by_cases h : (c.isNumeric && decide (c.wt = .len)) = true
  · exfalso
    simp only [Bool.and_eq_true, decide_eq_true_eq] at h
    obtain ⟨h1, h2⟩ := h
    cases c <;> simp [isNumeric, shape] at h1 <;> simp [wt, shape] at h2
  · simp only [h]
    simp [checkWireType, merge_enc c v hv hl r]

theorem encodeRepeated_cons (c : Codec) (tag : Nat) (v : SVal) (vs : List SVal) :
    c.encodeRepeated tag (v :: vs) = c.encode tag v ++ c.encodeRepeated tag vs := by
  simp [encodeRepeated]

theorem encode_pos (c : Codec) (tag : Nat) (v : SVal) : 0 < (c.encode tag v).length := by
  unfold encode keyBytes encodeVarint
  have := encVar_pos (tag * 8 + c.wt.code)
  simp only [List.length_append]; omega

/-- the unpacked repeated form, read back by the `Message::merge` loop. -/
theorem mergeAll_repeated (c : Codec) (tag : Nat) (h1 : minTag ≤ tag) (h2 : tag ≤ maxTag) (vs : List SVal) (hv : allOk c vs) :
    ∀ (acc : List SVal) (f : Nat), vs.length < f → c.mergeAll f acc (c.encodeRepeated tag vs) = .ok (acc ++ vs) := by
  induction vs with
  | nil =>
    intro acc f hf
    cases f with
    | zero => omega
    | succ f => simp [mergeAll, encodeRepeated]
  | cons v vs ih =>
    intro acc f hf
    cases f with
    | zero => omega
    | succ f =>
      have hv1 := hv v (by simp)
      have hne : (c.encodeRepeated tag (v :: vs)).isEmpty = false := by
        rw [encodeRepeated_cons]
        have := encode_pos c tag v
        cases h : c.encode tag v with
        | nil => simp [h] at this
        | cons a b => simp
      unfold mergeAll
      simp only [hne, Bool.false_eq_true, if_false]
      rw [encodeRepeated_cons, (field_rt c tag h1 h2 v hv1.1 hv1.2 _).1]
      simp only [mergeRepeated_one c v hv1.1 hv1.2]
      rw [ih (fun x hx => hv x (by simp [hx])) (acc ++ [v]) f (by simp at hf; omega)]
      simp

/-- the packed form, read back by the `Message::merge` loop. -/
theorem mergeAll_packed (c : Codec) (hn : c.isNumeric = true) (tag : Nat) (h1 : minTag ≤ tag) (h2 : tag ≤ maxTag)
    (vs : List SVal) (hv : allOk c vs) (hlen : c.payloadLenSum vs < 2 ^ 64) (f : Nat) (hf : 2 ≤ f) :
    c.mergeAll f [] (c.encodePacked tag vs) = .ok vs := by
  unfold encodePacked
  cases vs with
  | nil =>
    cases f with
    | zero => omega
    | succ f => simp [mergeAll]
  | cons v vs =>
    obtain ⟨f, rfl⟩ : ∃ g, f = g + 2 := ⟨f - 2, by omega⟩
    simp only [List.isEmpty_cons, Bool.false_eq_true, if_false]
    unfold mergeAll
    have hne : (keyBytes tag .len ++ encodeVarint (c.payloadLenSum (v :: vs)) ++ List.flatMap c.encPayload (v :: vs)).isEmpty = false := by
      have := encVar_pos (tag * 8 + WireType.len.code)
      unfold keyBytes encodeVarint
      cases h : encVar (tag * 8 + WireType.len.code) with
      | nil => simp [h] at this
      | cons a b => simp
    simp only [hne, Bool.false_eq_true, if_false]
    rw [List.append_assoc, decodeKey_keyBytes tag .len h1 h2]
    have := mergeRepeated_packed c hn (v :: vs) hv hlen [] []
    simp only [List.append_nil, List.nil_append] at this
    simp only [this]
    simp [mergeAll]

theorem encodedLenRepeated_eq (c : Codec) (tag : Nat) (h1 : minTag ≤ tag) (h2 : tag ≤ maxTag) (vs : List SVal)
    (hv : ∀ v ∈ vs, lenOk v) : c.encodedLenRepeated tag vs = (c.encodeRepeated tag vs).length := by
  induction vs with
  | nil => simp [encodedLenRepeated, encodeRepeated, payloadLenSum]; split <;> simp
  | cons v vs ih =>
    have ih := ih (fun x hx => hv x (by simp [hx]))
    have e := encodedLen_eq c tag h1 h2 v (hv v (by simp))
    rw [encodeRepeated_cons, List.length_append, ← ih, ← e]
    unfold encodedLenRepeated encodedLen payloadLenSum
    cases hs : c.shape with
    | varint => simp [Nat.mul_add]; omega
    | fixed w => simp [payloadLen, hs, Nat.mul_add]; omega
    | lenDelim => simp [Nat.mul_add]; omega

theorem payloadLenSum_fixed (c : Codec) (w : Nat) (hs : c.shape = .fixed w) (vs : List SVal) :
    c.payloadLenSum vs = w * vs.length := by
  induction vs with
  | nil => simp [payloadLenSum]
  | cons v vs ih =>
    simp only [payloadLenSum, List.map_cons, List.sum_cons, List.length_cons] at *
    rw [ih]; simp [payloadLen, hs, Nat.mul_add]; omega

theorem encodedLenPacked_eq (c : Codec) (tag : Nat) (h1 : minTag ≤ tag) (h2 : tag ≤ maxTag) (vs : List SVal)
    (hv : ∀ v ∈ vs, lenOk v) (hlen : c.payloadLenSum vs < 2 ^ 64) :
    c.encodedLenPacked tag vs = (c.encodePacked tag vs).length := by
  unfold encodedLenPacked encodePacked
  split
  · rfl
  · have hl := flatMap_payload_length c vs hv
    have hk := keyLen_eq tag .len h1 h2
    have hev := encodedLenVarint_eq _ hlen
    cases hs : c.shape with
    | fixed w =>
      have hf := payloadLenSum_fixed c w hs vs
      simp only [List.length_append, hl, encodeVarint, encVar_length]
      rw [hf] at hev ⊢
      omega
    | varint =>
      simp only [List.length_append, hl, encodeVarint, encVar_length]
      omega
    | lenDelim =>
      simp only [List.length_append, hl, encodeVarint, encVar_length]
      omega

end Codec
end Pilota.Proto
