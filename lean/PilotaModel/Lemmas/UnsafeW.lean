import PilotaModel.Lemmas.LenSim
import PilotaModel.Thrift.Unsafe
/-  The unchecked writers stay inside their window and write what the checked writer writes. -/
namespace Pilota.Thrift.Unsafe
open Pilota Pilota.Thrift

/-- `w'` extends `w` by `out`: index moved by `out.length`, the window kept its size, the bytes
below the index are the old ones followed by `out`, nothing at or above the new index changed. -/
structure Ext (w w' : Win) (out : Bytes) : Prop where
  idx : w'.idx = w.idx + out.length
  len : w'.mem.length = w.mem.length
  wr : w'.mem.take w'.idx = w.mem.take w.idx ++ out
  tail : w'.mem.drop w'.idx = w.mem.drop w'.idx

theorem Ext.refl (w : Win) : Ext w w [] := ⟨by simp, rfl, by simp, rfl⟩

theorem Ext.trans {w w' w'' : Win} {a b : Bytes} (h1 : Ext w w' a) (h2 : Ext w' w'' b) : Ext w w'' (a ++ b) := by
  refine ⟨by rw [h2.idx, h1.idx]; simp; omega, by rw [h2.len, h1.len], by rw [h2.wr, h1.wr]; simp, ?_⟩
  have hge : w'.idx ≤ w''.idx := by rw [h2.idx]; omega
  have e : w''.idx = w'.idx + (w''.idx - w'.idx) := by omega
  rw [h2.tail, e, ← List.drop_drop, h1.tail, List.drop_drop]

theorem take_app3 (a b c : Bytes) : (a ++ b ++ c).take (a.length + b.length) = a ++ b := by
  rw [← List.length_append]; exact List.take_left' rfl
theorem drop_app3 (a b c : Bytes) : (a ++ b ++ c).drop (a.length + b.length) = c := by
  rw [← List.length_append]; exact List.drop_left' rfl
theorem take_app3' (a b c : Bytes) : (a ++ b ++ c).take a.length = a := by
  rw [List.append_assoc]; simp

theorem poke_ok (mem : Bytes) (pos : Nat) (bs : Bytes) (h : pos + bs.length ≤ mem.length) :
    ∃ m, poke mem pos bs = .ok m ∧ m.length = mem.length ∧ m.take pos = mem.take pos ∧
      m.take (pos + bs.length) = mem.take pos ++ bs ∧ m.drop (pos + bs.length) = mem.drop (pos + bs.length) := by
  have hp : (mem.take pos).length = pos := by simp; omega
  refine ⟨mem.take pos ++ bs ++ mem.drop (pos + bs.length), by simp [poke, h], ?_, ?_, ?_, ?_⟩
  · simp; omega
  · have := take_app3' (mem.take pos) bs (mem.drop (pos + bs.length))
    rw [hp] at this; exact this
  · have := take_app3 (mem.take pos) bs (mem.drop (pos + bs.length))
    rw [hp] at this; exact this
  · have := drop_app3 (mem.take pos) bs (mem.drop (pos + bs.length))
    rw [hp] at this; exact this

theorem put_ok (w : Win) (bs : Bytes) (h : w.idx + bs.length ≤ w.cap) :
    ∃ w', put w bs = .ok w' ∧ Ext w w' bs := by
  obtain ⟨m, hm, hl, _, ht, hd⟩ := poke_ok w.mem w.idx bs h
  exact ⟨{ mem := m, idx := w.idx + bs.length }, by simp [put, hm], ⟨rfl, hl, ht, hd⟩⟩

theorem put_oob (w : Win) (bs : Bytes) (h : w.cap < w.idx + bs.length) : put w bs = .panic "oob" := by
  have : ¬ (w.idx + bs.length ≤ w.mem.length) := by unfold Win.cap at h; omega
  simp [put, poke, this]

theorem putAll_ok (cs : List Bytes) (w : Win) (h : w.idx + (cs.map List.length).sum ≤ w.cap) :
    ∃ w', putAll w cs = .ok w' ∧ Ext w w' cs.flatten := by
  induction cs generalizing w with
  | nil => exact ⟨w, rfl, Ext.refl w⟩
  | cons c cs ih =>
    simp only [List.map_cons, List.sum_cons] at h
    obtain ⟨w1, h1, e1⟩ := put_ok w c (by omega)
    have hc : w1.cap = w.cap := e1.len
    obtain ⟨w2, h2, e2⟩ := ih w1 (by rw [e1.idx, hc]; omega)
    exact ⟨w2, by simp [putAll, h1, h2], by simpa using e1.trans e2⟩

theorem be_length (w : Nat) (n : Int) : (be w n).length = w := by simp [be, Binary.i]

theorem fieldBegin_ok (w : Win) (t : TType) (id : Int) (h : w.idx + 3 ≤ w.cap) :
    ∃ w', fieldBegin w t id = .ok w' ∧ Ext w w' (UInt8.ofNat t.toByte :: be 2 id) := by
  unfold Win.cap at h
  obtain ⟨m1, hm1, hl1, hk1, ht1, hd1⟩ := poke_ok w.mem w.idx [UInt8.ofNat t.toByte] (by simp; omega)
  obtain ⟨m2, hm2, hl2, hk2, ht2, hd2⟩ := poke_ok m1 (w.idx + 1) (be 2 id) (by simp [be_length]; omega)
  refine ⟨{ mem := m2, idx := w.idx + 3 }, by simp [fieldBegin, hm1, hm2], ⟨by simp [be_length], by rw [hl2, hl1], ?_, ?_⟩⟩
  · simp only [be_length, List.length_cons, List.length_nil] at ht1 ht2 hd2 hd1 ⊢
    have : w.idx + 1 + 2 = w.idx + 3 := by omega
    rw [this] at ht2
    rw [ht2, ht1]; simp
  · simp only [be_length, List.length_cons, List.length_nil] at hd2 hd1 ⊢
    have e : w.idx + 1 + 2 = w.idx + 3 := by omega
    rw [e] at hd2
    show m2.drop (w.idx + 3) = w.mem.drop (w.idx + 3)
    rw [hd2]
    have e2 : w.idx + 3 = (w.idx + 0 + 1) + 2 := by omega
    rw [e2, ← List.drop_drop, hd1, List.drop_drop]

theorem chunks_flatten (o : Op) : (chunks o).flatten = Binary.wOp .be o := by
  cases o <;> simp [chunks, Binary.wOp, be]

theorem chunks_sum (o : Op) (hwf : o.wf = true) : ((chunks o).map List.length).sum = Len.binOp o := by
  cases o <;> simp [Op.wf] at hwf <;> simp [chunks, Len.binOp, be_length] <;> omega

/-- one call of the BytesMut-backed unchecked writer, with room for it. -/
theorem uwOp_ok (w : Win) (o : Op) (hwf : o.wf = true) (h : w.idx + Len.binOp o ≤ w.cap) :
    ∃ w', uwOp w o = .ok w' ∧ Ext w w' (Binary.wOp .be o) := by
  by_cases hf : ∃ t id, o = .fieldBegin t id
  · obtain ⟨t, id, rfl⟩ := hf
    simpa [uwOp, Binary.wOp, be] using fieldBegin_ok w t id (by simpa [Len.binOp] using h)
  · have hu : uwOp w o = putAll w (chunks o) := by
      cases o <;> first | rfl | (exfalso; exact hf ⟨_, _, rfl⟩)
    rw [hu, ← chunks_flatten]
    exact putAll_ok _ w (by rw [chunks_sum o hwf]; exact h)

theorem uwRun_ok (ops : List Op) (hwf : ∀ o ∈ ops, o.wf = true) (w : Win) (h : w.idx + Len.binLen ops ≤ w.cap) :
    ∃ w', uwRun w ops = .ok w' ∧ Ext w w' (Binary.run .be ops) := by
  induction ops generalizing w with
  | nil => exact ⟨w, rfl, by simpa [Binary.run] using Ext.refl w⟩
  | cons o os ih =>
    simp only [Len.binLen, List.map_cons, List.sum_cons] at h
    obtain ⟨w1, h1, e1⟩ := uwOp_ok w o (hwf o (by simp)) (by omega)
    have hlen := Len.binOp_eq .be o (hwf o (by simp))
    obtain ⟨w2, h2, e2⟩ := ih (fun o ho => hwf o (by simp [ho])) w1 (by
      have : w1.cap = w.cap := e1.len
      rw [e1.idx, this, ← hlen]; simp only [Len.binLen]; omega)
    refine ⟨w2, by simp [uwRun, h1, h2], ?_⟩
    have := e1.trans e2
    simpa [Binary.run] using this

/-! ### LinkedBytes-backed writer -/

/-- the window lies inside the transport's spare capacity. -/
def LW.inv (s : LW) : Prop := s.win.cap ≤ s.spare

def LW.avail (s : LW) : Nat := s.win.cap - s.win.idx

theorem advanceMut_ok (s : LW) (hi : s.inv) (hx : s.win.idx ≤ s.win.cap) :
    ∃ s', advanceMut s s.win.idx = .ok s' ∧ s'.out = s.out ∧ s'.inv ∧ s'.win.idx = 0 ∧ s'.avail = s.avail ∧
      s'.zlen = s.zlen ∧ s'.nodes = s.nodes ∧ s'.spare + s.win.idx = s.spare ∧ s'.win.cap + s.win.idx = s.win.cap := by
  unfold LW.inv Win.cap at *
  have h1 : ¬ s.spare < s.win.idx := by omega
  have h2 : ¬ s.win.mem.length < s.win.idx := by omega
  refine ⟨{ s with cur := s.cur ++ s.win.mem.take s.win.idx, spare := s.spare - s.win.idx,
                    win := { mem := s.win.mem.drop s.win.idx, idx := s.win.idx - s.win.idx } },
    by simp [advanceMut, h1, h2], ?_, ?_, ?_, ?_, rfl, rfl, ?_, ?_⟩
  · simp [LW.out, Win.written]
  · simp only [LW.inv, Win.cap, List.length_drop]; omega
  · simp
  · simp only [LW.avail, Win.cap, List.length_drop]; omega
  · simp only; omega
  · simp only [Win.cap, List.length_drop]; omega

theorem resize_length (mem : Bytes) (n : Nat) : (resize mem n).length = n := by
  simp [resize]; omega


/-- what one step of the LinkedBytes-backed writer guarantees. -/
structure LStep (s s' : LW) (out : Bytes) (copied z : Nat) : Prop where
  out : s'.out = s.out ++ out
  inv : s'.inv
  ok : s'.win.idx ≤ s'.win.cap
  avail : s.avail ≤ s'.avail + copied
  zlen : s'.zlen = s.zlen + z

theorem LStep.refl (s : LW) (hi : s.inv) (hx : s.win.idx ≤ s.win.cap) : LStep s s [] 0 0 :=
  ⟨by simp, hi, hx, by omega, rfl⟩

theorem LStep.trans {s s' s'' : LW} {a b : Bytes} {c1 c2 z1 z2 : Nat}
    (h1 : LStep s s' a c1 z1) (h2 : LStep s' s'' b c2 z2) : LStep s s'' (a ++ b) (c1 + c2) (z1 + z2) :=
  ⟨by rw [h2.out, h1.out]; simp, h2.inv, h2.ok, by have := h1.avail; have := h2.avail; omega,
   by rw [h2.zlen, h1.zlen]; omega⟩

theorem setWin_step (s : LW) (hi : s.inv) (w' : Win) (out : Bytes) (e : Ext s.win w' out)
    (hroom : s.win.idx + out.length ≤ s.win.cap) (z : Nat) :
    LStep s { s with win := w', zlen := s.zlen + z } out out.length z := by
  refine ⟨?_, ?_, ?_, ?_, rfl⟩
  · simp [LW.out, Win.written, e.wr]
  · simp only [LW.inv, Win.cap, e.len]; exact hi
  · simp only [Win.cap, e.len, e.idx]; exact hroom
  · simp only [LW.avail, Win.cap, e.len, e.idx]; omega

theorem adv_step (s : LW) (hi : s.inv) (hx : s.win.idx ≤ s.win.cap) :
    ∃ s', advanceMut s s.win.idx = .ok s' ∧ LStep s s' [] 0 0 ∧ s'.win.idx = 0 ∧ s'.win.cap ≤ s'.spare := by
  obtain ⟨s', h, ho, hinv, hidx, hav, hz, _, _, _⟩ := advanceMut_ok s hi hx
  exact ⟨s', h, ⟨by simp [ho], hinv, by omega, by omega, by simp [hz]⟩, hidx, hinv⟩

theorem insertZc_step (s : LW) (hi : s.inv) (h0 : s.win.idx = 0) (payload : Bytes) :
    LStep s (insertZc s payload) payload 0 0 := by
  refine ⟨?_, ?_, ?_, ?_, rfl⟩
  · simp [insertZc, LW.out, Win.written, h0]
  · simp [insertZc, LW.inv, Win.cap, resize_length]
  · simp [insertZc, h0]
  · simp only [insertZc, LW.avail, Win.cap, resize_length, h0]
    unfold LW.inv Win.cap at hi; omega

theorem put_step (s : LW) (hi : s.inv) (hx : s.win.idx ≤ s.win.cap) (bs : Bytes) (h : bs.length ≤ s.avail) :
    ∃ s', liftW s (put s.win bs) = .ok s' ∧ LStep s s' bs bs.length 0 := by
  have hroom : s.win.idx + bs.length ≤ s.win.cap := by unfold LW.avail at h; omega
  obtain ⟨w, hw, e⟩ := put_ok s.win bs hroom
  have st := setWin_step s hi w _ e hroom 0
  exact ⟨{ s with win := w }, by simp [liftW, hw], by simpa using st⟩

theorem strWrite_ok (takes : Bool) (s : LW) (bs : Bytes) (hi : s.inv) (hx : s.win.idx ≤ s.win.cap)
    (h : (if takes then 4 else 4 + bs.length) ≤ s.avail) :
    ∃ s', strWrite takes s bs = .ok s' ∧
      LStep s s' (be 4 (toS 4 bs.length) ++ bs) (if takes then 4 else 4 + bs.length) (if takes then bs.length else 0) := by
  have hroom : ∀ n, n ≤ s.avail → s.win.idx + n ≤ s.win.cap := by intro n hn; unfold LW.avail at hn; omega
  have hpre : (be 4 (toS 4 bs.length)).length = 4 := be_length _ _
  cases takes with
  | true =>
    simp only [if_true] at h ⊢
    obtain ⟨w, hw, e⟩ := put_ok s.win (be 4 (toS 4 bs.length)) (by rw [hpre]; exact hroom _ h)
    have st1 := setWin_step s hi w _ e (by rw [hpre]; exact hroom _ h) bs.length
    obtain ⟨s2, h2, st2, h20, _⟩ := adv_step { s with win := w, zlen := s.zlen + bs.length } st1.inv st1.ok
    have st3 := insertZc_step s2 st2.inv h20 bs
    refine ⟨insertZc s2 bs, ?_, ?_⟩
    · simp only [strWrite, hw, if_true]
      have : advanceMut { s with win := w, zlen := s.zlen + bs.length } w.idx = .ok s2 := h2
      simp [this]
    · have := (st1.trans st2).trans st3
      simpa [hpre] using this
  | false =>
    simp only [Bool.false_eq_true, if_false] at h ⊢
    obtain ⟨w, hw, e⟩ := put_ok s.win (be 4 (toS 4 bs.length)) (by rw [hpre]; have := hroom _ h; omega)
    have st1 := setWin_step s hi w _ e (by rw [hpre]; have := hroom _ h; omega) 0
    have hav1 : bs.length ≤ ({ s with win := w, zlen := s.zlen + 0 } : LW).avail := by
      simp only [LW.avail, Win.cap, e.len, e.idx, hpre]
      unfold LW.avail Win.cap at h
      omega
    obtain ⟨s2, h2, st2⟩ := put_step { s with win := w, zlen := s.zlen + 0 } st1.inv st1.ok bs hav1
    refine ⟨s2, ?_, ?_⟩
    · simp only [strWrite, hw, Bool.false_eq_true, if_false]
      simpa [liftW] using h2
    · have := st1.trans st2
      simpa [hpre] using this

open Linked in
theorem ulwOp_ok (zc : Bool) (thr : Nat) (api : StrApi) (s : LW) (o : Op) (hwf : o.wf = true)
    (hi : s.inv) (hx : s.win.idx ≤ s.win.cap) (h : copyLen zc thr api o ≤ s.avail) :
    ∃ s', ulwOp zc thr api s o = .ok s' ∧ LStep s s' (Binary.wOp .be o) (copyLen zc thr api o) (zcLen zc thr api o) := by
  have hroom : ∀ n, n ≤ s.avail → s.win.idx + n ≤ s.win.cap := by intro n hn; unfold LW.avail at hn; omega
  by_cases hf : ∃ t id, o = .fieldBegin t id
  · obtain ⟨t, id, rfl⟩ := hf
    simp only [copyLen, Len.binOp] at h
    obtain ⟨w, hw, e⟩ := fieldBegin_ok s.win t id (hroom _ h)
    have st1 := setWin_step s hi w _ e (by simpa [be_length] using hroom _ h) 0
    obtain ⟨s2, h2, st2, _, _⟩ := adv_step { s with win := w, zlen := s.zlen + 0 } st1.inv st1.ok
    refine ⟨s2, by simpa [ulwOp, hw] using h2, ?_⟩
    have := st1.trans st2
    simpa [Binary.wOp, be, be_length, copyLen, Len.binOp, zcLen, Binary.i] using this
  by_cases hm : ∃ name mt seq, o = .msgBegin name mt seq
  · obtain ⟨name, mt, seq, rfl⟩ := hm
    simp only [copyLen] at h
    generalize htk : takesZc false zc thr StrApi.faststr name.length = takes at h
    have hv : (encFixed .be 4 ((0x80010000 ||| mt) % 2 ^ 32)).length = 4 := encFixed_length _ _ _
    obtain ⟨s1, h1, st1⟩ := put_step s hi hx (encFixed .be 4 ((0x80010000 ||| mt) % 2 ^ 32)) (by rw [hv]; omega)
    obtain ⟨s2, h2, st2⟩ := strWrite_ok takes s1 name st1.inv st1.ok (by have := st1.avail; rw [hv] at this; omega)
    obtain ⟨s3, h3, st3⟩ := put_step s2 st2.inv st2.ok (be 4 seq) (by
      have a := st1.avail; have b := st2.avail; rw [hv] at a; rw [be_length]; omega)
    obtain ⟨s4, h4, st4, _, _⟩ := adv_step s3 st3.inv st3.ok
    refine ⟨s4, ?_, ?_⟩
    · simp only [ulwOp, htk, h1, h2, h3]; exact h4
    · have := ((st1.trans st2).trans st3).trans st4
      simp only [hv, be_length] at this
      simpa [Binary.wOp, be, copyLen, zcLen, htk, List.append_assoc] using this
  by_cases hb : ∃ bs, o = .bytes bs
  · obtain ⟨bs, rfl⟩ := hb
    simp only [copyLen] at h
    obtain ⟨s', h1, st⟩ := strWrite_ok (takesZc false zc thr api bs.length) s bs hi hx h
    exact ⟨s', by simpa [ulwOp] using h1, by simpa [copyLen, zcLen, Binary.wOp, be] using st⟩
  · have hu : ulwOp zc thr api s o = liftW s (putAll s.win (chunks o)) := by
      cases o <;> first | rfl | (exfalso; exact hf ⟨_, _, rfl⟩) | (exfalso; exact hm ⟨_, _, _, rfl⟩) | (exfalso; exact hb ⟨_, rfl⟩)
    have hc : copyLen zc thr api o = Len.binOp o := by
      cases o <;> first | rfl | (exfalso; exact hb ⟨_, rfl⟩) | (exfalso; exact hm ⟨_, _, _, rfl⟩)
    have hzz : zcLen zc thr api o = 0 := by
      cases o <;> first | rfl | (exfalso; exact hb ⟨_, rfl⟩) | (exfalso; exact hm ⟨_, _, _, rfl⟩)
    rw [hc] at h
    obtain ⟨w, hw, e⟩ := putAll_ok (chunks o) s.win (by rw [chunks_sum o hwf]; exact hroom _ h)
    rw [chunks_flatten] at e
    have hl := Len.binOp_eq .be o hwf
    have st1 := setWin_step s hi w _ e (by rw [← hl]; exact hroom _ h) 0
    refine ⟨{ s with win := w }, by simp [hu, hw, liftW], ?_⟩
    simpa [hc, hzz, ← hl] using st1

open Linked in
theorem ulwRun_ok (zc : Bool) (thr : Nat) (api : StrApi) (ops : List Op) (hwf : ∀ o ∈ ops, o.wf = true) (s : LW)
    (hi : s.inv) (hx : s.win.idx ≤ s.win.cap) (h : copyLenAll zc thr api ops ≤ s.avail) :
    ∃ s', ulwRun zc thr api s ops = .ok s' ∧
      LStep s s' (Binary.run .be ops) (copyLenAll zc thr api ops) ((ops.map (zcLen zc thr api)).sum) := by
  induction ops generalizing s with
  | nil => exact ⟨s, rfl, by simpa [Binary.run, copyLenAll] using LStep.refl s hi hx⟩
  | cons o os ih =>
    simp only [copyLenAll, List.map_cons, List.sum_cons] at h
    obtain ⟨s1, h1, st1⟩ := ulwOp_ok zc thr api s o (hwf o (by simp)) hi hx (by omega)
    obtain ⟨s2, h2, st2⟩ := ih (fun o ho => hwf o (by simp [ho])) s1 st1.inv st1.ok (by
      have := st1.avail; simp only [copyLenAll]; omega)
    refine ⟨s2, by simp [ulwRun, h1, h2], ?_⟩
    have := st1.trans st2
    simpa [Binary.run, copyLenAll] using this

end Pilota.Thrift.Unsafe
