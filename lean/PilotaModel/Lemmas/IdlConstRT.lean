import PilotaModel.Lemmas.IdlConst2
/-
  C15: `const_rt` — constant values are read back from every rendering (recursion through list and
  map literals by well-founded recursion on the value).
-/
namespace Pilota.Idl

theorem elemFollow_close {c : Char} (hc : c = ']' ∨ c = '}') (R : List Char) : ElemFollow (c :: R) ∧ Sep (c :: R) := by
  rcases hc with h | h <;> subst h <;> exact ⟨⟨by rw [NB, hdP_cons]; decide, by rw [NoSepStart, hdP_cons]; decide,
    fun b hb => pathStop_of hb (by rw [NB, hdP_cons]; decide) (by rw [hdP_cons]; decide)⟩, by rw [Sep, hdP_cons]; decide⟩

theorem const_rt : (c : ConstValue) → c.wf = true → c.supported = true → (d : Nat) → c.depth < d → (l : Layout) →
    (r : List Char) → ConstFollow c r → ConstValue.parse d ((rConst c l).1 ++ r) = .ok c r
  | .string t, hw, _, d + 1, _, l, r, _ => by
    simp only [ConstValue.wf] at hw
    unfold ConstValue.parse
    exact alt_cons_of_ok (pmap_of_ok (by simp only [rConst]; exact rLiteral_rt hw l r))
  | .bool true, _, _, d + 1, _, l, r, hf => by
    simp only [rConst, rLit_fst, if_true]
    unfold ConstValue.parse
    rw [alt_cons_of_err (pmap_of_err (literal_err_hd (by simp [hdP])))]
    exact alt_cons_of_ok (keyword_rt hf)
  | .bool false, _, _, d + 1, _, l, r, hf => by
    simp only [rConst, rLit_fst, Bool.false_eq_true, if_false]
    unfold ConstValue.parse
    rw [alt_cons_of_err (pmap_of_err (literal_err_hd (by simp [hdP]))),
      alt_cons_of_err (kw_err_of (by simp [stripPrefix]))]
    exact alt_cons_of_ok (keyword_rt hf)
  | .path p, hw, _, d + 1, _, l, r, hf => by
    simp only [ConstValue.wf, Bool.and_eq_true, bne_iff_ne, ne_eq] at hw
    obtain ⟨s, rest, hs, hhead, e, hrest⟩ := rPath_cons hw.1.1 l
    have hr' := hrest r hf.1
    have hpath := path_rt hw.1.1 l hf.1 hf.2
    simp only [rConst] at hpath ⊢
    rw [e, List.append_assoc] at hpath ⊢
    obtain ⟨c0, cs, rfl, hc0, _⟩ := identOk_cons hs
    have hlit : Literal.parse (c0 :: cs ++ (rest ++ r)) = .err :=
      literal_err_hd (by
        simp only [List.cons_append, hdP_cons, Bool.and_eq_true, bne_iff_ne, ne_eq]
        exact ⟨by intro e; subst e; revert hc0; decide, by intro e; subst e; revert hc0; decide⟩)
    unfold ConstValue.parse
    rw [alt_cons_of_err (pmap_of_err hlit),
      alt_cons_of_err (keyword_word_err (by decide) (identOk_all hs) hr' (by rw [← hhead]; exact hw.1.2)),
      alt_cons_of_err (keyword_word_err (by decide) (identOk_all hs) hr' (by rw [← hhead]; exact hw.2))]
    exact alt_cons_of_ok (pmap_of_ok hpath)
  | .int n, hw, _, d + 1, hd, l, r, hf => by
    simp only [ConstValue.wf] at hw
    simp only [rConst, rLit_fst]
    have hhead : ∃ c0 x, intText n ++ r = c0 :: x ∧ (isDecDigit c0 = true ∨ c0 = '-') := by
      unfold intText; split
      · exact ⟨'-', _, rfl, Or.inr rfl⟩
      · obtain ⟨c0, cs, e, hc⟩ := decDigits_head n.toNat
        exact ⟨c0, cs ++ r, by rw [e]; rfl, Or.inl hc⟩
    obtain ⟨c0, x, e, hc0⟩ := hhead
    have hne : ∀ y : Char, isDecDigit y = false → y ≠ '-' → y ≠ c0 := by
      intro y hy hy' e'; subst e'
      rcases hc0 with h | h
      · rw [h] at hy; cases hy
      · exact hy' h
    have hint : IntConstant.parse (intText n ++ r) = .ok n r := intConstant_rt hw hf
    have hdbl := double_err_int (n := n) hf
    unfold ConstValue.parse
    rw [e] at hint hdbl ⊢
    rw [alt_cons_of_err (pmap_of_err (literal_err_hd (by
        simp only [hdP_cons, Bool.and_eq_true, bne_iff_ne, ne_eq]
        exact ⟨fun h => hne _ (by decide) (by decide) h.symm, fun h => hne _ (by decide) (by decide) h.symm⟩))),
      alt_cons_of_err (show keyword _ _ _ = .err from andThen_of_err (tag_cons_ne (hne _ (by decide) (by decide)))),
      alt_cons_of_err (show keyword _ _ _ = .err from andThen_of_err (tag_cons_ne (hne _ (by decide) (by decide)))),
      alt_cons_of_err (pmap_of_err (path_err_hd (by
        simp only [hdP_cons, Bool.not_eq_true']
        rcases hc0 with h | h
        · cases hi : isIdentStart c0 with
          | false => rfl
          | true =>
            exfalso
            simp only [isIdentStart, Bool.or_eq_true, beq_iff_eq] at hi
            rcases hi with hi | hi
            · simp only [isDecDigit, Char.isDigit, Char.isAlpha, Char.isUpper, Char.isLower, Bool.and_eq_true,
                Bool.or_eq_true, decide_eq_true_eq] at h hi
              have h1 := UInt32.le_iff_toNat_le.mp h.1; have h2 := UInt32.le_iff_toNat_le.mp h.2
              rcases hi with ⟨a, b⟩ | ⟨a, b⟩ <;>
                (have a' := UInt32.le_iff_toNat_le.mp a; have b' := UInt32.le_iff_toNat_le.mp b; simp at h1 h2 a' b'; omega)
            · subst hi; revert h; decide
        · subst h; decide) (by simp))),
      alt_cons_of_err (pmap_of_err hdbl)]
    exact alt_cons_of_ok (pmap_of_ok hint)
  | .double t, hw, _, d + 1, hd, l, r, hf => by
    simp only [ConstValue.wf] at hw
    simp only [ConstValue.depth] at hd
    simp only [rConst, rLit_fst]
    obtain ⟨c0, x0, e, hc0⟩ := double_head hw
    have hdr := double_rt hw hf
    have hq : c0 ≠ '\'' ∧ c0 ≠ '"' ∧ c0 ≠ 't' ∧ c0 ≠ 'f' ∧ isIdentStart c0 = false := by
      rcases hc0 with h | h | h | h
      · subst h; decide
      · subst h; decide
      · subst h; decide
      · refine ⟨?_, ?_, ?_, ?_, ?_⟩
        · intro e'; subst e'; revert h; decide
        · intro e'; subst e'; revert h; decide
        · intro e'; subst e'; revert h; decide
        · intro e'; subst e'; revert h; decide
        · cases hi : isIdentStart c0 with
          | false => rfl
          | true =>
            exfalso
            simp only [isIdentStart, Bool.or_eq_true, beq_iff_eq] at hi
            rcases hi with hi | hi
            · simp only [isDecDigit, Char.isDigit, Char.isAlpha, Char.isUpper, Char.isLower, Bool.and_eq_true,
                Bool.or_eq_true, decide_eq_true_eq] at h hi
              have h1 := UInt32.le_iff_toNat_le.mp h.1; have h2 := UInt32.le_iff_toNat_le.mp h.2
              rcases hi with ⟨a, b⟩ | ⟨a, b⟩ <;>
                (have a' := UInt32.le_iff_toNat_le.mp a; have b' := UInt32.le_iff_toNat_le.mp b; simp at h1 h2 a' b'; omega)
            · subst hi; revert h; decide
    unfold ConstValue.parse
    rw [e] at hdr ⊢
    rw [List.cons_append] at hdr ⊢
    rw [alt_cons_of_err (pmap_of_err (literal_err_hd (by
        simp only [hdP_cons, Bool.and_eq_true, bne_iff_ne, ne_eq]; exact ⟨hq.1, hq.2.1⟩))),
      alt_cons_of_err (show keyword _ _ _ = .err from andThen_of_err (tag_cons_ne (Ne.symm hq.2.2.1))),
      alt_cons_of_err (show keyword _ _ _ = .err from andThen_of_err (tag_cons_ne (Ne.symm hq.2.2.2.1))),
      alt_cons_of_err (pmap_of_err (path_err_hd (by simp only [hdP_cons, hq.2.2.2.2]; rfl) (by simp)))]
    exact alt_cons_of_ok (pmap_of_ok hdr)
  | .list xs, hw, hs, d + 1, hd, l, r, _ => by
    simp only [ConstValue.wf] at hw
    simp only [ConstValue.supported] at hs
    simp only [ConstValue.depth] at hd
    obtain ⟨d', rfl⟩ : ∃ d', d = d' + 1 := ⟨d - 1, by omega⟩
    simp only [rConst, rSeq_fst, rSeq_snd, rLit_fst, rLit_snd, List.append_assoc]
    rw [rConstElems_slots]
    simp only [List.singleton_append]
    obtain ⟨e1, e2, e3, e4, e5⟩ := constArms_err_bracket '[' ((rB0 l).1 ++ ((rSlots rConstElem xs (rB0 l).2).1 ++ (']' :: r))) (by simp)
    unfold ConstValue.parse
    rw [alt_cons_of_err (pmap_of_err e1), alt_cons_of_err (e2 _ _ (Or.inl rfl)), alt_cons_of_err (e2 _ _ (Or.inr rfl)),
      alt_cons_of_err (pmap_of_err e3), alt_cons_of_err (pmap_of_err e4), alt_cons_of_err (pmap_of_err e5)]
    apply alt_cons_of_ok
    rw [andThen_of_ok (tag1 '[' _)]
    have hloop := many0F_slots
      (andThen (opt blank) fun _ => andThen (ConstValue.parse (d' + 1)) fun e => andThen (opt blank) fun _ =>
        andThen (opt listSeparator) fun _ => ret e)
      rConstElem Eq
      (fun x => x.wf = true ∧ x.supported = true ∧
        ∀ l r, ConstFollow x r → ConstValue.parse (d' + 1) ((rConst x l).1 ++ r) = .ok x r)
      BT ElemFollow ']'
      (by
        intro x last l bl R hx hbl hlast hmid
        have hR : ElemFollow R ∧ (last = true → Sep R) := by
          cases last with
          | true => obtain ⟨R', rfl⟩ := hlast rfl; exact ⟨(elemFollow_close (Or.inl rfl) R').1, fun _ => (elemFollow_close (Or.inl rfl) R').2⟩
          | false => exact ⟨hmid rfl, fun h => by cases h⟩
        refine ⟨x, [], rfl, BT.nil, ?_, ?_⟩
        · have := (rConst_start hx.1 hx.2.1 l ([] : List Char)).2
          simp only [rConstElem, rSeq_fst, List.length_append, List.length_nil]
          have : 0 < (rConst x l).1.length := List.length_pos_iff.mpr this
          omega
        · simpa using constElem_step hx.1 hx.2.1 hx.2.2 last l hbl hR.1 hR.2)
      (by
        intro y last l R hy
        simp only [rConstElem, rSeq_fst, List.append_assoc]
        exact elemFollow_of_start hy.1 hy.2.1 l _)
      (by
        intro bl R hbl
        rw [andThen_optBlank hbl (by rw [NB, hdP_cons]; decide)]
        obtain ⟨e1, e2, e3, e4, e5⟩ := constArms_err_bracket ']' R (by simp)
        apply andThen_of_err
        unfold ConstValue.parse
        rw [alt_cons_of_err (pmap_of_err e1), alt_cons_of_err (e2 _ _ (Or.inl rfl)), alt_cons_of_err (e2 _ _ (Or.inr rfl)),
          alt_cons_of_err (pmap_of_err e3), alt_cons_of_err (pmap_of_err e4), alt_cons_of_err (pmap_of_err e5),
          alt_cons_of_err (andThen_of_err (tag_cons_ne (by decide))),
          alt_cons_of_err (andThen_of_err (tag_cons_ne (by decide)))]
        rfl)
    obtain ⟨ys, bl', hys, hbl', hm⟩ := hloop xs (rB0 l).2 (rB0 l).1 _ r
      (fun x hx => ⟨wfList_mem hw hx, supportedList_mem hs hx,
        fun l r hf => const_rt x (wfList_mem hw hx) (supportedList_mem hs hx) (d' + 1)
          (by have := depthList_mem hx; omega) l r hf⟩)
      (rB0_BT l) (Nat.lt_succ_self _)
    have hys' := forall2_eq' hys
    subst hys'
    have hm' : many0 (andThen (opt blank) fun _ => andThen (ConstValue.parse (d' + 1)) fun e => andThen (opt blank) fun _ =>
        andThen (opt listSeparator) fun _ => ret e) ((rB0 l).1 ++ ((rSlots rConstElem xs (rB0 l).2).1 ++ ']' :: r)) =
        .ok xs (bl' ++ ']' :: r) := hm
    rw [andThen_of_ok hm', andThen_optBlank hbl' (by rw [NB, hdP_cons]; decide), andThen_of_ok (tag1 ']' r)]
    rfl
  | .map kvs, hw, hs, d + 1, hd, l, r, _ => by
    simp only [ConstValue.wf] at hw
    simp only [ConstValue.supported] at hs
    simp only [ConstValue.depth] at hd
    obtain ⟨d', rfl⟩ : ∃ d', d = d' + 1 := ⟨d - 1, by omega⟩
    simp only [rConst, rSeq_fst, rSeq_snd, rLit_fst, rLit_snd, List.append_assoc]
    rw [rConstPairs_slots]
    simp only [List.singleton_append]
    obtain ⟨e1, e2, e3, e4, e5⟩ := constArms_err_bracket '{' ((rB0 l).1 ++ ((rSlots rConstPair kvs (rB0 l).2).1 ++ ('}' :: r))) (by simp)
    unfold ConstValue.parse
    rw [alt_cons_of_err (pmap_of_err e1), alt_cons_of_err (e2 _ _ (Or.inl rfl)), alt_cons_of_err (e2 _ _ (Or.inr rfl)),
      alt_cons_of_err (pmap_of_err e3), alt_cons_of_err (pmap_of_err e4), alt_cons_of_err (pmap_of_err e5),
      alt_cons_of_err (andThen_of_err (tag_cons_ne (by decide)))]
    apply alt_cons_of_ok
    rw [andThen_of_ok (tag1 '{' _)]
    have hloop := many0F_slots
      (andThen (opt blank) fun _ => andThen (ConstValue.parse (d' + 1)) fun k => andThen (opt blank) fun _ =>
        andThen (tag [':']) fun _ => andThen (opt blank) fun _ => andThen (ConstValue.parse (d' + 1)) fun v =>
        andThen (opt blank) fun _ => andThen (opt listSeparator) fun _ => ret (k, v))
      rConstPair Eq
      (fun kv => kv.1.wf = true ∧ kv.1.supported = true ∧ kv.2.wf = true ∧ kv.2.supported = true ∧
        (∀ l r, ConstFollow kv.1 r → ConstValue.parse (d' + 1) ((rConst kv.1 l).1 ++ r) = .ok kv.1 r) ∧
        (∀ l r, ConstFollow kv.2 r → ConstValue.parse (d' + 1) ((rConst kv.2 l).1 ++ r) = .ok kv.2 r))
      BT ElemFollow '}'
      (by
        intro x last l bl R hx hbl hlast hmid
        have hR : ElemFollow R ∧ (last = true → Sep R) := by
          cases last with
          | true => obtain ⟨R', rfl⟩ := hlast rfl; exact ⟨(elemFollow_close (Or.inr rfl) R').1, fun _ => (elemFollow_close (Or.inr rfl) R').2⟩
          | false => exact ⟨hmid rfl, fun h => by cases h⟩
        refine ⟨x, [], rfl, BT.nil, ?_, ?_⟩
        · have := (rConst_start hx.1 hx.2.1 l ([] : List Char)).2
          simp only [rConstPair, rSeq_fst, List.length_append, List.length_nil]
          have : 0 < (rConst x.1 l).1.length := List.length_pos_iff.mpr this
          omega
        · simpa using constPair_step hx.1 hx.2.1 hx.2.2.1 hx.2.2.2.1 hx.2.2.2.2.1 hx.2.2.2.2.2 last l hbl hR.1 hR.2)
      (by
        intro y last l R hy
        simp only [rConstPair, rSeq_fst, List.append_assoc]
        exact elemFollow_of_start hy.1 hy.2.1 l _)
      (by
        intro bl R hbl
        rw [andThen_optBlank hbl (by rw [NB, hdP_cons]; decide)]
        obtain ⟨e1, e2, e3, e4, e5⟩ := constArms_err_bracket '}' R (by simp)
        apply andThen_of_err
        unfold ConstValue.parse
        rw [alt_cons_of_err (pmap_of_err e1), alt_cons_of_err (e2 _ _ (Or.inl rfl)), alt_cons_of_err (e2 _ _ (Or.inr rfl)),
          alt_cons_of_err (pmap_of_err e3), alt_cons_of_err (pmap_of_err e4), alt_cons_of_err (pmap_of_err e5),
          alt_cons_of_err (andThen_of_err (tag_cons_ne (by decide))),
          alt_cons_of_err (andThen_of_err (tag_cons_ne (by decide)))]
        rfl)
    obtain ⟨ys, bl', hys, hbl', hm⟩ := hloop kvs (rB0 l).2 (rB0 l).1 _ r
      (fun kv hkv => ⟨(wfPairs_mem hw hkv).1, (supportedPairs_mem hs hkv).1, (wfPairs_mem hw hkv).2, (supportedPairs_mem hs hkv).2,
        fun l r hf => const_rt kv.1 (wfPairs_mem hw hkv).1 (supportedPairs_mem hs hkv).1 (d' + 1)
          (by have := (depthPairs_mem hkv).1; omega) l r hf,
        fun l r hf => const_rt kv.2 (wfPairs_mem hw hkv).2 (supportedPairs_mem hs hkv).2 (d' + 1)
          (by have := (depthPairs_mem hkv).2; omega) l r hf⟩)
      (rB0_BT l) (Nat.lt_succ_self _)
    have hys' := forall2_eq' hys
    subst hys'
    have hm' : many0 (andThen (opt blank) fun _ => andThen (ConstValue.parse (d' + 1)) fun k => andThen (opt blank) fun _ =>
        andThen (tag [':']) fun _ => andThen (opt blank) fun _ => andThen (ConstValue.parse (d' + 1)) fun v =>
        andThen (opt blank) fun _ => andThen (opt listSeparator) fun _ => ret (k, v))
        ((rB0 l).1 ++ ((rSlots rConstPair kvs (rB0 l).2).1 ++ '}' :: r)) = .ok kvs (bl' ++ '}' :: r) := hm
    rw [andThen_of_ok hm', andThen_optBlank hbl' (by rw [NB, hdP_cons]; decide), andThen_of_ok (tag1 '}' r)]
    rfl
termination_by c => sizeOf c
decreasing_by
  · simp_wf
    have := List.sizeOf_lt_of_mem hx
    omega
  · simp_wf
    have := List.sizeOf_lt_of_mem hkv
    have h2 : sizeOf kv = 1 + sizeOf kv.1 + sizeOf kv.2 := by cases kv; rfl
    omega
  · simp_wf
    have := List.sizeOf_lt_of_mem hkv
    have h2 : sizeOf kv = 1 + sizeOf kv.1 + sizeOf kv.2 := by cases kv; rfl
    omega

end Pilota.Idl
