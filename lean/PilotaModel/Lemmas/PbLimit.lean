import PilotaModel.Lemmas.PbStable
/-
  Recursion budget: groups nested `n` deep inside a group need a budget of `n + 1`.
-/
namespace Pilota.Proto
open Pilota

/-- what follows the start-group key of a group that contains `n` nested groups of the same
field number and nothing else: `n` start keys, then `n + 1` end keys. -/
def groupBody (tag : Nat) : Nat → Bytes
  | 0 => keyBytes tag .egroup
  | n + 1 => keyBytes tag .sgroup ++ groupBody tag n ++ keyBytes tag .egroup

theorem keyBytes_pos (tag : Nat) (wt : WireType) : 0 < (keyBytes tag wt).length := by
  unfold keyBytes encodeVarint; exact Codec.encVar_pos _

theorem groupBody_pos (tag n : Nat) : 0 < (groupBody tag n).length := by
  cases n <;> simp only [groupBody, List.length_append] <;> have := keyBytes_pos tag .egroup <;> omega

theorem skip_group_ladder (tag : Nat) (h1 : minTag ≤ tag) (h2 : tag ≤ maxTag) :
    ∀ (n ctx : Nat) (rest : Bytes),
      skipField ctx .sgroup tag (groupBody tag n ++ rest) = if n < ctx then .ok rest else .err .depth := by
  intro n
  induction n with
  | zero =>
    intro ctx rest
    cases ctx with
    | zero => simp [skipField]
    | succ c =>
      have hp := keyBytes_pos tag .egroup
      simp only [skipField, groupBody, Nat.zero_lt_succ, if_true]
      rw [show (keyBytes tag .egroup ++ rest).length + 1 = ((keyBytes tag .egroup ++ rest).length - 1) + 1 + 1 by
        simp only [List.length_append]; omega]
      simp [groupLoop, decodeKey_keyBytes tag .egroup h1 h2, advance]
  | succ n ih =>
    intro ctx rest
    cases ctx with
    | zero => simp [skipField]
    | succ c =>
      have hp := keyBytes_pos tag .sgroup
      have hb := groupBody_pos tag n
      have he := keyBytes_pos tag .egroup
      simp only [skipField, groupBody, List.append_assoc]
      have hfuel : (keyBytes tag .sgroup ++ (groupBody tag n ++ (keyBytes tag .egroup ++ rest))).length + 1
          = ((keyBytes tag .sgroup ++ (groupBody tag n ++ (keyBytes tag .egroup ++ rest))).length - 2) + 1 + 1 + 1 := by
        simp only [List.length_append]; omega
      rw [hfuel]
      simp only [groupLoop, decodeKey_keyBytes tag .sgroup h1 h2]
      have hne : ¬ (WireType.sgroup = WireType.egroup) := by decide
      simp only [hne, if_false]
      rw [ih c (keyBytes tag .egroup ++ rest)]
      by_cases hn : n < c
      · have : n + 1 < c + 1 := by omega
        simp only [hn, this, if_true, decodeKey_keyBytes tag .egroup h1 h2]
        simp [advance]
      · have : ¬ n + 1 < c + 1 := by omega
        simp [hn, this]

end Pilota.Proto
