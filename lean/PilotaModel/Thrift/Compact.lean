import PilotaModel.Base.Bytes
import PilotaModel.Base.Varint
import PilotaModel.Thrift.Types
import PilotaModel.Thrift.Binary
/-
  The compact protocol (thrift/compact.rs).
  Writer and length calculation are state machines over the same state
  (`last_write_field_id`, `write_field_id_stack`, the deferred bool field header);
  the reader is a state machine over (`last_read_field_id`, `read_field_id_stack`,
  `pending_read_bool_value`).  One transition per trait call.
-/
namespace Pilota.Thrift.Compact
open Pilota Pilota.Thrift

/-- `TCompactType::try_from(TType)`; `none` for `Void`. -/
def compactOf : TType → Option Nat
  | .stop => some 0 | .bool => some 1 | .i8 => some 3 | .i16 => some 4 | .i32 => some 5
  | .i64 => some 6 | .double => some 7 | .binary => some 8 | .list => some 9 | .set => some 10
  | .map => some 11 | .struct => some 12 | .uuid => some 13 | .void => none

/-- `TCompactType::try_from(u8)` followed by `TType::try_from(TCompactType)`. -/
def ttypeOfCompact : Nat → Option TType
  | 0 => some .stop | 1 => some .bool | 2 => some .bool | 3 => some .i8 | 4 => some .i16
  | 5 => some .i32 | 6 => some .i64 | 7 => some .double | 8 => some .binary | 9 => some .list
  | 10 => some .set | 11 => some .map | 12 => some .struct | 13 => some .uuid
  | _ => none

/-! ### Writer -/

structure CW where
  last : Int := 0
  stack : List Int := []
  pending : Option Int := none      -- id of a bool field whose header is deferred
  deriving Repr, DecidableEq, Inhabited

/-- `write_field_header`: short form for `0 < delta < 15`, else type byte + zig-zag id. -/
def fieldHeader (last : Int) (ct : Nat) (id : Int) : Bytes :=
  let delta := id - last
  if 0 < delta ∧ delta < 15 then [UInt8.ofNat (delta.toNat * 16 + ct)]
  else UInt8.ofNat ct :: encVar (zigzag id)

/-- `write_collection_begin`. -/
def collHeader (ct : Nat) (n : Nat) : Bytes :=
  if n ≤ 14 then [UInt8.ofNat (n * 16 + ct)]
  else UInt8.ofNat (0xF0 + ct) :: encVar (n % 2 ^ 32)

def boolByte (b : Bool) : Nat := if b then 1 else 2

def wStep (s : CW) : Op → Out (CW × Bytes)
  | .structBegin => .ok ({ s with stack := s.last :: s.stack, last := 0 }, [])
  | .structEnd =>
    if s.pending.isSome then .panic "pending bool field not written"
    else match s.stack with
      | [] => .err .invalid
      | l :: st => .ok ({ s with last := l, stack := st }, [])
  | .fieldBegin t id =>
    if t = .bool then
      if s.pending.isSome then .panic "should not have a pending bool while writing another bool"
      else .ok ({ s with pending := some id }, [])
    else match compactOf t with
      | none => .err .invalid
      | some ct => .ok ({ s with last := id }, fieldHeader s.last ct id)
  | .fieldEnd => if s.pending.isSome then .panic "pending bool field not written" else .ok (s, [])
  | .fieldStop => if s.pending.isSome then .panic "pending bool field not written" else .ok (s, [0])
  | .bool b =>
    match s.pending with
    | some id => .ok ({ s with pending := none, last := id }, fieldHeader s.last (boolByte b) id)
    | none => .ok (s, [UInt8.ofNat (boolByte b)])
  | .i8 n => .ok (s, Binary.i .be 1 n)
  | .i16 n | .i32 n | .i64 n => .ok (s, encVar (zigzag n))
  | .dbl b => .ok (s, encFixed .le 8 b)
  | .bytes bs => .ok (s, encVar (bs.length % 2 ^ 32) ++ bs)
  | .uuid bs => .ok (s, bs)
  | .listBegin et n | .setBegin et n =>
    match compactOf et with
    | none => .err .invalid
    | some ct => .ok (s, collHeader ct n)
  | .listEnd | .setEnd | .mapEnd => .ok (s, [])
  | .mapBegin kt vt n =>
    if n = 0 then .ok (s, [0])
    else match compactOf kt, compactOf vt with
      | some k, some v => .ok (s, encVar (n % 2 ^ 32) ++ [UInt8.ofNat (k * 16 + v)])
      | _, _ => .err .invalid
  | .msgBegin name mt seq =>
    .ok (s, [0x82, UInt8.ofNat (1 + (mt * 32) % 256)] ++ encVar (toU 4 seq) ++ (encVar (name.length % 2 ^ 32) ++ name))
  | .msgEnd => if s.pending.isSome then .panic "pending bool field not written" else .ok (s, [])

def run : CW → List Op → Out (CW × Bytes)
  | s, [] => .ok (s, [])
  | s, o :: os => match wStep s o with
    | .ok (s', b) => match run s' os with
      | .ok (s'', bs) => .ok (s'', b ++ bs)
      | .err k => .err k | .panic m => .panic m | .fuel => .fuel
    | .err k => .err k | .panic m => .panic m | .fuel => .fuel

-- what `ops v` writes, as a direct recursion (proved equal to `run` in Lemmas/CompactRT).
mutual
def enc : TVal → Bytes
  | .bool b => [UInt8.ofNat (boolByte b)]
  | .i8 n => Binary.i .be 1 n
  | .i16 n | .i32 n | .i64 n => encVar (zigzag n)
  | .dbl b => encFixed .le 8 b
  | .bin bs => encVar (bs.length % 2 ^ 32) ++ bs
  | .uuid bs => bs
  | .struct fs => encFields 0 fs
  | .list et xs => collHeader ((compactOf et).getD 0) xs.length ++ encVals xs
  | .set et xs => collHeader ((compactOf et).getD 0) xs.length ++ encVals xs
  | .map kt vt kvs =>
    if kvs.length = 0 then [0]
    else encVar (kvs.length % 2 ^ 32) ++ (UInt8.ofNat ((compactOf kt).getD 0 * 16 + (compactOf vt).getD 0) :: encPairs kvs)
def encVals : TVals → Bytes
  | .nil => []
  | .cons v vs => enc v ++ encVals vs
def encFields : Int → TFields → Bytes
  | _, .nil => [0]
  | last, .cons id (.bool b) r => fieldHeader last (boolByte b) id ++ encFields id r
  | last, .cons id v r => fieldHeader last ((compactOf v.ttype).getD 0) id ++ (enc v ++ encFields id r)
def encPairs : TPairs → Bytes
  | .nil => []
  | .cons k v r => enc k ++ (enc v ++ encPairs r)
end

/-! ### Reader -/

structure CR where
  last : Int := 0
  stack : List Int := []
  pendingBool : Option Bool := none
  deriving Repr, DecidableEq, Inhabited

def readByte := Binary.readByte

/-- `read_field_begin`. -/
def readFieldBegin (s : CR) (bs : Bytes) : Out ((TType × Int) × CR × Bytes) :=
  match readByte bs with
  | .ok (b, r) =>
    let delta := b / 16
    let low := b % 16
    let s := if low = 1 then { s with pendingBool := some true }
             else if low = 2 then { s with pendingBool := some false } else s
    match ttypeOfCompact low with
    | none => .err .invalid
    | some .stop => .ok ((.stop, 0), s, r)
    | some t =>
      if delta ≠ 0 then
        let id := s.last + delta
        if id ≤ 32767 then .ok ((t, id), { s with last := id }, r)
        else .err .invalid                       -- checked add (i16 overflow)
      else match readVarS 2 r with
        | .ok (id, r) => .ok ((t, id), { s with last := id }, r)
        | .err k => .err k | .panic m => .panic m | .fuel => .fuel
  | .err k => .err k | .panic m => .panic m | .fuel => .fuel

def readBool (s : CR) (bs : Bytes) : Out (Bool × CR × Bytes) :=
  match s.pendingBool with
  | some b => .ok (b, { s with pendingBool := none }, bs)
  | none => match readByte bs with
    | .ok (b, r) =>
      if b = 1 then .ok (true, s, r) else if b = 2 then .ok (false, s, r) else .err .invalid
    | .err k => .err k | .panic m => .panic m | .fuel => .fuel

/-- `read_bytes` & co: u32 varint length (`as usize`, no sign), bounds check, `split_to`. -/
def readBytes (bs : Bytes) : Out (Bytes × Bytes) :=
  match readVarU 4 bs with
  | .ok (n, r) => if n ≤ r.length then Binary.splitTo n r else .err .eof
  | .err k => .err k | .panic m => .panic m | .fuel => .fuel

def readCollBegin (bs : Bytes) : Out ((TType × Nat) × Bytes) :=
  match readByte bs with
  | .ok (h, r) =>
    match ttypeOfCompact (h % 16) with
    | none => .err .invalid
    | some et =>
      if h / 16 ≠ 15 then match Binary.checkSize (h / 16 : Nat) r with
        | .ok n => .ok ((et, n), r)
        | .err k => .err k | .panic m => .panic m | .fuel => .fuel
      else match readVarU 4 r with
        | .ok (n, r) => match Binary.checkSize (toS 4 n) r with      -- `read_varint::<u32>()? as i32`
          | .ok n => .ok ((et, n), r)
          | .err k => .err k | .panic m => .panic m | .fuel => .fuel
        | .err k => .err k | .panic m => .panic m | .fuel => .fuel
  | .err k => .err k | .panic m => .panic m | .fuel => .fuel

def readMapBegin (bs : Bytes) : Out ((TType × TType × Nat) × Bytes) :=
  match readVarU 4 bs with
  | .ok (n, r) =>
    match Binary.checkSize (toS 4 n) r with
    | .ok cnt =>
      if cnt = 0 then .ok ((.stop, .stop, 0), r)
      else match readByte r with
        | .ok (h, r) =>
          match ttypeOfCompact (h / 16), ttypeOfCompact (h % 16) with
          | some kt, some vt => .ok ((kt, vt, cnt), r)
          | _, _ => .err .invalid
        | .err k => .err k | .panic m => .panic m | .fuel => .fuel
    | .err k => .err k | .panic m => .panic m | .fuel => .fuel
  | .err k => .err k | .panic m => .panic m | .fuel => .fuel

def readStructBegin (s : CR) : CR := { s with stack := s.last :: s.stack, last := 0 }

/-- `read_struct_end`: restores the enclosing struct's field-id context. -/
def readStructEnd (s : CR) : Out CR :=
  match s.stack with
  | [] => .err .invalid
  | l :: st => .ok { s with last := l, stack := st }

mutual
def readVal : Nat → TType → CR → Bytes → Out (TVal × CR × Bytes)
  | 0, _, _, _ => .fuel
  | _+1, .bool, s, bs => match readBool s bs with
    | .ok (b, s, r) => .ok (.bool b, s, r)
    | .err k => .err k | .panic m => .panic m | .fuel => .fuel
  | _+1, .i8, s, bs => match Binary.readI .be 1 bs with
    | .ok (n, r) => .ok (.i8 n, s, r)
    | .err k => .err k | .panic m => .panic m | .fuel => .fuel
  | _+1, .i16, s, bs => match readVarS 2 bs with
    | .ok (n, r) => .ok (.i16 n, s, r)
    | .err k => .err k | .panic m => .panic m | .fuel => .fuel
  | _+1, .i32, s, bs => match readVarS 4 bs with
    | .ok (n, r) => .ok (.i32 n, s, r)
    | .err k => .err k | .panic m => .panic m | .fuel => .fuel
  | _+1, .i64, s, bs => match readVarS 8 bs with
    | .ok (n, r) => .ok (.i64 n, s, r)
    | .err k => .err k | .panic m => .panic m | .fuel => .fuel
  | _+1, .double, s, bs => match Binary.readU .le 8 bs with
    | .ok (n, r) => .ok (.dbl n, s, r)
    | .err k => .err k | .panic m => .panic m | .fuel => .fuel
  | _+1, .binary, s, bs => match readBytes bs with
    | .ok (b, r) => .ok (.bin b, s, r)
    | .err k => .err k | .panic m => .panic m | .fuel => .fuel
  | _+1, .uuid, s, bs => match Binary.takeN 16 bs with
    | .ok (b, r) => .ok (.uuid b, s, r)
    | .err k => .err k | .panic m => .panic m | .fuel => .fuel
  | f+1, .struct, s, bs => match readFields f (readStructBegin s) bs with
    | .ok (fs, s, r) => match readStructEnd s with
      | .ok s => .ok (.struct fs, s, r)
      | .err k => .err k | .panic m => .panic m | .fuel => .fuel
    | .err k => .err k | .panic m => .panic m | .fuel => .fuel
  | f+1, .list, s, bs => match readCollBegin bs with
    | .ok ((et, n), r) => match readN f et n s r with
      | .ok (xs, s, r) => .ok (.list et xs, s, r)
      | .err k => .err k | .panic m => .panic m | .fuel => .fuel
    | .err k => .err k | .panic m => .panic m | .fuel => .fuel
  | f+1, .set, s, bs => match readCollBegin bs with
    | .ok ((et, n), r) => match readN f et n s r with
      | .ok (xs, s, r) => .ok (.set et xs, s, r)
      | .err k => .err k | .panic m => .panic m | .fuel => .fuel
    | .err k => .err k | .panic m => .panic m | .fuel => .fuel
  | f+1, .map, s, bs => match readMapBegin bs with
    | .ok ((kt, vt, n), r) => match readPairs f kt vt n s r with
      | .ok (kvs, s, r) => .ok (.map kt vt kvs, s, r)
      | .err k => .err k | .panic m => .panic m | .fuel => .fuel
    | .err k => .err k | .panic m => .panic m | .fuel => .fuel
  | _+1, .stop, _, _ => .err .invalid
  | _+1, .void, _, _ => .err .invalid
def readFields : Nat → CR → Bytes → Out (TFields × CR × Bytes)
  | 0, _, _ => .fuel
  | f+1, s, bs => match readFieldBegin s bs with
    | .ok ((t, id), s, r) =>
      if t = .stop then .ok (.nil, s, r)
      else match readVal f t s r with
        | .ok (v, s, r) => match readFields f s r with
          | .ok (rest, s, r) => .ok (.cons id v rest, s, r)
          | .err k => .err k | .panic m => .panic m | .fuel => .fuel
        | .err k => .err k | .panic m => .panic m | .fuel => .fuel
    | .err k => .err k | .panic m => .panic m | .fuel => .fuel
def readN : Nat → TType → Nat → CR → Bytes → Out (TVals × CR × Bytes)
  | 0, _, _, _, _ => .fuel
  | _+1, _, 0, s, bs => .ok (.nil, s, bs)
  | f+1, et, n+1, s, bs => match readVal f et s bs with
    | .ok (v, s, r) => match readN f et n s r with
      | .ok (vs, s, r) => .ok (.cons v vs, s, r)
      | .err k => .err k | .panic m => .panic m | .fuel => .fuel
    | .err k => .err k | .panic m => .panic m | .fuel => .fuel
def readPairs : Nat → TType → TType → Nat → CR → Bytes → Out (TPairs × CR × Bytes)
  | 0, _, _, _, _, _ => .fuel
  | _+1, _, _, 0, s, bs => .ok (.nil, s, bs)
  | f+1, kt, vt, n+1, s, bs => match readVal f kt s bs with
    | .ok (k, s, r) => match readVal f vt s r with
      | .ok (v, s, r) => match readPairs f kt vt n s r with
        | .ok (rest, s, r) => .ok (.cons k v rest, s, r)
        | .err k => .err k | .panic m => .panic m | .fuel => .fuel
      | .err k => .err k | .panic m => .panic m | .fuel => .fuel
    | .err k => .err k | .panic m => .panic m | .fuel => .fuel
end

def read (t : TType) (s : CR) (bs : Bytes) : Out (TVal × CR × Bytes) :=
  readVal (3 * bs.length + 3) t s bs

-- The value a typed reader reconstructs: the key/value types of an empty map
-- are not on the compact wire (`read_map_begin` reports `Stop`/`Stop`).
mutual
def norm : TVal → TVal
  | .struct fs => .struct (normFields fs)
  | .list et xs => .list et (normVals xs)
  | .set et xs => .set et (normVals xs)
  | .map kt vt kvs => match kvs with
    | .nil => .map .stop .stop .nil
    | kvs => .map kt vt (normPairs kvs)
  | v => v
def normVals : TVals → TVals
  | .nil => .nil
  | .cons v vs => .cons (norm v) (normVals vs)
def normFields : TFields → TFields
  | .nil => .nil
  | .cons i v r => .cons i (norm v) (normFields r)
def normPairs : TPairs → TPairs
  | .nil => .nil
  | .cons k v r => .cons (norm k) (norm v) (normPairs r)
end

end Pilota.Thrift.Compact
