import PilotaModel.Thrift.Types
/-
  `weight`: what a reading interpreter builds for a value — one unit per node (value, list
  element, map key, map value), two per struct field (the field slot and its id), one per payload
  byte of a binary.  The dynamic reading interpreter of the harness (`thrift.rs::read_val`)
  allocates exactly per unit built: one `Vec::push` per element / field / pair and one copy of
  each binary payload; the protocol readers themselves only split the input buffer.
  `Props/C09.read_weight_linear` bounds it by the input length.
-/
namespace Pilota.Thrift

mutual
def TVal.weight : TVal → Nat
  | .bin bs => 1 + bs.length
  | .struct fs => fs.weight
  | .list _ xs => 1 + xs.weight
  | .set _ xs => 1 + xs.weight
  | .map _ _ kvs => 1 + kvs.weight
  | _ => 1
def TVals.weight : TVals → Nat
  | .nil => 0
  | .cons v vs => v.weight + vs.weight
def TFields.weight : TFields → Nat
  | .nil => 1
  | .cons _ v r => 2 + v.weight + r.weight
def TPairs.weight : TPairs → Nat
  | .nil => 0
  | .cons k v r => k.weight + v.weight + r.weight
end

end Pilota.Thrift
