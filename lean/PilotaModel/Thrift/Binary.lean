import PilotaModel.Base.Bytes
import PilotaModel.Thrift.Types
/-
  The binary protocol (thrift/binary.rs) and its little-endian twin
  (thrift/binary_le.rs), parametrised by `Endian`.
  Writer: stateless, one byte string per `TOutputProtocol` call (`wOp`).
  Reader: the `TInputProtocol` primitives with `rw_ext.rs`'s bounds checks, and
  the dynamic reading interpreter `readVal` (what a decoder does by wire type).
-/
namespace Pilota.Thrift.Binary
open Pilota Pilota.Thrift

def i (e : Endian) (w : Nat) (n : Int) : Bytes := encFixed e w (toU w n)

/-- bytes appended by one `TOutputProtocol` call on `TBinaryProtocol`. -/
def wOp (e : Endian) : Op → Bytes
  | .structBegin | .structEnd | .fieldEnd | .listEnd | .setEnd | .mapEnd | .msgEnd => []
  | .fieldBegin t id => UInt8.ofNat t.toByte :: i e 2 id
  | .fieldStop => [0]
  | .bool b => [if b then 1 else 0]
  | .i8 n => i e 1 n
  | .i16 n => i e 2 n
  | .i32 n => i e 4 n
  | .i64 n => i e 8 n
  | .dbl b => encFixed e 8 b
  | .bytes bs => i e 4 (toS 4 bs.length) ++ bs          -- `b.len() as i32`
  | .uuid bs => bs
  | .listBegin et n | .setBegin et n => UInt8.ofNat et.toByte :: i e 4 (toS 4 n)
  | .mapBegin kt vt n => UInt8.ofNat kt.toByte :: UInt8.ofNat vt.toByte :: i e 4 (toS 4 n)
  | .msgBegin name mt seq =>
      let ver : Nat := match e with | .be => 0x80010000 | .le => 0x88880000
      encFixed e 4 ((ver ||| mt) % 2 ^ 32) ++ (i e 4 (toS 4 name.length) ++ name) ++ i e 4 seq

def run (e : Endian) (ops : List Op) : Bytes := ops.flatMap (wOp e)

-- the bytes `ops v` produce, as a direct recursion (proved equal to `run e v.ops`).
mutual
def enc (e : Endian) : TVal → Bytes
  | .bool b => [if b then 1 else 0]
  | .i8 n => i e 1 n | .i16 n => i e 2 n | .i32 n => i e 4 n | .i64 n => i e 8 n
  | .dbl b => encFixed e 8 b
  | .bin bs => i e 4 (toS 4 bs.length) ++ bs
  | .uuid bs => bs
  | .struct fs => encFields e fs
  | .list et xs => UInt8.ofNat et.toByte :: i e 4 (toS 4 xs.length) ++ encVals e xs
  | .set et xs => UInt8.ofNat et.toByte :: i e 4 (toS 4 xs.length) ++ encVals e xs
  | .map kt vt kvs => UInt8.ofNat kt.toByte :: UInt8.ofNat vt.toByte :: i e 4 (toS 4 kvs.length) ++ encPairs e kvs
def encVals (e : Endian) : TVals → Bytes
  | .nil => []
  | .cons v vs => enc e v ++ encVals e vs
def encFields (e : Endian) : TFields → Bytes
  | .nil => [0]
  | .cons id v r => UInt8.ofNat v.ttype.toByte :: i e 2 id ++ (enc e v ++ encFields e r)
def encPairs (e : Endian) : TPairs → Bytes
  | .nil => []
  | .cons k v r => enc e k ++ (enc e v ++ encPairs e r)
end

/-! ### Reader primitives -/

/-- `Bytes::split_to(n)`: panics when `n > len`. -/
def splitTo (n : Nat) (bs : Bytes) : Out (Bytes × Bytes) :=
  if n ≤ bs.length then .ok (bs.take n, bs.drop n) else .panic "split_to out of bounds"

/-- `ReadExt` read of `n` bytes: `NoRemaining` error when short. -/
def takeN (n : Nat) (bs : Bytes) : Out (Bytes × Bytes) :=
  if n ≤ bs.length then .ok (bs.take n, bs.drop n) else .err .eof

def readU (e : Endian) (w : Nat) (bs : Bytes) : Out (Nat × Bytes) :=
  match takeN w bs with
  | .ok (a, r) => .ok (decFixed e a, r)
  | .err k => .err k | .panic s => .panic s | .fuel => .fuel

def readI (e : Endian) (w : Nat) (bs : Bytes) : Out (Int × Bytes) :=
  match readU e w bs with
  | .ok (n, r) => .ok (toS w n, r)
  | .err k => .err k | .panic s => .panic s | .fuel => .fuel

def readByte (bs : Bytes) : Out (Nat × Bytes) :=
  match bs with
  | [] => .err .eof
  | b :: r => .ok (b.toNat, r)

def readTType (bs : Bytes) : Out (TType × Bytes) :=
  match readByte bs with
  | .ok (b, r) => match TType.ofByte b with
    | some t => .ok (t, r)
    | none => .err .invalid
  | .err k => .err k | .panic s => .panic s | .fuel => .fuel

/-- `len as usize` of an `i32` on a 64-bit target. -/
def asUsize (n : Int) : Nat := toU 8 n

/-- `read_bytes` / `read_faststr` / `read_bytes_vec` / `read_string` payload:
i32 length, then `read_to_bytes(len as usize)` (bounds-checked), then `split_to`. -/
def readBytes (e : Endian) (bs : Bytes) : Out (Bytes × Bytes) :=
  match readI e 4 bs with
  | .ok (len, r) =>
    let n := asUsize len
    if n ≤ r.length then splitTo n r else .err .eof
  | .err k => .err k | .panic s => .panic s | .fuel => .fuel

/-- `read_field_begin`: type byte, then the id unless the type is `Stop`. -/
def readFieldBegin (e : Endian) (bs : Bytes) : Out ((TType × Int) × Bytes) :=
  match readTType bs with
  | .ok (t, r) =>
    if t = .stop then .ok ((t, 0), r)
    else match readI e 2 r with
      | .ok (id, r) => .ok ((t, id), r)
      | .err k => .err k | .panic s => .panic s | .fuel => .fuel
  | .err k => .err k | .panic s => .panic s | .fuel => .fuel

/-- `check_container_size`: a count below zero or above the number of remaining bytes is rejected
(every element occupies at least one byte). -/
def checkSize (n : Int) (r : Bytes) : Out Nat :=
  if n < 0 then .err .invalid
  else if n.toNat ≤ r.length then .ok n.toNat else .err .invalid

/-- `read_list_begin` / `read_set_begin`. -/
def readListBegin (e : Endian) (bs : Bytes) : Out ((TType × Nat) × Bytes) :=
  match readTType bs with
  | .ok (t, r) => match readI e 4 r with
    | .ok (n, r) => match checkSize n r with
      | .ok n => .ok ((t, n), r)
      | .err k => .err k | .panic s => .panic s | .fuel => .fuel
    | .err k => .err k | .panic s => .panic s | .fuel => .fuel
  | .err k => .err k | .panic s => .panic s | .fuel => .fuel

def readMapBegin (e : Endian) (bs : Bytes) : Out ((TType × TType × Nat) × Bytes) :=
  match readTType bs with
  | .ok (kt, r) => match readTType r with
    | .ok (vt, r) => match readI e 4 r with
      | .ok (n, r) => match checkSize n r with
        | .ok n => .ok ((kt, vt, n), r)
        | .err k => .err k | .panic s => .panic s | .fuel => .fuel
      | .err k => .err k | .panic s => .panic s | .fuel => .fuel
    | .err k => .err k | .panic s => .panic s | .fuel => .fuel
  | .err k => .err k | .panic s => .panic s | .fuel => .fuel

/-! ### The dynamic reading interpreter -/

mutual
def readVal (e : Endian) : Nat → TType → Bytes → Out (TVal × Bytes)
  | 0, _, _ => .fuel
  | _+1, .bool, bs => match readI e 1 bs with
    | .ok (n, r) => .ok (.bool (n != 0), r)
    | .err k => .err k | .panic s => .panic s | .fuel => .fuel
  | _+1, .i8, bs => match readI e 1 bs with
    | .ok (n, r) => .ok (.i8 n, r)
    | .err k => .err k | .panic s => .panic s | .fuel => .fuel
  | _+1, .i16, bs => match readI e 2 bs with
    | .ok (n, r) => .ok (.i16 n, r)
    | .err k => .err k | .panic s => .panic s | .fuel => .fuel
  | _+1, .i32, bs => match readI e 4 bs with
    | .ok (n, r) => .ok (.i32 n, r)
    | .err k => .err k | .panic s => .panic s | .fuel => .fuel
  | _+1, .i64, bs => match readI e 8 bs with
    | .ok (n, r) => .ok (.i64 n, r)
    | .err k => .err k | .panic s => .panic s | .fuel => .fuel
  | _+1, .double, bs => match readU e 8 bs with
    | .ok (n, r) => .ok (.dbl n, r)
    | .err k => .err k | .panic s => .panic s | .fuel => .fuel
  | _+1, .binary, bs => match readBytes e bs with
    | .ok (b, r) => .ok (.bin b, r)
    | .err k => .err k | .panic s => .panic s | .fuel => .fuel
  | _+1, .uuid, bs => match takeN 16 bs with
    | .ok (b, r) => .ok (.uuid b, r)
    | .err k => .err k | .panic s => .panic s | .fuel => .fuel
  | f+1, .struct, bs => match readFields e f bs with
    | .ok (fs, r) => .ok (.struct fs, r)
    | .err k => .err k | .panic s => .panic s | .fuel => .fuel
  | f+1, .list, bs => match readListBegin e bs with
    | .ok ((et, n), r) => match readN e f et n r with
      | .ok (xs, r) => .ok (.list et xs, r)
      | .err k => .err k | .panic s => .panic s | .fuel => .fuel
    | .err k => .err k | .panic s => .panic s | .fuel => .fuel
  | f+1, .set, bs => match readListBegin e bs with
    | .ok ((et, n), r) => match readN e f et n r with
      | .ok (xs, r) => .ok (.set et xs, r)
      | .err k => .err k | .panic s => .panic s | .fuel => .fuel
    | .err k => .err k | .panic s => .panic s | .fuel => .fuel
  | f+1, .map, bs => match readMapBegin e bs with
    | .ok ((kt, vt, n), r) => match readPairs e f kt vt n r with
      | .ok (kvs, r) => .ok (.map kt vt kvs, r)
      | .err k => .err k | .panic s => .panic s | .fuel => .fuel
    | .err k => .err k | .panic s => .panic s | .fuel => .fuel
  | _+1, .stop, _ => .err .invalid
  | _+1, .void, _ => .err .invalid
def readFields (e : Endian) : Nat → Bytes → Out (TFields × Bytes)
  | 0, _ => .fuel
  | f+1, bs => match readFieldBegin e bs with
    | .ok ((t, id), r) =>
      if t = .stop then .ok (.nil, r)
      else match readVal e f t r with
        | .ok (v, r) => match readFields e f r with
          | .ok (rest, r) => .ok (.cons id v rest, r)
          | .err k => .err k | .panic s => .panic s | .fuel => .fuel
        | .err k => .err k | .panic s => .panic s | .fuel => .fuel
    | .err k => .err k | .panic s => .panic s | .fuel => .fuel
def readN (e : Endian) : Nat → TType → Nat → Bytes → Out (TVals × Bytes)
  | 0, _, _, _ => .fuel
  | _+1, _, 0, bs => .ok (.nil, bs)
  | f+1, et, n+1, bs => match readVal e f et bs with
    | .ok (v, r) => match readN e f et n r with
      | .ok (vs, r) => .ok (.cons v vs, r)
      | .err k => .err k | .panic s => .panic s | .fuel => .fuel
    | .err k => .err k | .panic s => .panic s | .fuel => .fuel
def readPairs (e : Endian) : Nat → TType → TType → Nat → Bytes → Out (TPairs × Bytes)
  | 0, _, _, _, _ => .fuel
  | _+1, _, _, 0, bs => .ok (.nil, bs)
  | f+1, kt, vt, n+1, bs => match readVal e f kt bs with
    | .ok (k, r) => match readVal e f vt r with
      | .ok (v, r) => match readPairs e f kt vt n r with
        | .ok (rest, r) => .ok (.cons k v rest, r)
        | .err k => .err k | .panic s => .panic s | .fuel => .fuel
      | .err k => .err k | .panic s => .panic s | .fuel => .fuel
    | .err k => .err k | .panic s => .panic s | .fuel => .fuel
end

/-- top-level read with a budget that always suffices (see `Props/C09`). -/
def read (e : Endian) (t : TType) (bs : Bytes) : Out (TVal × Bytes) :=
  readVal e (3 * bs.length + 3) t bs

end Pilota.Thrift.Binary
