import PilotaModel.Thrift.Compact
/-
  `TLengthProtocol`: the byte count computed before encoding.
  Binary (all three variants share it): constants.  Compact: a second state machine
  over the writer's state (`write_field_header_len!`, deferred bool, push/pop).
-/
namespace Pilota.Thrift.Len
open Pilota Pilota.Thrift

/-- `TLengthProtocol for TBinaryProtocol<T>` (binary.rs, binary_le.rs, binary_unsafe.rs). -/
def binOp : Op → Nat
  | .structBegin | .structEnd | .fieldEnd | .listEnd | .setEnd | .mapEnd | .msgEnd => 0
  | .fieldBegin _ _ => 1 + 2
  | .fieldStop => 1
  | .bool _ => 1
  | .i8 _ => 1 | .i16 _ => 2 | .i32 _ => 4 | .i64 _ => 8 | .dbl _ => 8
  | .bytes bs => 4 + bs.length
  | .uuid _ => 16
  | .listBegin _ _ | .setBegin _ _ => 1 + 4
  | .mapBegin _ _ _ => 1 + 1 + 4
  | .msgBegin name _ _ => 4 + (4 + name.length) + 4

def binLen (ops : List Op) : Nat := (ops.map binOp).sum

open Compact in
/-- `write_field_header_len!` -/
def fieldHeaderLen (last : Int) (id : Int) : Nat :=
  let delta := id - last
  if 0 < delta ∧ delta < 15 then 1 else 1 + varLen (zigzag id)

open Compact in
/-- `TLengthProtocol for TCompactOutputProtocol<T>`; `unwrap`/`expect`/`assert` are panics. -/
def cmpStep (s : CW) : Op → Out (CW × Nat)
  | .structBegin => .ok ({ s with stack := s.last :: s.stack, last := 0 }, 0)
  | .structEnd =>
    if s.pending.isSome then .panic "pending bool field not written"
    else match s.stack with
      | [] => .panic "StructEndLen called without matching StructBeginLen"
      | l :: st => .ok ({ s with last := l, stack := st }, 0)
  | .fieldBegin t id =>
    if t = .bool then
      if s.pending.isSome then .panic "should not have a pending bool while writing another bool"
      else .ok ({ s with pending := some id }, 0)
    else match compactOf t with
      | none => .panic "TCompactType::try_from(field_type).unwrap()"
      | some _ => .ok ({ s with last := id }, fieldHeaderLen s.last id)
  | .fieldEnd => if s.pending.isSome then .panic "pending bool field not written" else .ok (s, 0)
  | .fieldStop => if s.pending.isSome then .panic "pending bool field not written" else .ok (s, 1)
  | .bool _ =>
    match s.pending with
    | some id => .ok ({ s with pending := none, last := id }, fieldHeaderLen s.last id)
    | none => .ok (s, 1)
  | .i8 _ => .ok (s, 1)
  | .i16 n | .i32 n | .i64 n => .ok (s, varLen (zigzag n))
  | .dbl _ => .ok (s, 8)
  | .bytes bs => .ok (s, varLen (bs.length % 2 ^ 32) + bs.length)
  | .uuid _ => .ok (s, 16)
  | .listBegin et n | .setBegin et n =>
    match compactOf et with
    | none => .panic "tcompact_get_compact(element_type).unwrap()"
    | some _ => .ok (s, if n ≤ 14 then 1 else 1 + varLen (n % 2 ^ 32))
  | .listEnd | .setEnd | .mapEnd => .ok (s, 0)
  | .mapBegin kt vt n =>
    if n = 0 then .ok (s, 1)
    else match compactOf kt, compactOf vt with
      | some _, some _ => .ok (s, varLen (n % 2 ^ 32) + 1)
      | _, _ => .panic "tcompact_get_compact(..).unwrap()"
  | .msgBegin name _ seq => .ok (s, 2 + varLen (toU 4 seq) + (varLen (name.length % 2 ^ 32) + name.length))
  | .msgEnd => if s.pending.isSome then .panic "pending bool field not written" else .ok (s, 0)

open Compact in
/-- run the length machine; returns the final state and one number per op. -/
def cmpRun : CW → List Op → Out (CW × List Nat)
  | s, [] => .ok (s, [])
  | s, o :: os => match cmpStep s o with
    | .ok (s', n) => match cmpRun s' os with
      | .ok (s'', ns) => .ok (s'', n :: ns)
      | .err k => .err k | .panic m => .panic m | .fuel => .fuel
    | .err k => .err k | .panic m => .panic m | .fuel => .fuel

end Pilota.Thrift.Len
