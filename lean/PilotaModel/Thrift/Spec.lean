import PilotaModel.Base.Bytes
import PilotaModel.Base.Varint
import PilotaModel.Thrift.Types
/-
  An INDEPENDENT reference for the Apache Thrift binary and compact protocols, written only from
  the spec facts listed in DESIGN.md section 8 / C03 (the Apache documents are not in the sandbox),
  not from pilota's structure: own type-code tables, own big- and little-endian and two's-complement
  definitions, the set of legal encodings of a value as inductive relations (`SpecBin.Enc`,
  `SpecCmp.Enc`) admitting every alternative the facts allow, a canonical encoder, a total decoder
  and an executable membership checker for the relations.
  Shared with the rest of the model: only `Base` (byte lists, `Out`, and the arithmetic definitions of
  LEB128 `encVar` and zig-zag `zigzag`, whose inverses are proved in `Lemmas/Varint`) and the value
  trees of `Thrift/Types`.
-/
namespace Pilota.Thrift.Spec
open Pilota Pilota.Thrift

/-- big-endian, most significant byte first. -/
def be : Nat → Nat → Bytes
  | 0, _ => []
  | w+1, n => UInt8.ofNat (n / 256 ^ w % 256) :: be w n

/-- little-endian, least significant byte first. -/
def le : Nat → Nat → Bytes
  | 0, _ => []
  | w+1, n => UInt8.ofNat (n % 256) :: le w (n / 256)

/-- two's complement of a signed integer on `w` bytes. -/
def twos (w : Nat) (i : Int) : Nat := if 0 ≤ i then i.toNat else 256 ^ w - (-i).toNat

/-- value of big-endian bytes.  (`256 ^ k * b`, not `b * 256 ^ k`: the kernel unfolds `Nat.mul` on its
second argument, and a literal there means millions of steps when the first one is symbolic.) -/
def ofBe : Bytes → Nat
  | [] => 0
  | b :: bs => 256 ^ bs.length * b.toNat + ofBe bs

def ofLe : Bytes → Nat
  | [] => 0
  | b :: bs => b.toNat + 256 * ofLe bs

/-- signed reading of a `w`-byte two's-complement number. -/
def signed (w : Nat) (n : Nat) : Int := if n < 256 ^ w / 2 then (n : Int) else (n : Int) - ((256 ^ w : Nat) : Int)

/-- unsigned LEB128 and zig-zag are the arithmetic definitions of `Base/Varint`. -/
abbrev uleb (n : Nat) : Bytes := encVar n
abbrev zz (i : Int) : Nat := zigzag i

/-! ### type codes -/

/-- binary protocol: BOOL 2, I8 3, DOUBLE 4, I16 6, I32 8, I64 10, BINARY 11, STRUCT 12, MAP 13, SET 14, LIST 15, UUID 16. -/
def binCode : TType → Option Nat
  | .bool => some 2 | .i8 => some 3 | .double => some 4 | .i16 => some 6 | .i32 => some 8 | .i64 => some 10
  | .binary => some 11 | .struct => some 12 | .map => some 13 | .set => some 14 | .list => some 15 | .uuid => some 16
  | .stop => none | .void => none

def binTypeOfCode : Nat → Option TType
  | 2 => some .bool | 3 => some .i8 | 4 => some .double | 6 => some .i16 | 8 => some .i32 | 10 => some .i64
  | 11 => some .binary | 12 => some .struct | 13 => some .map | 14 => some .set | 15 => some .list | 16 => some .uuid
  | _ => none

/-- compact protocol nibbles for everything except bool: I8 3, I16 4, I32 5, I64 6, DOUBLE 7, BINARY 8, LIST 9,
SET 10, MAP 11, STRUCT 12, UUID 13.  (bool: 1 = TRUE, 2 = FALSE.) -/
def cmpCode : TType → Option Nat
  | .i8 => some 3 | .i16 => some 4 | .i32 => some 5 | .i64 => some 6 | .double => some 7 | .binary => some 8
  | .list => some 9 | .set => some 10 | .map => some 11 | .struct => some 12 | .uuid => some 13
  | .bool => none | .stop => none | .void => none

def cmpTypeOfNibble : Nat → Option TType
  | 1 => some .bool | 2 => some .bool | 3 => some .i8 | 4 => some .i16 | 5 => some .i32 | 6 => some .i64
  | 7 => some .double | 8 => some .binary | 9 => some .list | 10 => some .set | 11 => some .map | 12 => some .struct
  | 13 => some .uuid
  | _ => none

/-- the nibble `c` may announce element / key / value type `t` (a bool container may use 1 or 2). -/
def elemCode (t : TType) (c : Nat) : Bool :=
  if t = .bool then c == 1 || c == 2 else cmpCode t == some c

end Pilota.Thrift.Spec

/-! ## binary protocol -/
namespace Pilota.Thrift.SpecBin
open Pilota Pilota.Thrift Pilota.Thrift.Spec

mutual
/-- `Enc v bs`: `bs` is a legal binary-protocol encoding of `v`. -/
inductive Enc : TVal → Bytes → Prop
  | boolT (x : UInt8) (h : x ≠ 0) : Enc (.bool true) [x]            -- readers: any non-zero byte is true
  | boolF : Enc (.bool false) [0]
  | i8 (n : Int) (h : inS 1 n) : Enc (.i8 n) (be 1 (twos 1 n))
  | i16 (n : Int) (h : inS 2 n) : Enc (.i16 n) (be 2 (twos 2 n))
  | i32 (n : Int) (h : inS 4 n) : Enc (.i32 n) (be 4 (twos 4 n))
  | i64 (n : Int) (h : inS 8 n) : Enc (.i64 n) (be 8 (twos 8 n))
  | dbl (b : Nat) (h : b < 2 ^ 64) : Enc (.dbl b) (be 8 b)
  | bin (bs : Bytes) (h : bs.length < 2 ^ 31) : Enc (.bin bs) (be 4 bs.length ++ bs)
  | uuid (bs : Bytes) (h : bs.length = 16) : Enc (.uuid bs) bs
  | struct (fs : TFields) (bs : Bytes) (h : EncFields fs bs) : Enc (.struct fs) bs
  | list (et : TType) (c : Nat) (xs : TVals) (bs : Bytes) (hc : binCode et = some c) (hl : xs.length < 2 ^ 31)
      (h : EncVals et xs bs) : Enc (.list et xs) (UInt8.ofNat c :: (be 4 xs.length ++ bs))
  | set (et : TType) (c : Nat) (xs : TVals) (bs : Bytes) (hc : binCode et = some c) (hl : xs.length < 2 ^ 31)
      (h : EncVals et xs bs) : Enc (.set et xs) (UInt8.ofNat c :: (be 4 xs.length ++ bs))
  | map (kt vt : TType) (ck cv : Nat) (kvs : TPairs) (bs : Bytes) (hk : binCode kt = some ck) (hv : binCode vt = some cv)
      (hl : kvs.length < 2 ^ 31) (h : EncPairs kt vt kvs bs) :
      Enc (.map kt vt kvs) (UInt8.ofNat ck :: UInt8.ofNat cv :: (be 4 kvs.length ++ bs))
inductive EncVals : TType → TVals → Bytes → Prop
  | nil (et : TType) : EncVals et .nil []
  | cons (et : TType) (v : TVal) (vs : TVals) (a b : Bytes) (ht : v.ttype = et) (hv : Enc v a) (hr : EncVals et vs b) :
      EncVals et (.cons v vs) (a ++ b)
inductive EncFields : TFields → Bytes → Prop
  | nil : EncFields .nil [0]                                         -- STOP
  | cons (id : Int) (v : TVal) (rest : TFields) (c : Nat) (a b : Bytes) (hid : inS 2 id) (hc : binCode v.ttype = some c)
      (hv : Enc v a) (hr : EncFields rest b) : EncFields (.cons id v rest) (UInt8.ofNat c :: (be 2 (twos 2 id) ++ (a ++ b)))
inductive EncPairs : TType → TType → TPairs → Bytes → Prop
  | nil (kt vt : TType) : EncPairs kt vt .nil []
  | cons (kt vt : TType) (k v : TVal) (rest : TPairs) (a b c : Bytes) (hk : k.ttype = kt) (hv : v.ttype = vt)
      (ek : Enc k a) (ev : Enc v b) (hr : EncPairs kt vt rest c) : EncPairs kt vt (.cons k v rest) (a ++ (b ++ c))
end

-- the canonical encoder (writers emit 1 for true)
mutual
def encode : TVal → Bytes
  | .bool b => [if b then 1 else 0]
  | .i8 n => be 1 (twos 1 n) | .i16 n => be 2 (twos 2 n) | .i32 n => be 4 (twos 4 n) | .i64 n => be 8 (twos 8 n)
  | .dbl b => be 8 b
  | .bin bs => be 4 bs.length ++ bs
  | .uuid bs => bs
  | .struct fs => encodeFields fs
  | .list et xs => UInt8.ofNat ((binCode et).getD 0) :: (be 4 xs.length ++ encodeVals xs)
  | .set et xs => UInt8.ofNat ((binCode et).getD 0) :: (be 4 xs.length ++ encodeVals xs)
  | .map kt vt kvs => UInt8.ofNat ((binCode kt).getD 0) :: UInt8.ofNat ((binCode vt).getD 0) :: (be 4 kvs.length ++ encodePairs kvs)
def encodeVals : TVals → Bytes
  | .nil => []
  | .cons v vs => encode v ++ encodeVals vs
def encodeFields : TFields → Bytes
  | .nil => [0]
  | .cons id v r => UInt8.ofNat ((binCode v.ttype).getD 0) :: (be 2 (twos 2 id) ++ (encode v ++ encodeFields r))
def encodePairs : TPairs → Bytes
  | .nil => []
  | .cons k v r => encode k ++ (encode v ++ encodePairs r)
end

/-- `stripPrefix p bs`: `bs` without its prefix `p`. -/
def stripPrefix : Bytes → Bytes → Option Bytes
  | [], bs => some bs
  | _ :: _, [] => none
  | p :: ps, b :: bs => if p = b then stripPrefix ps bs else none

-- executable membership test: `chk v bs = some r` iff a prefix of `bs` is a legal encoding of `v` and `r` is the rest
mutual
def chk : TVal → Bytes → Option Bytes
  | .bool _, [] => none
  | .bool b, x :: r => if (b && x != 0) || (!b && x == 0) then some r else none
  | .i8 n, bs => if inS 1 n then stripPrefix (be 1 (twos 1 n)) bs else none
  | .i16 n, bs => if inS 2 n then stripPrefix (be 2 (twos 2 n)) bs else none
  | .i32 n, bs => if inS 4 n then stripPrefix (be 4 (twos 4 n)) bs else none
  | .i64 n, bs => if inS 8 n then stripPrefix (be 8 (twos 8 n)) bs else none
  | .dbl b, bs => if b < 2 ^ 64 then stripPrefix (be 8 b) bs else none
  | .bin p, bs => if p.length < 2 ^ 31 then stripPrefix (be 4 p.length ++ p) bs else none
  | .uuid p, bs => if p.length = 16 then stripPrefix p bs else none
  | .struct fs, bs => chkFields fs bs
  | .list et xs, bs => match binCode et with
    | none => none
    | some c => if xs.length < 2 ^ 31 then (stripPrefix (UInt8.ofNat c :: be 4 xs.length) bs).bind (chkVals et xs) else none
  | .set et xs, bs => match binCode et with
    | none => none
    | some c => if xs.length < 2 ^ 31 then (stripPrefix (UInt8.ofNat c :: be 4 xs.length) bs).bind (chkVals et xs) else none
  | .map kt vt kvs, bs => match binCode kt, binCode vt with
    | some ck, some cv =>
      if kvs.length < 2 ^ 31 then (stripPrefix (UInt8.ofNat ck :: UInt8.ofNat cv :: be 4 kvs.length) bs).bind (chkPairs kt vt kvs) else none
    | _, _ => none
def chkVals : TType → TVals → Bytes → Option Bytes
  | _, .nil, bs => some bs
  | et, .cons v vs, bs => if v.ttype = et then (chk v bs).bind (chkVals et vs) else none
def chkFields : TFields → Bytes → Option Bytes
  | .nil, bs => stripPrefix [0] bs
  | .cons id v rest, bs => match binCode v.ttype with
    | none => none
    | some c => if inS 2 id then ((stripPrefix (UInt8.ofNat c :: be 2 (twos 2 id)) bs).bind (chk v)).bind (chkFields rest) else none
def chkPairs : TType → TType → TPairs → Bytes → Option Bytes
  | _, _, .nil, bs => some bs
  | kt, vt, .cons k v rest, bs =>
    if k.ttype = kt ∧ v.ttype = vt then ((chk k bs).bind (chk v)).bind (chkPairs kt vt rest) else none
end

/-- `bs` is exactly a legal encoding of `v`. -/
def check (v : TVal) (bs : Bytes) : Bool := chk v bs == some []

/-! total decoder (fuel = number of nested calls it may make) -/

def take (n : Nat) (bs : Bytes) : Out (Bytes × Bytes) :=
  if n ≤ bs.length then .ok (bs.take n, bs.drop n) else .err .eof

def int (w : Nat) (bs : Bytes) : Out (Int × Bytes) :=
  match take w bs with
  | .ok (a, r) => .ok (signed w (ofBe a), r)
  | .err k => .err k | .panic m => .panic m | .fuel => .fuel

def typeByte (bs : Bytes) : Out (TType × Bytes) :=
  match bs with
  | [] => .err .eof
  | b :: r => match binTypeOfCode b.toNat with
    | some t => .ok (t, r)
    | none => .err .invalid

/-- a non-negative i32 count / length. -/
def count (bs : Bytes) : Out (Nat × Bytes) :=
  match int 4 bs with
  | .ok (n, r) => if n < 0 then .err .invalid else .ok (n.toNat, r)
  | .err k => .err k | .panic m => .panic m | .fuel => .fuel

/-- a bool: any non-zero byte is true. -/
def boolVal (bs : Bytes) : Out (Bool × Bytes) :=
  match bs with
  | [] => .err .eof
  | x :: r => .ok (x != 0, r)

/-- binary / string payload: i32 length, then that many bytes. -/
def payload (bs : Bytes) : Out (Bytes × Bytes) :=
  match count bs with
  | .ok (n, r) => take n r
  | .err k => .err k | .panic m => .panic m | .fuel => .fuel

/-- list / set header: element type byte, i32 count. -/
def listHdr (bs : Bytes) : Out ((TType × Nat) × Bytes) :=
  match typeByte bs with
  | .ok (et, r) => (match count r with
    | .ok (n, r) => .ok ((et, n), r)
    | .err k => .err k | .panic m => .panic m | .fuel => .fuel)
  | .err k => .err k | .panic m => .panic m | .fuel => .fuel

def mapHdr (bs : Bytes) : Out ((TType × TType × Nat) × Bytes) :=
  match typeByte bs with
  | .ok (kt, r) => (match listHdr r with
    | .ok ((vt, n), r) => .ok ((kt, vt, n), r)
    | .err k => .err k | .panic m => .panic m | .fuel => .fuel)
  | .err k => .err k | .panic m => .panic m | .fuel => .fuel

/-- field header: `none` for STOP, else type and id. -/
def fieldHdr (bs : Bytes) : Out (Option (TType × Int) × Bytes) :=
  match bs with
  | [] => .err .eof
  | b :: r =>
    if b = 0 then .ok (none, r)
    else match binTypeOfCode b.toNat with
      | none => .err .invalid
      | some t => match int 2 r with
        | .ok (id, r) => .ok (some (t, id), r)
        | .err k => .err k | .panic m => .panic m | .fuel => .fuel

mutual
def decode : Nat → TType → Bytes → Out (TVal × Bytes)
  | 0, _, _ => .fuel
  | _+1, .bool, bs => match boolVal bs with
    | .ok (b, r) => .ok (.bool b, r) | .err k => .err k | .panic m => .panic m | .fuel => .fuel
  | _+1, .i8, bs => match int 1 bs with
    | .ok (n, r) => .ok (.i8 n, r) | .err k => .err k | .panic m => .panic m | .fuel => .fuel
  | _+1, .i16, bs => match int 2 bs with
    | .ok (n, r) => .ok (.i16 n, r) | .err k => .err k | .panic m => .panic m | .fuel => .fuel
  | _+1, .i32, bs => match int 4 bs with
    | .ok (n, r) => .ok (.i32 n, r) | .err k => .err k | .panic m => .panic m | .fuel => .fuel
  | _+1, .i64, bs => match int 8 bs with
    | .ok (n, r) => .ok (.i64 n, r) | .err k => .err k | .panic m => .panic m | .fuel => .fuel
  | _+1, .double, bs => match take 8 bs with
    | .ok (a, r) => .ok (.dbl (ofBe a), r) | .err k => .err k | .panic m => .panic m | .fuel => .fuel
  | _+1, .binary, bs => match payload bs with
    | .ok (a, r) => .ok (.bin a, r) | .err k => .err k | .panic m => .panic m | .fuel => .fuel
  | _+1, .uuid, bs => match take 16 bs with
    | .ok (a, r) => .ok (.uuid a, r) | .err k => .err k | .panic m => .panic m | .fuel => .fuel
  | f+1, .struct, bs => match decodeFields f bs with
    | .ok (fs, r) => .ok (.struct fs, r) | .err k => .err k | .panic m => .panic m | .fuel => .fuel
  | f+1, .list, bs => match listHdr bs with
    | .ok ((et, n), r) => match decodeVals f et n r with
      | .ok (xs, r) => .ok (.list et xs, r) | .err k => .err k | .panic m => .panic m | .fuel => .fuel
    | .err k => .err k | .panic m => .panic m | .fuel => .fuel
  | f+1, .set, bs => match listHdr bs with
    | .ok ((et, n), r) => match decodeVals f et n r with
      | .ok (xs, r) => .ok (.set et xs, r) | .err k => .err k | .panic m => .panic m | .fuel => .fuel
    | .err k => .err k | .panic m => .panic m | .fuel => .fuel
  | f+1, .map, bs => match mapHdr bs with
    | .ok ((kt, vt, n), r) => match decodePairs f kt vt n r with
      | .ok (kvs, r) => .ok (.map kt vt kvs, r) | .err k => .err k | .panic m => .panic m | .fuel => .fuel
    | .err k => .err k | .panic m => .panic m | .fuel => .fuel
  | _+1, .stop, _ => .err .invalid
  | _+1, .void, _ => .err .invalid
def decodeFields : Nat → Bytes → Out (TFields × Bytes)
  | 0, _ => .fuel
  | f+1, bs => match fieldHdr bs with
    | .ok (none, r) => .ok (.nil, r)
    | .ok (some (t, id), r) => match decode f t r with
      | .ok (v, r) => match decodeFields f r with
        | .ok (rest, r) => .ok (.cons id v rest, r) | .err k => .err k | .panic m => .panic m | .fuel => .fuel
      | .err k => .err k | .panic m => .panic m | .fuel => .fuel
    | .err k => .err k | .panic m => .panic m | .fuel => .fuel
def decodeVals : Nat → TType → Nat → Bytes → Out (TVals × Bytes)
  | 0, _, _, _ => .fuel
  | _+1, _, 0, bs => .ok (.nil, bs)
  | f+1, et, n+1, bs => match decode f et bs with
    | .ok (v, r) => match decodeVals f et n r with
      | .ok (vs, r) => .ok (.cons v vs, r) | .err k => .err k | .panic m => .panic m | .fuel => .fuel
    | .err k => .err k | .panic m => .panic m | .fuel => .fuel
def decodePairs : Nat → TType → TType → Nat → Bytes → Out (TPairs × Bytes)
  | 0, _, _, _, _ => .fuel
  | _+1, _, _, 0, bs => .ok (.nil, bs)
  | f+1, kt, vt, n+1, bs => match decode f kt bs with
    | .ok (k, r) => match decode f vt r with
      | .ok (v, r) => match decodePairs f kt vt n r with
        | .ok (rest, r) => .ok (.cons k v rest, r) | .err k => .err k | .panic m => .panic m | .fuel => .fuel
      | .err k => .err k | .panic m => .panic m | .fuel => .fuel
    | .err k => .err k | .panic m => .panic m | .fuel => .fuel
end

def decodeTop (t : TType) (bs : Bytes) : Out (TVal × Bytes) := decode (3 * bs.length + 3) t bs

/-- strict message envelope: i32 `0x8001_0000 | type`, string name, i32 seqid. -/
def message (name : Bytes) (mt : Nat) (seq : Int) : Bytes :=
  be 4 (0x80010000 + mt) ++ (be 4 name.length ++ name) ++ be 4 (twos 4 seq)

end Pilota.Thrift.SpecBin

/-! ## compact protocol -/
namespace Pilota.Thrift.SpecCmp
open Pilota Pilota.Thrift Pilota.Thrift.Spec

/-- field header for type nibble `c` and id `id` after a field with id `last` (0 at the start of a struct):
`dddd tttt` with delta 1..15, or `0000 tttt` followed by the zig-zag varint id — the long form is legal
even when a delta would fit. -/
inductive Hdr (last : Int) (c : Nat) (id : Int) : Bytes → Prop
  | short (d : Nat) (h1 : 1 ≤ d) (h2 : d ≤ 15) (h : id = last + (d : Int)) : Hdr last c id [UInt8.ofNat (d * 16 + c)]
  | long : Hdr last c id (UInt8.ofNat c :: uleb (zz id))

/-- list / set header: `ssss tttt` for size 0..14, `1111 tttt` + varint size for size ≥ 15. -/
inductive CollHdr (c : Nat) (n : Nat) : Bytes → Prop
  | short (h : n ≤ 14) : CollHdr c n [UInt8.ofNat (n * 16 + c)]
  | long (h : 15 ≤ n) : CollHdr c n (UInt8.ofNat (0xF0 + c) :: uleb n)

mutual
/-- `Enc v bs`: `bs` is a legal compact-protocol encoding of `v` outside a field (bools take a byte). -/
inductive Enc : TVal → Bytes → Prop
  | boolT : Enc (.bool true) [1]
  | boolF : Enc (.bool false) [2]
  | i8 (n : Int) (h : inS 1 n) : Enc (.i8 n) (be 1 (twos 1 n))
  | i16 (n : Int) (h : inS 2 n) : Enc (.i16 n) (uleb (zz n))
  | i32 (n : Int) (h : inS 4 n) : Enc (.i32 n) (uleb (zz n))
  | i64 (n : Int) (h : inS 8 n) : Enc (.i64 n) (uleb (zz n))
  | dbl (b : Nat) (h : b < 2 ^ 64) : Enc (.dbl b) (le 8 b)
  | bin (bs : Bytes) (h : bs.length < 2 ^ 31) : Enc (.bin bs) (uleb bs.length ++ bs)
  | uuid (bs : Bytes) (h : bs.length = 16) : Enc (.uuid bs) bs
  | struct (fs : TFields) (bs : Bytes) (h : EncFields 0 fs bs) : Enc (.struct fs) bs          -- fresh id context
  | list (et : TType) (c : Nat) (xs : TVals) (hd bs : Bytes) (hc : elemCode et c = true) (hl : xs.length < 2 ^ 31)
      (hh : CollHdr c xs.length hd) (h : EncVals et xs bs) : Enc (.list et xs) (hd ++ bs)
  | set (et : TType) (c : Nat) (xs : TVals) (hd bs : Bytes) (hc : elemCode et c = true) (hl : xs.length < 2 ^ 31)
      (hh : CollHdr c xs.length hd) (h : EncVals et xs bs) : Enc (.set et xs) (hd ++ bs)
  | mapEmpty (kt vt : TType) (hk : kt.isValue = true) (hv : vt.isValue = true) : Enc (.map kt vt .nil) [0]
  | map (kt vt : TType) (ck cv : Nat) (k v : TVal) (rest : TPairs) (bs : Bytes) (hk : elemCode kt ck = true) (hv : elemCode vt cv = true)
      (hl : (TPairs.cons k v rest).length < 2 ^ 31) (h : EncPairs kt vt (.cons k v rest) bs) :
      Enc (.map kt vt (.cons k v rest)) (uleb (TPairs.cons k v rest).length ++ (UInt8.ofNat (ck * 16 + cv) :: bs))
inductive EncVals : TType → TVals → Bytes → Prop
  | nil (et : TType) : EncVals et .nil []
  | cons (et : TType) (v : TVal) (vs : TVals) (a b : Bytes) (ht : v.ttype = et) (hv : Enc v a) (hr : EncVals et vs b) :
      EncVals et (.cons v vs) (a ++ b)
/-- fields after a field with id `last`. -/
inductive EncFields : Int → TFields → Bytes → Prop
  | nil (last : Int) : EncFields last .nil [0]
  | bool (last id : Int) (b : Bool) (rest : TFields) (hd bs : Bytes) (hid : inS 2 id)
      (hh : Hdr last (if b then 1 else 2) id hd) (hr : EncFields id rest bs) :
      EncFields last (.cons id (.bool b) rest) (hd ++ bs)                                   -- value in the type nibble
  | cons (last id : Int) (v : TVal) (rest : TFields) (c : Nat) (hd a bs : Bytes) (hid : inS 2 id)
      (hc : cmpCode v.ttype = some c) (hh : Hdr last c id hd) (hv : Enc v a) (hr : EncFields id rest bs) :
      EncFields last (.cons id v rest) (hd ++ (a ++ bs))
inductive EncPairs : TType → TType → TPairs → Bytes → Prop
  | nil (kt vt : TType) : EncPairs kt vt .nil []
  | cons (kt vt : TType) (k v : TVal) (rest : TPairs) (a b c : Bytes) (hk : k.ttype = kt) (hv : v.ttype = vt)
      (ek : Enc k a) (ev : Enc v b) (hr : EncPairs kt vt rest c) : EncPairs kt vt (.cons k v rest) (a ++ (b ++ c))
end

/-- canonical choices: short field header whenever a delta `1..m` fits (`m ≤ 15`; the natural choice is 15,
pilota's writer uses 14 — both legal), bool element type nibble 1. -/
def hdr (m : Nat) (last : Int) (c : Nat) (id : Int) : Bytes :=
  let d := id - last
  if 1 ≤ d ∧ d ≤ (m : Int) then [UInt8.ofNat (d.toNat * 16 + c)] else UInt8.ofNat c :: uleb (zz id)

def collHdr (c n : Nat) : Bytes :=
  if n ≤ 14 then [UInt8.ofNat (n * 16 + c)] else UInt8.ofNat (0xF0 + c) :: uleb n

def elemNibble (t : TType) : Nat := if t = .bool then 1 else (cmpCode t).getD 0

mutual
def encode (m : Nat) : TVal → Bytes
  | .bool b => [if b then 1 else 2]
  | .i8 n => be 1 (twos 1 n)
  | .i16 n => uleb (zz n) | .i32 n => uleb (zz n) | .i64 n => uleb (zz n)
  | .dbl b => le 8 b
  | .bin bs => uleb bs.length ++ bs
  | .uuid bs => bs
  | .struct fs => encodeFields m 0 fs
  | .list et xs => collHdr (elemNibble et) xs.length ++ encodeVals m xs
  | .set et xs => collHdr (elemNibble et) xs.length ++ encodeVals m xs
  | .map _ _ .nil => [0]
  | .map kt vt (.cons k v r) =>
    uleb (TPairs.cons k v r).length ++ (UInt8.ofNat (elemNibble kt * 16 + elemNibble vt) :: encodePairs m (.cons k v r))
def encodeVals (m : Nat) : TVals → Bytes
  | .nil => []
  | .cons v vs => encode m v ++ encodeVals m vs
def encodeFields (m : Nat) : Int → TFields → Bytes
  | _, .nil => [0]
  | last, .cons id (.bool b) r => hdr m last (if b then 1 else 2) id ++ encodeFields m id r
  | last, .cons id v r => hdr m last ((cmpCode v.ttype).getD 0) id ++ (encode m v ++ encodeFields m id r)
def encodePairs (m : Nat) : TPairs → Bytes
  | .nil => []
  | .cons k v r => encode m k ++ (encode m v ++ encodePairs m r)
end

/-- recognise a field header for (`c`, `id`) after `last`: the first byte decides the form. -/
def chkHdr (last : Int) (c : Nat) (id : Int) : Bytes → Option Bytes
  | [] => none
  | b :: r =>
    let d := b.toNat / 16
    if b.toNat % 16 ≠ c then none
    else if d = 0 then SpecBin.stripPrefix (uleb (zz id)) r
    else if id = last + (d : Int) then some r else none

def chkCollHdr (c n : Nat) : Bytes → Option Bytes
  | [] => none
  | b :: r =>
    if b.toNat % 16 ≠ c then none
    else if b.toNat / 16 = 15 then (if 15 ≤ n then SpecBin.stripPrefix (uleb n) r else none)
    else if b.toNat / 16 = n then some r else none

mutual
def chk : TVal → Bytes → Option Bytes
  | .bool b, bs => SpecBin.stripPrefix [if b then 1 else 2] bs
  | .i8 n, bs => if inS 1 n then SpecBin.stripPrefix (be 1 (twos 1 n)) bs else none
  | .i16 n, bs => if inS 2 n then SpecBin.stripPrefix (uleb (zz n)) bs else none
  | .i32 n, bs => if inS 4 n then SpecBin.stripPrefix (uleb (zz n)) bs else none
  | .i64 n, bs => if inS 8 n then SpecBin.stripPrefix (uleb (zz n)) bs else none
  | .dbl b, bs => if b < 2 ^ 64 then SpecBin.stripPrefix (le 8 b) bs else none
  | .bin p, bs => if p.length < 2 ^ 31 then SpecBin.stripPrefix (uleb p.length ++ p) bs else none
  | .uuid p, bs => if p.length = 16 then SpecBin.stripPrefix p bs else none
  | .struct fs, bs => chkFields 0 fs bs
  | .list et xs, bs => match bs with
    | [] => none
    | b :: _ => if elemCode et (b.toNat % 16) && decide (xs.length < 2 ^ 31)
        then (chkCollHdr (b.toNat % 16) xs.length bs).bind (chkVals et xs) else none
  | .set et xs, bs => match bs with
    | [] => none
    | b :: _ => if elemCode et (b.toNat % 16) && decide (xs.length < 2 ^ 31)
        then (chkCollHdr (b.toNat % 16) xs.length bs).bind (chkVals et xs) else none
  | .map kt vt .nil, bs => if kt.isValue && vt.isValue then SpecBin.stripPrefix [0] bs else none
  | .map kt vt (.cons k v r), bs =>
    if (TPairs.cons k v r).length < 2 ^ 31 then
      match SpecBin.stripPrefix (uleb (TPairs.cons k v r).length) bs with
      | some (h :: rest) =>
        if elemCode kt (h.toNat / 16) && elemCode vt (h.toNat % 16) then chkPairs kt vt (.cons k v r) rest else none
      | _ => none
    else none
def chkVals : TType → TVals → Bytes → Option Bytes
  | _, .nil, bs => some bs
  | et, .cons v vs, bs => if v.ttype = et then (chk v bs).bind (chkVals et vs) else none
def chkFields : Int → TFields → Bytes → Option Bytes
  | _, .nil, bs => SpecBin.stripPrefix [0] bs
  | last, .cons id (.bool b) rest, bs =>
    if inS 2 id then (chkHdr last (if b then 1 else 2) id bs).bind (chkFields id rest) else none
  | last, .cons id v rest, bs => match cmpCode v.ttype with
    | none => none
    | some c => if inS 2 id then ((chkHdr last c id bs).bind (chk v)).bind (chkFields id rest) else none
def chkPairs : TType → TType → TPairs → Bytes → Option Bytes
  | _, _, .nil, bs => some bs
  | kt, vt, .cons k v rest, bs =>
    if k.ttype = kt ∧ v.ttype = vt then ((chk k bs).bind (chk v)).bind (chkPairs kt vt rest) else none
end

def check (v : TVal) (bs : Bytes) : Bool := chk v bs == some []

/-! total decoder -/


/-- unsigned LEB128 of at most `k` bytes. -/
def varint : Nat → Bytes → Out (Nat × Bytes)
  | 0, _ => .err .invalid
  | _+1, [] => .err .eof
  | k+1, b :: r =>
    if b.toNat < 128 then .ok (b.toNat, r)
    else match varint k r with
      | .ok (n, r) => .ok (b.toNat - 128 + 128 * n, r)
      | .err e => .err e | .panic m => .panic m | .fuel => .fuel

def unzz (n : Nat) : Int := if n % 2 = 0 then ((n / 2 : Nat) : Int) else -(((n + 1) / 2 : Nat) : Int)

/-- zig-zag varint of a `w`-byte signed integer (out of range is an error). -/
def zint (w : Nat) (bs : Bytes) : Out (Int × Bytes) :=
  match varint 10 bs with
  | .ok (n, r) => if n < 256 ^ w then .ok (unzz n, r) else .err .invalid
  | .err e => .err e | .panic m => .panic m | .fuel => .fuel

def size (bs : Bytes) : Out (Nat × Bytes) :=
  match varint 5 bs with
  | .ok (n, r) => if n < 2 ^ 31 then .ok (n, r) else .err .invalid
  | .err e => .err e | .panic m => .panic m | .fuel => .fuel

/-- a bool outside a field header: one byte, 1 or 2. -/
def boolVal (bs : Bytes) : Out (Bool × Bytes) :=
  match bs with
  | [] => .err .eof
  | x :: r => if x = 1 then .ok (true, r) else if x = 2 then .ok (false, r) else .err .invalid

def payload (bs : Bytes) : Out (Bytes × Bytes) :=
  match size bs with
  | .ok (n, r) => SpecBin.take n r
  | .err k => .err k | .panic m => .panic m | .fuel => .fuel

/-- list / set header. -/
def listHdr (bs : Bytes) : Out ((TType × Nat) × Bytes) :=
  match bs with
  | [] => .err .eof
  | h :: r => match cmpTypeOfNibble (h.toNat % 16) with
    | none => .err .invalid
    | some et => match (if h.toNat / 16 = 15 then size r else .ok (h.toNat / 16, r)) with
      | .ok (n, r) => .ok ((et, n), r)
      | .err k => .err k | .panic m => .panic m | .fuel => .fuel

/-- map header: `none` for the one-byte empty map (its types are not on the wire). -/
def mapHdr (bs : Bytes) : Out (Option (TType × TType × Nat) × Bytes) :=
  match size bs with
  | .ok (n, r) =>
    if n = 0 then .ok (none, r)
    else (match r with
      | [] => .err .eof
      | h :: r => match cmpTypeOfNibble (h.toNat / 16), cmpTypeOfNibble (h.toNat % 16) with
        | some kt, some vt => .ok (some (kt, vt, n), r)
        | _, _ => .err .invalid)
  | .err k => .err k | .panic m => .panic m | .fuel => .fuel

/-- field header after a field with id `last`: `none` for STOP; else the type, the id, and — for a
bool field — the value carried by the type nibble. -/
def fieldHdr (last : Int) (bs : Bytes) : Out (Option (TType × Int × Option Bool) × Bytes) :=
  match bs with
  | [] => .err .eof
  | b :: r =>
    if b = 0 then .ok (none, r)
    else match cmpTypeOfNibble (b.toNat % 16) with
      | none => .err .invalid
      | some t =>
        match (if b.toNat / 16 = 0 then zint 2 r else .ok (last + ((b.toNat / 16 : Nat) : Int), r)) with
        | .ok (id, r) =>
          .ok (some (t, id, if b.toNat % 16 = 1 then some true else if b.toNat % 16 = 2 then some false else none), r)
        | .err k => .err k | .panic m => .panic m | .fuel => .fuel

mutual
def decode : Nat → TType → Bytes → Out (TVal × Bytes)
  | 0, _, _ => .fuel
  | _+1, .bool, bs => match boolVal bs with
    | .ok (b, r) => .ok (.bool b, r) | .err k => .err k | .panic m => .panic m | .fuel => .fuel
  | _+1, .i8, bs => match SpecBin.int 1 bs with
    | .ok (n, r) => .ok (.i8 n, r) | .err k => .err k | .panic m => .panic m | .fuel => .fuel
  | _+1, .i16, bs => match zint 2 bs with
    | .ok (n, r) => .ok (.i16 n, r) | .err k => .err k | .panic m => .panic m | .fuel => .fuel
  | _+1, .i32, bs => match zint 4 bs with
    | .ok (n, r) => .ok (.i32 n, r) | .err k => .err k | .panic m => .panic m | .fuel => .fuel
  | _+1, .i64, bs => match zint 8 bs with
    | .ok (n, r) => .ok (.i64 n, r) | .err k => .err k | .panic m => .panic m | .fuel => .fuel
  | _+1, .double, bs => match SpecBin.take 8 bs with
    | .ok (a, r) => .ok (.dbl (ofLe a), r) | .err k => .err k | .panic m => .panic m | .fuel => .fuel
  | _+1, .binary, bs => match payload bs with
    | .ok (a, r) => .ok (.bin a, r) | .err k => .err k | .panic m => .panic m | .fuel => .fuel
  | _+1, .uuid, bs => match SpecBin.take 16 bs with
    | .ok (a, r) => .ok (.uuid a, r) | .err k => .err k | .panic m => .panic m | .fuel => .fuel
  | f+1, .struct, bs => match decodeFields f 0 bs with
    | .ok (fs, r) => .ok (.struct fs, r) | .err k => .err k | .panic m => .panic m | .fuel => .fuel
  | f+1, .list, bs => match listHdr bs with
    | .ok ((et, n), r) => match decodeVals f et n r with
      | .ok (xs, r) => .ok (.list et xs, r) | .err k => .err k | .panic m => .panic m | .fuel => .fuel
    | .err k => .err k | .panic m => .panic m | .fuel => .fuel
  | f+1, .set, bs => match listHdr bs with
    | .ok ((et, n), r) => match decodeVals f et n r with
      | .ok (xs, r) => .ok (.set et xs, r) | .err k => .err k | .panic m => .panic m | .fuel => .fuel
    | .err k => .err k | .panic m => .panic m | .fuel => .fuel
  | f+1, .map, bs => match mapHdr bs with
    | .ok (none, r) => .ok (.map .stop .stop .nil, r)
    | .ok (some (kt, vt, n), r) => match decodePairs f kt vt n r with
      | .ok (kvs, r) => .ok (.map kt vt kvs, r) | .err k => .err k | .panic m => .panic m | .fuel => .fuel
    | .err k => .err k | .panic m => .panic m | .fuel => .fuel
  | _+1, .stop, _ => .err .invalid
  | _+1, .void, _ => .err .invalid
def decodeFields : Nat → Int → Bytes → Out (TFields × Bytes)
  | 0, _, _ => .fuel
  | f+1, last, bs => match fieldHdr last bs with
    | .ok (none, r) => .ok (.nil, r)
    | .ok (some (_, id, some b), r) => match decodeFields f id r with
      | .ok (rest, r) => .ok (.cons id (.bool b) rest, r) | .err k => .err k | .panic m => .panic m | .fuel => .fuel
    | .ok (some (t, id, none), r) => match decode f t r with
      | .ok (v, r) => match decodeFields f id r with
        | .ok (rest, r) => .ok (.cons id v rest, r) | .err k => .err k | .panic m => .panic m | .fuel => .fuel
      | .err k => .err k | .panic m => .panic m | .fuel => .fuel
    | .err k => .err k | .panic m => .panic m | .fuel => .fuel
def decodeVals : Nat → TType → Nat → Bytes → Out (TVals × Bytes)
  | 0, _, _, _ => .fuel
  | _+1, _, 0, bs => .ok (.nil, bs)
  | f+1, et, n+1, bs => match decode f et bs with
    | .ok (v, r) => match decodeVals f et n r with
      | .ok (vs, r) => .ok (.cons v vs, r) | .err k => .err k | .panic m => .panic m | .fuel => .fuel
    | .err k => .err k | .panic m => .panic m | .fuel => .fuel
def decodePairs : Nat → TType → TType → Nat → Bytes → Out (TPairs × Bytes)
  | 0, _, _, _, _ => .fuel
  | _+1, _, _, 0, bs => .ok (.nil, bs)
  | f+1, kt, vt, n+1, bs => match decode f kt bs with
    | .ok (k, r) => match decode f vt r with
      | .ok (v, r) => match decodePairs f kt vt n r with
        | .ok (rest, r) => .ok (.cons k v rest, r) | .err k => .err k | .panic m => .panic m | .fuel => .fuel
      | .err k => .err k | .panic m => .panic m | .fuel => .fuel
    | .err k => .err k | .panic m => .panic m | .fuel => .fuel
end

def decodeTop (t : TType) (bs : Bytes) : Out (TVal × Bytes) := decode (3 * bs.length + 3) t bs

/-- message: protocol id `0x82`, `ttt vvvvv` with version 1, seqid as the unsigned varint of the i32's
bit pattern, name. -/
def message (name : Bytes) (mt : Nat) (seq : Int) : Bytes :=
  [0x82, UInt8.ofNat (mt * 32 + 1)] ++ uleb (twos 4 seq) ++ (uleb name.length ++ name)

end Pilota.Thrift.SpecCmp
