import PilotaModel.Thrift.Binary
import PilotaModel.Thrift.Compact
import PilotaModel.Gen.Tables
/-
  The skippers (C07, C09).

  (a) `skipVal` — `TInputProtocol::skip_till_depth`, the default recursive skipper of
      thrift/mod.rs, as the binary and little-endian binary readers inherit it: fixed-width
      `advance` arms behind `assert_remaining!`, `read_i32` length for `Binary`
      (`length as usize`), an `i8` depth budget decremented per level, `DepthLimit` both for
      `depth == 0` and for an unskippable type, and the `*_len` bookkeeping it returns.
  (b) `rdSkip` — a read-and-discard skipper over reader primitives `Prims σ`.  It is
      (b1) the compact reader's own `skip_till_depth` (compact.rs) with `compactPrims`; the count
           is `before - after` (`cskip`);
      (b2) the async skipper `TAsyncInputProtocol::skip_till_depth` (mod.rs), which is generic over
           the async reader, with `asyncBinaryPrims` / `asyncCompactPrims`: the async reader
           primitives over a fully delivered stream.  It returns unit; callers compare the
           bytes consumed.
  (c) `iterStep`/`iterRun` — the unchecked reader's iterative skipper (binary_unsafe.rs) as an
      explicit stack machine: one `iterStep` per loop iteration, the fixed-size fast paths through
      the table `BINARY_BASIC_TYPE_FIXED_SIZE` (T2: `Gen.Tables.binaryFixedSize`),
      `skip_stack_pop!`, parity-indexed map frames.  It ignores its depth argument.
-/
namespace Pilota.Thrift.Skip
open Pilota Pilota.Thrift

/-! ### (a) the default recursive skipper (binary, binary-LE) -/

/-- `assert_remaining!(remaining >= w); advance(w); len += w`. -/
def advance (w : Nat) (bs : Bytes) : Out (Nat × Bytes) :=
  if w ≤ bs.length then .ok (w, bs.drop w) else .err .eof

/-- `TType::Binary` arm: `read_i32`, `assert_remaining!(remaining >= length as usize)`, `advance`,
`len += 4 + length as usize`. -/
def skipBinary (e : Endian) (bs : Bytes) : Out (Nat × Bytes) :=
  match Binary.readI e 4 bs with
  | .ok (len, r) =>
    let n := Binary.asUsize len
    if n ≤ r.length then .ok (4 + n, r.drop n) else .err .eof
  | .err k => .err k | .panic s => .panic s | .fuel => .fuel

-- `field_begin_len` = 3, `field_stop_len` = 1, `list_begin_len` = `set_begin_len` = 5,
-- `map_begin_len` = 6, every `*_end_len` and `struct_begin_len` = 0 (`Len.binOp`).
-- `depth - 1` is an `i8` subtraction: it overflows (debug-build panic) at `i8::MIN`.
mutual
def skipVal (e : Endian) : Nat → Int → TType → Bytes → Out (Nat × Bytes)
  | 0, _, _, _ => .fuel
  | f+1, d, t, bs =>
    if d = 0 then .err .depth
    else match t with
      | .bool => advance 1 bs
      | .i8 => advance 1 bs
      | .i16 => advance 2 bs
      | .i32 => advance 4 bs
      | .i64 => advance 8 bs
      | .double => advance 8 bs
      | .binary => skipBinary e bs
      | .uuid => advance 16 bs
      | .struct => skipFields e f d bs
      | .list => match Binary.readListBegin e bs with
        | .ok ((et, n), r) => match skipN e f d et n r with
          | .ok (k, r) => .ok (5 + k, r)
          | .err k => .err k | .panic s => .panic s | .fuel => .fuel
        | .err k => .err k | .panic s => .panic s | .fuel => .fuel
      | .set => match Binary.readListBegin e bs with
        | .ok ((et, n), r) => match skipN e f d et n r with
          | .ok (k, r) => .ok (5 + k, r)
          | .err k => .err k | .panic s => .panic s | .fuel => .fuel
        | .err k => .err k | .panic s => .panic s | .fuel => .fuel
      | .map => match Binary.readMapBegin e bs with
        | .ok ((kt, vt, n), r) => match skipPairs e f d kt vt n r with
          | .ok (k, r) => .ok (6 + k, r)
          | .err k => .err k | .panic s => .panic s | .fuel => .fuel
        | .err k => .err k | .panic s => .panic s | .fuel => .fuel
      | .stop => .err .depth          -- "cannot skip field type" is reported as DepthLimit
      | .void => .err .depth
def skipFields (e : Endian) : Nat → Int → Bytes → Out (Nat × Bytes)
  | 0, _, _ => .fuel
  | f+1, d, bs => match Binary.readFieldBegin e bs with
    | .ok ((t, _), r) =>
      if t = .stop then .ok (1, r)
      else if d = -128 then .panic "attempt to subtract with overflow (depth - 1)"
      else match skipVal e f (d - 1) t r with
        | .ok (k, r) => match skipFields e f d r with
          | .ok (k2, r) => .ok (3 + k + k2, r)
          | .err k => .err k | .panic s => .panic s | .fuel => .fuel
        | .err k => .err k | .panic s => .panic s | .fuel => .fuel
    | .err k => .err k | .panic s => .panic s | .fuel => .fuel
def skipN (e : Endian) : Nat → Int → TType → Nat → Bytes → Out (Nat × Bytes)
  | 0, _, _, _, _ => .fuel
  | _+1, _, _, 0, bs => .ok (0, bs)
  | f+1, d, et, n+1, bs =>
    if d = -128 then .panic "attempt to subtract with overflow (depth - 1)"
    else match skipVal e f (d - 1) et bs with
      | .ok (k, r) => match skipN e f d et n r with
        | .ok (k2, r) => .ok (k + k2, r)
        | .err k => .err k | .panic s => .panic s | .fuel => .fuel
      | .err k => .err k | .panic s => .panic s | .fuel => .fuel
def skipPairs (e : Endian) : Nat → Int → TType → TType → Nat → Bytes → Out (Nat × Bytes)
  | 0, _, _, _, _, _ => .fuel
  | _+1, _, _, _, 0, bs => .ok (0, bs)
  | f+1, d, kt, vt, n+1, bs =>
    if d = -128 then .panic "attempt to subtract with overflow (depth - 1)"
    else match skipVal e f (d - 1) kt bs with
      | .ok (k1, r) => match skipVal e f (d - 1) vt r with
        | .ok (k2, r) => match skipPairs e f d kt vt n r with
          | .ok (k3, r) => .ok (k1 + k2 + k3, r)
          | .err k => .err k | .panic s => .panic s | .fuel => .fuel
        | .err k => .err k | .panic s => .panic s | .fuel => .fuel
      | .err k => .err k | .panic s => .panic s | .fuel => .fuel
end

/-- `skip_till_depth(t, d)` on the binary / LE reader, with a budget that always suffices. -/
def skip (e : Endian) (d : Int) (t : TType) (bs : Bytes) : Out (Nat × Bytes) :=
  skipVal e (3 * bs.length + 3) d t bs

/-! ### (b) read-and-discard skippers -/

/-- the reader primitives a read-and-discard skipper calls (state `σ`: `Unit` for binary,
`Compact.CR` for compact). -/
structure Prims (σ : Type) where
  /-- `read_bool / i8 / i16 / i32 / i64 / double / bytes|string / uuid`, value dropped. -/
  leaf : TType → σ → Bytes → Out (σ × Bytes)
  structBegin : σ → σ
  structEnd : σ → Out σ
  fieldBegin : σ → Bytes → Out ((TType × Int) × σ × Bytes)
  listBegin : Bytes → Out ((TType × Nat) × Bytes)
  mapBegin : Bytes → Out ((TType × TType × Nat) × Bytes)

mutual
def rdSkip {σ : Type} (P : Prims σ) : Nat → Int → TType → σ → Bytes → Out (σ × Bytes)
  | 0, _, _, _, _ => .fuel
  | f+1, d, t, s, bs =>
    if d = 0 then .err .depth
    else match t with
      | .stop => .err .depth
      | .void => .err .depth
      | .struct => match rdFields P f d (P.structBegin s) bs with
        | .ok (s, r) => match P.structEnd s with
          | .ok s => .ok (s, r)
          | .err k => .err k | .panic m => .panic m | .fuel => .fuel
        | .err k => .err k | .panic m => .panic m | .fuel => .fuel
      | .list => match P.listBegin bs with
        | .ok ((et, n), r) => rdN P f d et n s r
        | .err k => .err k | .panic m => .panic m | .fuel => .fuel
      | .set => match P.listBegin bs with
        | .ok ((et, n), r) => rdN P f d et n s r
        | .err k => .err k | .panic m => .panic m | .fuel => .fuel
      | .map => match P.mapBegin bs with
        | .ok ((kt, vt, n), r) => rdPairs P f d kt vt n s r
        | .err k => .err k | .panic m => .panic m | .fuel => .fuel
      | t => P.leaf t s bs
def rdFields {σ : Type} (P : Prims σ) : Nat → Int → σ → Bytes → Out (σ × Bytes)
  | 0, _, _, _ => .fuel
  | f+1, d, s, bs => match P.fieldBegin s bs with
    | .ok ((t, _), s, r) =>
      if t = .stop then .ok (s, r)
      else if d = -128 then .panic "attempt to subtract with overflow (depth - 1)"
      else match rdSkip P f (d - 1) t s r with
        | .ok (s, r) => rdFields P f d s r
        | .err k => .err k | .panic m => .panic m | .fuel => .fuel
    | .err k => .err k | .panic m => .panic m | .fuel => .fuel
def rdN {σ : Type} (P : Prims σ) : Nat → Int → TType → Nat → σ → Bytes → Out (σ × Bytes)
  | 0, _, _, _, _, _ => .fuel
  | _+1, _, _, 0, s, bs => .ok (s, bs)
  | f+1, d, et, n+1, s, bs =>
    if d = -128 then .panic "attempt to subtract with overflow (depth - 1)"
    else match rdSkip P f (d - 1) et s bs with
      | .ok (s, r) => rdN P f d et n s r
      | .err k => .err k | .panic m => .panic m | .fuel => .fuel
def rdPairs {σ : Type} (P : Prims σ) : Nat → Int → TType → TType → Nat → σ → Bytes → Out (σ × Bytes)
  | 0, _, _, _, _, _, _ => .fuel
  | _+1, _, _, _, 0, s, bs => .ok (s, bs)
  | f+1, d, kt, vt, n+1, s, bs =>
    if d = -128 then .panic "attempt to subtract with overflow (depth - 1)"
    else match rdSkip P f (d - 1) kt s bs with
      | .ok (s, r) => match rdSkip P f (d - 1) vt s r with
        | .ok (s, r) => rdPairs P f d kt vt n s r
        | .err k => .err k | .panic m => .panic m | .fuel => .fuel
      | .err k => .err k | .panic m => .panic m | .fuel => .fuel
end

/-- drop the value of a stateless read. -/
def drop1 {α : Type} (x : Out (α × Bytes)) : Out (Unit × Bytes) :=
  match x with
  | .ok (_, r) => .ok ((), r)
  | .err k => .err k | .panic m => .panic m | .fuel => .fuel

/-- drop the value of a stateless read, keep the (unchanged) compact state. -/
def dropS {α : Type} (s : Compact.CR) (x : Out (α × Bytes)) : Out (Compact.CR × Bytes) :=
  match x with
  | .ok (_, r) => .ok (s, r)
  | .err k => .err k | .panic m => .panic m | .fuel => .fuel

/-- the sync compact reader's primitives, as its `skip_till_depth` calls them. -/
def compactLeaf (t : TType) (s : Compact.CR) (bs : Bytes) : Out (Compact.CR × Bytes) :=
  match t with
  | .bool => match Compact.readBool s bs with
    | .ok (_, s, r) => .ok (s, r)
    | .err k => .err k | .panic m => .panic m | .fuel => .fuel
  | .i8 => dropS s (Binary.readI .be 1 bs)
  | .i16 => dropS s (readVarS 2 bs)
  | .i32 => dropS s (readVarS 4 bs)
  | .i64 => dropS s (readVarS 8 bs)
  | .double => dropS s (Binary.readU .le 8 bs)
  | .binary => dropS s (Compact.readBytes bs)
  | .uuid => dropS s (Binary.takeN 16 bs)
  | _ => .err .depth

def compactPrims : Prims Compact.CR where
  leaf := compactLeaf
  structBegin := Compact.readStructBegin
  structEnd := Compact.readStructEnd
  fieldBegin := Compact.readFieldBegin
  listBegin := Compact.readCollBegin
  mapBegin := Compact.readMapBegin

/-- `TCompactInputProtocol::skip_till_depth`: `before - self.trans.len()`. -/
def cskipVal (f : Nat) (d : Int) (t : TType) (s : Compact.CR) (bs : Bytes) : Out (Nat × Compact.CR × Bytes) :=
  match rdSkip compactPrims f d t s bs with
  | .ok (s, r) => .ok (bs.length - r.length, s, r)
  | .err k => .err k | .panic m => .panic m | .fuel => .fuel

def cskip (d : Int) (t : TType) (s : Compact.CR) (bs : Bytes) : Out (Nat × Compact.CR × Bytes) :=
  cskipVal (3 * bs.length + 3) d t s bs

/-! #### container headers WITHOUT the size check

`check_container_size` exists only in the in-memory checked readers (binary.rs, binary_le.rs,
compact.rs: `Binary.readListBegin`, `Compact.readCollBegin`, …).  The async readers and the
unchecked reader return `size as usize` as it is on the wire. -/

/-- `read_list_begin` / `read_set_begin` of `TAsyncBinaryProtocol` and `TBinaryUnsafeInputProtocol`. -/
def rawListBegin (bs : Bytes) : Out ((TType × Nat) × Bytes) :=
  match Binary.readTType bs with
  | .ok (t, r) => match Binary.readI .be 4 r with
    | .ok (n, r) => .ok ((t, Binary.asUsize n), r)
    | .err k => .err k | .panic s => .panic s | .fuel => .fuel
  | .err k => .err k | .panic s => .panic s | .fuel => .fuel

/-- `read_map_begin` of `TAsyncBinaryProtocol` and `TBinaryUnsafeInputProtocol`. -/
def rawMapBegin (bs : Bytes) : Out ((TType × TType × Nat) × Bytes) :=
  match Binary.readTType bs with
  | .ok (kt, r) => match Binary.readTType r with
    | .ok (vt, r) => match Binary.readI .be 4 r with
      | .ok (n, r) => .ok ((kt, vt, Binary.asUsize n), r)
      | .err k => .err k | .panic s => .panic s | .fuel => .fuel
    | .err k => .err k | .panic s => .panic s | .fuel => .fuel
  | .err k => .err k | .panic s => .panic s | .fuel => .fuel

/-- `TAsyncCompactProtocol::read_collection_begin`: `read_varint::<u32>()? as i32 … as usize`. -/
def rawCollBegin (bs : Bytes) : Out ((TType × Nat) × Bytes) :=
  match Compact.readByte bs with
  | .ok (h, r) =>
    match Compact.ttypeOfCompact (h % 16) with
    | none => .err .invalid
    | some et =>
      if h / 16 ≠ 15 then .ok ((et, h / 16), r)
      else match readVarU 4 r with
        | .ok (n, r) => .ok ((et, Binary.asUsize (toS 4 n)), r)
        | .err k => .err k | .panic m => .panic m | .fuel => .fuel
  | .err k => .err k | .panic m => .panic m | .fuel => .fuel

/-- `TAsyncCompactProtocol::read_map_begin`. -/
def rawCMapBegin (bs : Bytes) : Out ((TType × TType × Nat) × Bytes) :=
  match readVarU 4 bs with
  | .ok (n, r) =>
    if toS 4 n = 0 then .ok ((.stop, .stop, 0), r)
    else match Compact.readByte r with
      | .ok (h, r) =>
        match Compact.ttypeOfCompact (h / 16), Compact.ttypeOfCompact (h % 16) with
        | some kt, some vt => .ok ((kt, vt, Binary.asUsize (toS 4 n)), r)
        | _, _ => .err .invalid
      | .err k => .err k | .panic m => .panic m | .fuel => .fuel
  | .err k => .err k | .panic m => .panic m | .fuel => .fuel

/-! #### async reader primitives over a fully delivered stream

`AsyncReadExt::read_exact / read_u8 / read_iNN` on a stream whose remaining bytes are all
available behave as the `ReadExt` reads on a buffer: the bytes, or an error at end of input. -/

/-- `TAsyncBinaryProtocol::read_string` (the async skipper's `Binary` arm): `read_i32`, a negative
length is refused (`NegativeSize`), then `read_exact_to_vec(len)` (error when fewer bytes arrive). -/
def asyncBinaryString (bs : Bytes) : Out (Bytes × Bytes) :=
  match Binary.readI .be 4 bs with
  | .ok (len, r) =>
    if len < 0 then .err .invalid
    else if len.toNat ≤ r.length then .ok (r.take len.toNat, r.drop len.toNat) else .err .eof
  | .err k => .err k | .panic m => .panic m | .fuel => .fuel

def asyncBinaryLeaf (t : TType) (s : Unit) (bs : Bytes) : Out (Unit × Bytes) :=
  match t with
  | .bool => drop1 (Binary.readI .be 1 bs)
  | .i8 => drop1 (Binary.readI .be 1 bs)
  | .i16 => drop1 (Binary.readI .be 2 bs)
  | .i32 => drop1 (Binary.readI .be 4 bs)
  | .i64 => drop1 (Binary.readI .be 8 bs)
  | .double => drop1 (Binary.readU .be 8 bs)
  | .binary => drop1 (asyncBinaryString bs)
  | .uuid => drop1 (Binary.takeN 16 bs)
  | _ => let _ := s; .err .depth

def asyncBinaryPrims : Prims Unit where
  leaf := asyncBinaryLeaf
  structBegin := fun s => s
  structEnd := fun s => .ok s
  fieldBegin := fun s bs => match Binary.readFieldBegin .be bs with
    | .ok (x, r) => .ok (x, s, r)
    | .err k => .err k | .panic m => .panic m | .fuel => .fuel
  listBegin := rawListBegin
  mapBegin := rawMapBegin

/-- `TAsyncCompactProtocol::read_bytes_vec` (through `read_string`): u32 varint `as usize`, then
`read_exact_to_vec`. -/
def asyncCompactString (bs : Bytes) : Out (Bytes × Bytes) :=
  match readVarU 4 bs with
  | .ok (n, r) => if n ≤ r.length then .ok (r.take n, r.drop n) else .err .eof
  | .err k => .err k | .panic m => .panic m | .fuel => .fuel

def asyncCompactLeaf (t : TType) (s : Compact.CR) (bs : Bytes) : Out (Compact.CR × Bytes) :=
  match t with
  | .binary => dropS s (asyncCompactString bs)
  | t => compactLeaf t s bs          -- `read_bool` (pending value), `read_i8`, varints, LE double, uuid: same code shape

def asyncCompactPrims : Prims Compact.CR :=
  { compactPrims with leaf := asyncCompactLeaf, listBegin := rawCollBegin, mapBegin := rawCMapBegin }

/-- async binary skip of `t` with budget `d`: the stream position afterwards. -/
def askipBinary (d : Int) (t : TType) (bs : Bytes) : Out (Unit × Bytes) :=
  rdSkip asyncBinaryPrims (3 * bs.length + 3) d t () bs

def askipCompact (d : Int) (t : TType) (s : Compact.CR) (bs : Bytes) : Out (Compact.CR × Bytes) :=
  rdSkip asyncCompactPrims (3 * bs.length + 3) d t s bs

/-! ### (c) the unchecked reader's iterative skipper -/

/-- `SkipData { ttype: [TType; 2], len: u32 }`. -/
structure Frame where
  t0 : TType
  t1 : TType
  len : Nat
  deriving Repr, DecidableEq

/-- `top.ttype[(top.len & 1) as usize]`. -/
def Frame.sel (fr : Frame) : TType := if fr.len % 2 = 0 then fr.t0 else fr.t1

/-- loop state: the type being skipped, the count so far (`len`), the input from `index` on,
the stack of pending containers. -/
structure IState where
  tt : TType
  n : Nat
  bs : Bytes
  stack : List Frame
  deriving Repr

/-- `skip_stack_pop!`: `last_mut().unwrap()`, `top.len -= 1` (u32), pop at zero. -/
def pop : List Frame → Out (List Frame)
  | [] => .panic "skip_stack_pop: stack.last_mut().unwrap() on an empty stack"
  | fr :: st =>
    if fr.len = 0 then .panic "skip_stack_pop: attempt to subtract with overflow"
    else if fr.len = 1 then .ok st
    else .ok ({ fr with len := fr.len - 1 } :: st)

/-- `BINARY_BASIC_TYPE_FIXED_SIZE[t as usize]` (slice index: panics out of range). -/
def fixedSize (t : TType) : Out Nat :=
  match Gen.Tables.binaryFixedSize[t.toByte]? with
  | some w => .ok w
  | none => .panic "BINARY_BASIC_TYPE_FIXED_SIZE index out of bounds"

/-- The unchecked reader reads through `get_unchecked` and moves `index` without looking at the
buffer length; its contract is that the buffer holds the whole value.  Every violation of that
contract (undefined behaviour in the code) is one explicit panic class in the model. -/
def contract : String := "unchecked reader: buffer shorter than the value (caller contract)"

/-- `self.index += w; len += w`. -/
def uAdvance (w : Nat) (n : Nat) (bs : Bytes) : Out (Nat × Bytes) :=
  if w ≤ bs.length then .ok (n + w, bs.drop w) else .panic contract

/-- a read of the unchecked reader: the bounds error of the checked reader is a contract violation. -/
def unchecked {α : Type} (x : Out α) : Out α :=
  match x with
  | .err .eof => .panic contract
  | o => o

/-- what happens after the `match ttype` of one iteration. -/
inductive After where
  | again          -- `continue` (struct fast path): next iteration with `ttype` unchanged
  | bottom         -- fall through to the stack inspection
  deriving Repr, DecidableEq

/-- the `match ttype { … }` of one loop iteration. -/
def iterBody (tt : TType) (n : Nat) (bs : Bytes) (st : List Frame) : Out (After × Nat × Bytes × List Frame) :=
  let adv (w : Nat) : Out (After × Nat × Bytes × List Frame) :=
    match uAdvance w n bs with
    | .ok (n, r) => .ok (.bottom, n, r, st)
    | .err k => .err k | .panic m => .panic m | .fuel => .fuel
  match tt with
  | .bool => adv 1
  | .i8 => adv 1
  | .i16 => adv 2
  | .i32 => adv 4
  | .i64 => adv 8
  | .double => adv 8
  | .uuid => adv 16
  | .binary => match unchecked (Binary.readI .be 4 bs) with
    | .ok (len, r) => match uAdvance (Binary.asUsize len) (n + 4) r with
      | .ok (n, r) => .ok (.bottom, n, r, st)
      | .err k => .err k | .panic m => .panic m | .fuel => .fuel
    | .err k => .err k | .panic m => .panic m | .fuel => .fuel
  | .struct => match unchecked (Binary.readFieldBegin .be bs) with
    | .ok ((ft, _), r) =>
      if ft = .stop then match pop st with
        | .ok st => .ok (.bottom, n + 1, r, st)
        | .err k => .err k | .panic m => .panic m | .fuel => .fuel
      else match fixedSize ft with
        | .ok w =>
          if w > 0 then match uAdvance w (n + 3) r with
            | .ok (n, r) => .ok (.again, n, r, st)
            | .err k => .err k | .panic m => .panic m | .fuel => .fuel
          else .ok (.bottom, n + 3, r, { t0 := ft, t1 := ft, len := 1 } :: st)
        | .err k => .err k | .panic m => .panic m | .fuel => .fuel
    | .err k => .err k | .panic m => .panic m | .fuel => .fuel
  | .list => match unchecked (rawListBegin bs) with
    | .ok ((et, size), r) =>
      if size ≠ 0 then match fixedSize et with
        | .ok w =>
          if w > 0 then
            if w * size < 2 ^ 64 then match uAdvance (w * size) (n + 5) r with
              | .ok (n, r) => .ok (.bottom, n, r, st)
              | .err k => .err k | .panic m => .panic m | .fuel => .fuel
            else .panic "attempt to multiply with overflow (fixed_size * size)"
          else .ok (.bottom, n + 5, r, { t0 := et, t1 := et, len := size % 2 ^ 32 } :: st)
        | .err k => .err k | .panic m => .panic m | .fuel => .fuel
      else .ok (.bottom, n + 5, r, st)
    | .err k => .err k | .panic m => .panic m | .fuel => .fuel
  | .set => match unchecked (rawListBegin bs) with
    | .ok ((et, size), r) =>
      if size ≠ 0 then match fixedSize et with
        | .ok w =>
          if w > 0 then
            if w * size < 2 ^ 64 then match uAdvance (w * size) (n + 5) r with
              | .ok (n, r) => .ok (.bottom, n, r, st)
              | .err k => .err k | .panic m => .panic m | .fuel => .fuel
            else .panic "attempt to multiply with overflow (fixed_size * size)"
          else .ok (.bottom, n + 5, r, { t0 := et, t1 := et, len := size % 2 ^ 32 } :: st)
        | .err k => .err k | .panic m => .panic m | .fuel => .fuel
      else .ok (.bottom, n + 5, r, st)
    | .err k => .err k | .panic m => .panic m | .fuel => .fuel
  | .map => match unchecked (rawMapBegin bs) with
    | .ok ((kt, vt, size), r) =>
      if size > 0 then match fixedSize kt with
        | .ok kw => match fixedSize vt with
          | .ok vw =>
            if kw > 0 ∧ vw > 0 then
              if (kw + vw) * size < 2 ^ 64 then match uAdvance ((kw + vw) * size) (n + 6) r with
                | .ok (n, r) => .ok (.bottom, n, r, st)
                | .err k => .err k | .panic m => .panic m | .fuel => .fuel
              else .panic "attempt to multiply with overflow ((key + value) * size)"
            else if size * 2 < 2 ^ 64 then .ok (.bottom, n + 6, r, { t0 := kt, t1 := vt, len := (size * 2) % 2 ^ 32 } :: st)
            else .panic "attempt to multiply with overflow (size * 2)"
          | .err k => .err k | .panic m => .panic m | .fuel => .fuel
        | .err k => .err k | .panic m => .panic m | .fuel => .fuel
      else .ok (.bottom, n + 6, r, st)
    | .err k => .err k | .panic m => .panic m | .fuel => .fuel
  | .stop => .err .depth
  | .void => .err .depth

/-- the tail of one iteration: return when the stack is empty, else select the next type from the
top frame by the parity of its counter, and pop it unless it is a struct (a struct frame is popped
when its `Stop` is read). -/
def iterBottom (n : Nat) (bs : Bytes) (st : List Frame) : Out (Sum (Nat × Bytes) IState) :=
  match st with
  | [] => .ok (.inl (n, bs))
  | fr :: _ =>
    let t := fr.sel
    if t ≠ .struct then match pop st with
      | .ok st' => .ok (.inr { tt := t, n := n, bs := bs, stack := st' })
      | .err k => .err k | .panic m => .panic m | .fuel => .fuel
    else .ok (.inr { tt := t, n := n, bs := bs, stack := st })

/-- one loop iteration: the result, or the next state. -/
def iterStep (s : IState) : Out (Sum (Nat × Bytes) IState) :=
  match iterBody s.tt s.n s.bs s.stack with
  | .ok (.again, n, bs, st) => .ok (.inr { tt := s.tt, n := n, bs := bs, stack := st })
  | .ok (.bottom, n, bs, st) => iterBottom n bs st
  | .err k => .err k | .panic m => .panic m | .fuel => .fuel

def iterRun : Nat → IState → Out (Nat × Bytes)
  | 0, _ => .fuel
  | f+1, s => match iterStep s with
    | .ok (.inl res) => .ok res
    | .ok (.inr s') => iterRun f s'
    | .err k => .err k | .panic m => .panic m | .fuel => .fuel

/-- the state `skip_till_depth` starts its loop in. -/
def iterInit (t : TType) (bs : Bytes) : IState :=
  { tt := t, n := 0, bs := bs, stack := if t = .struct then [{ t0 := .struct, t1 := .struct, len := 1 }] else [] }

/-- `TBinaryUnsafeInputProtocol::skip_till_depth(t, _)`: every iteration consumes at least one byte. -/
def iterSkip (t : TType) (bs : Bytes) : Out (Nat × Bytes) :=
  iterRun (bs.length + 1) (iterInit t bs)

end Pilota.Thrift.Skip
