import PilotaModel.Thrift.Binary
import PilotaModel.Thrift.Compact
/-
  Asynchronous decoding (`TAsyncBinaryProtocol` in binary.rs / binary_le.rs,
  `TAsyncCompactProtocol` in compact.rs, the async skipper in thrift/mod.rs).

  A byte stream is a list of poll outcomes (`Event`): `pending`, or a ready poll that
  delivers a non-empty chunk.  tokio's `read_exact(n)`, `read_u8`, `read_i8`,
  `read_iNN[_le]`, `read_f64[_le]` are all the loop "poll until n bytes are gathered;
  end of stream before that is `UnexpectedEof`" (`readExact`); a ready poll copies at most
  the bytes still wanted and leaves the rest of the chunk for the next poll.  pilota's
  `read_exact_to_vec` (rw_ext.rs: `take(len).read_to_end`) is modelled separately
  (`readExactToVec`) and proved equal to `readExact`.

  An `async fn` of the protocols is a resumable program whose only interaction with the reader
  is such a pull: `Prog`.  `runS` runs a program on a stream (what the executor does),
  `runF` on a flat byte string.  The async readers below are separate definitions from their
  in-memory twins in Binary.lean / Compact.lean, as the Rust is.
-/
namespace Pilota.Thrift.Async
open Pilota Pilota.Thrift

inductive Event where
  | pending
  | data (b : UInt8) (bs : Bytes)        -- ready: the chunk `b :: bs` is available
  deriving Repr, Inhabited

abbrev Stream := List Event

def flat : Stream → Bytes
  | [] => []
  | .pending :: s => flat s
  | .data b bs :: s => b :: bs ++ flat s

/-- the unread tail of a chunk stays at the head of the stream. -/
def pushBack (bs : Bytes) (s : Stream) : Stream :=
  match bs with
  | [] => s
  | b :: r => .data b r :: s

/-- gather exactly `n` bytes: `read_exact`, `read_u8`, `read_iNN[_le]`, `read_f64[_le]`.
With `n = 0` the reader is not polled. -/
def readExact : Nat → Stream → Out (Bytes × Stream)
  | 0, s => .ok ([], s)
  | _+1, [] => .err .eof
  | n+1, .pending :: s => readExact (n+1) s
  | n+1, .data b bs :: s =>
    if bs.length + 1 ≤ n + 1 then
      match readExact (n - bs.length) s with
      | .ok (a, s') => .ok (b :: bs ++ a, s')
      | .err k => .err k | .panic m => .panic m | .fuel => .fuel
    else .ok ((b :: bs).take (n+1), pushBack ((b :: bs).drop (n+1)) s)

/-- `reader.take(limit).read_to_end(&mut v)`: reads until the limit is used up or the stream ends;
never fails, never asks the reader for more than the remaining limit. -/
def takeReadToEnd : Nat → Stream → Bytes × Stream
  | 0, s => ([], s)
  | _+1, [] => ([], [])
  | n+1, .pending :: s => takeReadToEnd (n+1) s
  | n+1, .data b bs :: s =>
    if bs.length + 1 ≤ n + 1 then
      let (a, s') := takeReadToEnd (n - bs.length) s
      (b :: bs ++ a, s')
    else ((b :: bs).take (n+1), pushBack ((b :: bs).drop (n+1)) s)

/-- rw_ext.rs `read_exact_to_vec`: `n != len` → `UnexpectedEof`. -/
def readExactToVec (n : Nat) (s : Stream) : Out (Bytes × Stream) :=
  let (v, s') := takeReadToEnd n s
  if v.length = n then .ok (v, s') else .err .eof

/-! ### resumable programs -/

inductive Prog (α : Type) where
  | ret (a : α)
  | fail (k : ErrKind)
  | need (n : Nat) (k : Bytes → Prog α)       -- `.await` on a pull of `n` bytes
  | fuelOut                                    -- the model's own recursion budget ran out

namespace Prog
def bind {α β} : Prog α → (α → Prog β) → Prog β
  | .ret a, f => f a
  | .fail k, _ => .fail k
  | .need n k, f => .need n (fun b => bind (k b) f)
  | .fuelOut, _ => .fuelOut
end Prog

/-- run on a stream: what polling the future to completion does. -/
def runS {α} : Prog α → Stream → Out (α × Stream)
  | .ret a, s => .ok (a, s)
  | .fail k, _ => .err k
  | .need n k, s => match readExact n s with
    | .ok (b, s') => runS (k b) s'
    | .err e => .err e | .panic m => .panic m | .fuel => .fuel
  | .fuelOut, _ => .fuel

/-- run on a flat byte string. -/
def runF {α} : Prog α → Bytes → Out (α × Bytes)
  | .ret a, bs => .ok (a, bs)
  | .fail k, _ => .err k
  | .need n k, bs => match Binary.takeN n bs with
    | .ok (b, r) => runF (k b) r
    | .err e => .err e | .panic m => .panic m | .fuel => .fuel
  | .fuelOut, _ => .fuel

/-- forget the chunking of what is left. -/
def flatOut {α} : Out (α × Stream) → Out (α × Bytes)
  | .ok (a, s) => .ok (a, flat s)
  | .err k => .err k | .panic m => .panic m | .fuel => .fuel

/-- forget which error. -/
def eraseKind {α} : Out α → Out α
  | .err _ => .err .other
  | o => o

/-! ### `TAsyncBinaryProtocol` (binary.rs: `.be`; binary_le.rs: `.le`) -/
namespace ABin

def readU (e : Endian) (w : Nat) : Prog Nat := .need w (fun b => .ret (decFixed e b))
def readI (e : Endian) (w : Nat) : Prog Int := .need w (fun b => .ret (toS w (decFixed e b)))
/-- `read_byte` = `read_u8`. -/
def readByte : Prog Nat := .need 1 (fun b => .ret (decFixed .be b))

def readTType : Prog TType :=
  readByte.bind fun b => match TType.ofByte b with
    | some t => .ret t
    | none => .fail .invalid

/-- `read_bytes_vec` / `read_bytes` / `read_string` / `read_faststr`: i32 length; negative →
`NegativeSize`; else `read_exact_to_vec(len)`. -/
def readBytes (e : Endian) : Prog Bytes :=
  (readI e 4).bind fun len =>
    if len < 0 then .fail .other
    else .need len.toNat (fun b => .ret b)

def readFieldBegin (e : Endian) : Prog (TType × Int) :=
  readTType.bind fun t =>
    if t = .stop then .ret (t, 0)
    else (readI e 2).bind fun id => .ret (t, id)

def readListBegin (e : Endian) : Prog (TType × Nat) :=
  readTType.bind fun t => (readI e 4).bind fun n => .ret (t, Binary.asUsize n)

def readMapBegin (e : Endian) : Prog (TType × TType × Nat) :=
  readTType.bind fun kt => readTType.bind fun vt => (readI e 4).bind fun n => .ret (kt, vt, Binary.asUsize n)

/-- `VERSION_1` (binary.rs) / `VERSION_LE` (binary_le.rs). -/
def version : Endian → Nat
  | .be => 0x80010000
  | .le => 0x88880000

/-- `read_message_begin` (strict only). -/
def readMessageBegin (e : Endian) : Prog (Bytes × Nat × Int) :=
  (readI e 4).bind fun size =>
    if size > 0 then .fail .badVersion
    else
      let u := toU 4 size
      let ty := u % 16
      if ty < 1 ∨ 4 < ty then .fail .invalid
      else if u / 65536 * 65536 ≠ version e then .fail .badVersion
      else (readBytes e).bind fun name => (readI e 4).bind fun seq => .ret (name, ty, seq)

-- the dynamic reading interpreter over `TAsyncInputProtocol`
mutual
def readVal (e : Endian) : Nat → TType → Prog TVal
  | 0, _ => .fuelOut
  | _+1, .bool => (readI e 1).bind fun n => .ret (.bool (n != 0))
  | _+1, .i8 => (readI e 1).bind fun n => .ret (.i8 n)
  | _+1, .i16 => (readI e 2).bind fun n => .ret (.i16 n)
  | _+1, .i32 => (readI e 4).bind fun n => .ret (.i32 n)
  | _+1, .i64 => (readI e 8).bind fun n => .ret (.i64 n)
  | _+1, .double => (readU e 8).bind fun n => .ret (.dbl n)       -- read_f64 / read_f64_le
  | _+1, .binary => (readBytes e).bind fun b => .ret (.bin b)
  | _+1, .uuid => .need 16 (fun b => .ret (.uuid b))
  | f+1, .struct => (readFields e f).bind fun fs => .ret (.struct fs)
  | f+1, .list => (readListBegin e).bind fun (et, n) => (readN e f et n).bind fun xs => .ret (.list et xs)
  | f+1, .set => (readListBegin e).bind fun (et, n) => (readN e f et n).bind fun xs => .ret (.set et xs)
  | f+1, .map => (readMapBegin e).bind fun (kt, vt, n) => (readPairs e f kt vt n).bind fun kvs => .ret (.map kt vt kvs)
  | _+1, .stop => .fail .invalid
  | _+1, .void => .fail .invalid
def readFields (e : Endian) : Nat → Prog TFields
  | 0 => .fuelOut
  | f+1 => (readFieldBegin e).bind fun (t, id) =>
    if t = .stop then .ret .nil
    else (readVal e f t).bind fun v => (readFields e f).bind fun rest => .ret (.cons id v rest)
def readN (e : Endian) : Nat → TType → Nat → Prog TVals
  | 0, _, _ => .fuelOut
  | _+1, _, 0 => .ret .nil
  | f+1, et, n+1 => (readVal e f et).bind fun v => (readN e f et n).bind fun vs => .ret (.cons v vs)
def readPairs (e : Endian) : Nat → TType → TType → Nat → Prog TPairs
  | 0, _, _, _ => .fuelOut
  | _+1, _, _, 0 => .ret .nil
  | f+1, kt, vt, n+1 => (readVal e f kt).bind fun k => (readVal e f vt).bind fun v =>
      (readPairs e f kt vt n).bind fun rest => .ret (.cons k v rest)
end

-- the async skipper (`TAsyncInputProtocol::skip_till_depth`, thrift/mod.rs) over this protocol
mutual
def skip (e : Endian) : Nat → Nat → TType → Prog Unit
  | 0, _, _ => .fuelOut
  | _+1, 0, _ => .fail .depth
  | _+1, _+1, .bool => (readI e 1).bind fun _ => .ret ()
  | _+1, _+1, .i8 => (readI e 1).bind fun _ => .ret ()
  | _+1, _+1, .i16 => (readI e 2).bind fun _ => .ret ()
  | _+1, _+1, .i32 => (readI e 4).bind fun _ => .ret ()
  | _+1, _+1, .i64 => (readI e 8).bind fun _ => .ret ()
  | _+1, _+1, .double => (readU e 8).bind fun _ => .ret ()
  | _+1, _+1, .binary => (readBytes e).bind fun _ => .ret ()      -- read_string
  | _+1, _+1, .uuid => .need 16 (fun _ => .ret ())
  | f+1, d+1, .struct => skipFields e f d
  | f+1, d+1, .list => (readListBegin e).bind fun (et, n) => skipN e f d et n
  | f+1, d+1, .set => (readListBegin e).bind fun (et, n) => skipN e f d et n
  | f+1, d+1, .map => (readMapBegin e).bind fun (kt, vt, n) => skipPairs e f d kt vt n
  | _+1, _+1, .stop => .fail .depth
  | _+1, _+1, .void => .fail .depth
def skipFields (e : Endian) : Nat → Nat → Prog Unit
  | 0, _ => .fuelOut
  | f+1, d => (readFieldBegin e).bind fun (t, _) =>
    if t = .stop then .ret ()
    else (skip e f d t).bind fun _ => skipFields e f d
def skipN (e : Endian) : Nat → Nat → TType → Nat → Prog Unit
  | 0, _, _, _ => .fuelOut
  | _+1, _, _, 0 => .ret ()
  | f+1, d, et, n+1 => (skip e f d et).bind fun _ => skipN e f d et n
def skipPairs (e : Endian) : Nat → Nat → TType → TType → Nat → Prog Unit
  | 0, _, _, _, _ => .fuelOut
  | _+1, _, _, _, 0 => .ret ()
  | f+1, d, kt, vt, n+1 => (skip e f d kt).bind fun _ => (skip e f d vt).bind fun _ => skipPairs e f d kt vt n
end

end ABin

/-! ### `TAsyncCompactProtocol` (compact.rs) -/
namespace ACmp
open Compact

def readByte : Prog Nat := ABin.readByte

/-- `read_varint_async`: `read_u8` until a byte has its MSB clear; `push` refuses the byte once
`maxsize` bytes are held. -/
def gatherVar : Nat → Prog Bytes
  | 0 => .need 1 (fun _ => .fail .invalid)
  | m+1 => .need 1 (fun b =>
      if (b.headD 0).toNat < 128 then .ret b
      else (gatherVar m).bind fun g => .ret (b ++ g))

def readVarU (w : Nat) : Prog Nat :=
  (gatherVar (varMaxSize w)).bind fun g => .ret (varValue g % 2 ^ 64 % 256 ^ w)

def readVarS (w : Nat) : Prog Int :=
  (gatherVar (varMaxSize w)).bind fun g => .ret (toS w (toU w (unzigzag (varValue g % 2 ^ 64))))

def readFieldBegin (s : CR) : Prog ((TType × Int) × CR) :=
  readByte.bind fun (b : Nat) =>
    let delta : Nat := b / 16
    let low : Nat := b % 16
    let s := if low = 1 then { s with pendingBool := some true }
             else if low = 2 then { s with pendingBool := some false } else s
    match ttypeOfCompact low with
    | none => .fail .invalid
    | some .stop => .ret ((.stop, 0), s)
    | some t =>
      if delta ≠ 0 then
        let id := s.last + delta
        if id ≤ 32767 then .ret ((t, id), { s with last := id })
        else .fail .invalid
      else (readVarS 2).bind fun id => .ret ((t, id), { s with last := id })

def readBool (s : CR) : Prog (Bool × CR) :=
  match s.pendingBool with
  | some b => .ret (b, { s with pendingBool := none })
  | none => readByte.bind fun (b : Nat) =>
      if b = 1 then .ret (true, s) else if b = 2 then .ret (false, s) else .fail .invalid

def readSize : Prog Nat := (readVarU 4).bind fun n => .ret (Binary.asUsize (toS 4 n))

/-- `read_bytes_vec`: u32 varint, `read_exact_to_vec`. -/
def readBytes : Prog Bytes := (readVarU 4).bind fun n => .need n (fun b => .ret b)

def readCollBegin : Prog (TType × Nat) :=
  readByte.bind fun (h : Nat) =>
    match ttypeOfCompact (h % 16) with
    | none => .fail .invalid
    | some et =>
      if h / 16 ≠ 15 then .ret (et, h / 16)
      else readSize.bind fun n => .ret (et, n)

def readMapBegin : Prog (TType × TType × Nat) :=
  (readVarU 4).bind fun n =>
    if toS 4 n = 0 then .ret (.stop, .stop, 0)
    else readByte.bind fun (h : Nat) =>
      match ttypeOfCompact (h / 16), ttypeOfCompact (h % 16) with
      | some kt, some vt => .ret (kt, vt, Binary.asUsize (toS 4 n))
      | _, _ => .fail .invalid

def readStructEnd (s : CR) : Prog CR :=
  match s.stack with
  | [] => .fail .invalid
  | l :: st => .ret { s with last := l, stack := st }

def readMessageBegin : Prog (Bytes × Nat × Int) :=
  readByte.bind fun (pid : Nat) =>
    if pid ≠ 0x82 then .fail .badVersion
    else readByte.bind fun (tv : Nat) =>
      if tv % 32 ≠ 1 then .fail .badVersion
      else if tv / 32 < 1 ∨ 4 < tv / 32 then .fail .invalid
      else (readVarU 4).bind fun sq => readBytes.bind fun name => .ret (name, tv / 32, toS 4 sq)

mutual
def readVal : Nat → TType → CR → Prog (TVal × CR)
  | 0, _, _ => .fuelOut
  | _+1, .bool, s => (readBool s).bind fun (b, s) => .ret (.bool b, s)
  | _+1, .i8, s => (ABin.readI .be 1).bind fun n => .ret (.i8 n, s)
  | _+1, .i16, s => (readVarS 2).bind fun n => .ret (.i16 n, s)
  | _+1, .i32, s => (readVarS 4).bind fun n => .ret (.i32 n, s)
  | _+1, .i64, s => (readVarS 8).bind fun n => .ret (.i64 n, s)
  | _+1, .double, s => (ABin.readU .le 8).bind fun n => .ret (.dbl n, s)      -- read_f64_le
  | _+1, .binary, s => readBytes.bind fun b => .ret (.bin b, s)
  | _+1, .uuid, s => .need 16 (fun b => .ret (.uuid b, s))
  | f+1, .struct, s => (readFields f (readStructBegin s)).bind fun (fs, s) =>
      (readStructEnd s).bind fun s => .ret (.struct fs, s)
  | f+1, .list, s => readCollBegin.bind fun (et, n) => (readN f et n s).bind fun (xs, s) => .ret (.list et xs, s)
  | f+1, .set, s => readCollBegin.bind fun (et, n) => (readN f et n s).bind fun (xs, s) => .ret (.set et xs, s)
  | f+1, .map, s => readMapBegin.bind fun (kt, vt, n) => (readPairs f kt vt n s).bind fun (kvs, s) => .ret (.map kt vt kvs, s)
  | _+1, .stop, _ => .fail .invalid
  | _+1, .void, _ => .fail .invalid
def readFields : Nat → CR → Prog (TFields × CR)
  | 0, _ => .fuelOut
  | f+1, s => (readFieldBegin s).bind fun ((t, id), s) =>
    if t = .stop then .ret (.nil, s)
    else (readVal f t s).bind fun (v, s) => (readFields f s).bind fun (rest, s) => .ret (.cons id v rest, s)
def readN : Nat → TType → Nat → CR → Prog (TVals × CR)
  | 0, _, _, _ => .fuelOut
  | _+1, _, 0, s => .ret (.nil, s)
  | f+1, et, n+1, s => (readVal f et s).bind fun (v, s) => (readN f et n s).bind fun (vs, s) => .ret (.cons v vs, s)
def readPairs : Nat → TType → TType → Nat → CR → Prog (TPairs × CR)
  | 0, _, _, _, _ => .fuelOut
  | _+1, _, _, 0, s => .ret (.nil, s)
  | f+1, kt, vt, n+1, s => (readVal f kt s).bind fun (k, s) => (readVal f vt s).bind fun (v, s) =>
      (readPairs f kt vt n s).bind fun (rest, s) => .ret (.cons k v rest, s)
end

mutual
def skip : Nat → Nat → TType → CR → Prog CR
  | 0, _, _, _ => .fuelOut
  | _+1, 0, _, _ => .fail .depth
  | _+1, _+1, .bool, s => (readBool s).bind fun (_, s) => .ret s
  | _+1, _+1, .i8, s => (ABin.readI .be 1).bind fun _ => .ret s
  | _+1, _+1, .i16, s => (readVarS 2).bind fun _ => .ret s
  | _+1, _+1, .i32, s => (readVarS 4).bind fun _ => .ret s
  | _+1, _+1, .i64, s => (readVarS 8).bind fun _ => .ret s
  | _+1, _+1, .double, s => (ABin.readU .le 8).bind fun _ => .ret s
  | _+1, _+1, .binary, s => readBytes.bind fun _ => .ret s
  | _+1, _+1, .uuid, s => .need 16 (fun _ => .ret s)
  | f+1, d+1, .struct, s => (skipFields f d (readStructBegin s)).bind fun s => readStructEnd s
  | f+1, d+1, .list, s => readCollBegin.bind fun (et, n) => skipN f d et n s
  | f+1, d+1, .set, s => readCollBegin.bind fun (et, n) => skipN f d et n s
  | f+1, d+1, .map, s => readMapBegin.bind fun (kt, vt, n) => skipPairs f d kt vt n s
  | _+1, _+1, .stop, _ => .fail .depth
  | _+1, _+1, .void, _ => .fail .depth
def skipFields : Nat → Nat → CR → Prog CR
  | 0, _, _ => .fuelOut
  | f+1, d, s => (readFieldBegin s).bind fun ((t, _), s) =>
    if t = .stop then .ret s
    else (skip f d t s).bind fun s => skipFields f d s
def skipN : Nat → Nat → TType → Nat → CR → Prog CR
  | 0, _, _, _, _ => .fuelOut
  | _+1, _, _, 0, s => .ret s
  | f+1, d, et, n+1, s => (skip f d et s).bind fun s => skipN f d et n s
def skipPairs : Nat → Nat → TType → TType → Nat → CR → Prog CR
  | 0, _, _, _, _, _ => .fuelOut
  | _+1, _, _, _, 0, s => .ret s
  | f+1, d, kt, vt, n+1, s => (skip f d kt s).bind fun s => (skip f d vt s).bind fun s => skipPairs f d kt vt n s
end

end ACmp

/-! ### top level: what the harness observes -/

inductive AProto where | bin (e : Endian) | cmp
  deriving DecidableEq, Repr

/-- the reader's budget: as the in-memory readers', from the bytes the stream holds. -/
def budget (s : Stream) : Nat := 3 * (flat s).length + 3

/-- value and number of bytes pulled from the reader. -/
def pulled {α} (s : Stream) : Out (α × Stream) → Out (α × Nat)
  | .ok (a, s') => .ok (a, (flat s).length - (flat s').length)
  | .err k => .err k | .panic m => .panic m | .fuel => .fuel

/-- decode one value of wire type `t` from a fresh protocol object over the stream. -/
def asyncRead (p : AProto) (t : TType) (s : Stream) : Out (TVal × Nat) :=
  match p with
  | .bin e => pulled s (runS (ABin.readVal e (budget s) t) s)
  | .cmp => pulled s (runS ((ACmp.readVal (budget s) t {}).bind fun (v, _) => .ret v) s)

/-- skip one value of wire type `t` with the async skipper, depth budget `d` (`skip` uses 64). -/
def asyncSkip (p : AProto) (d : Nat) (t : TType) (s : Stream) : Out (Unit × Nat) :=
  match p with
  | .bin e => pulled s (runS (ABin.skip e (budget s) d t) s)
  | .cmp => pulled s (runS ((ACmp.skip (budget s) d t {}).bind fun _ => .ret ()) s)

/-- the same two on flat bytes (`Lemmas/AsyncFlat`: they coincide with the stream versions). -/
def pulledF {α} (bs : Bytes) : Out (α × Bytes) → Out (α × Nat)
  | .ok (a, r) => .ok (a, bs.length - r.length)
  | .err k => .err k | .panic m => .panic m | .fuel => .fuel

def asyncReadF (p : AProto) (t : TType) (bs : Bytes) : Out (TVal × Nat) :=
  match p with
  | .bin e => pulledF bs (runF (ABin.readVal e (3 * bs.length + 3) t) bs)
  | .cmp => pulledF bs (runF ((ACmp.readVal (3 * bs.length + 3) t {}).bind fun (v, _) => .ret v) bs)

def asyncSkipF (p : AProto) (d : Nat) (t : TType) (bs : Bytes) : Out (Unit × Nat) :=
  match p with
  | .bin e => pulledF bs (runF (ABin.skip e (3 * bs.length + 3) d t) bs)
  | .cmp => pulledF bs (runF ((ACmp.skip (3 * bs.length + 3) d t {}).bind fun _ => .ret ()) bs)

/-- the in-memory decoder on the same bytes. -/
def syncRead (p : AProto) (t : TType) (bs : Bytes) : Out (TVal × Bytes) :=
  match p with
  | .bin e => Binary.read e t bs
  | .cmp => match Compact.read t {} bs with
    | .ok (v, _, r) => .ok (v, r)
    | .err k => .err k | .panic m => .panic m | .fuel => .fuel

end Pilota.Thrift.Async
