import PilotaModel.Thrift.Compact
/-
  LinkedBytes-backed writers.  A `LinkedBytes` is a list of frozen nodes plus the
  current `BytesMut`; `insert` freezes the current buffer and appends the payload as
  its own node (zero copy).  Only binary payloads can take that branch.
-/
namespace Pilota.Thrift.Linked
open Pilota Pilota.Thrift

structure LB where
  nodes : List Bytes := []     -- frozen nodes, oldest first
  cur : Bytes := []
  zlen : Nat := 0              -- zero_copy_len
  deriving Repr, Inhabited

def LB.concat (l : LB) : Bytes := l.nodes.flatten ++ l.cur

def LB.put (l : LB) (b : Bytes) : LB := { l with cur := l.cur ++ b }

/-- `LinkedBytes::insert`: split the current buffer, push it and the payload. -/
def LB.insert (l : LB) (b : Bytes) : LB := { nodes := l.nodes ++ [l.cur, b], cur := [], zlen := l.zlen + b.length }

inductive StrApi where | bytes | vec | faststr
  deriving DecidableEq, Repr

/-- does this payload take the zero-copy branch?  (`thr` = `ZERO_COPY_THRESHOLD`).
binary.rs / binary_le.rs / binary_unsafe.rs: `write_bytes*` and `write_faststr` use `len >= thr`;
compact.rs: `write_bytes*` uses `>=`, `write_faststr` uses `<=` (sic); `write_bytes_vec` never. -/
def takesZc (compact : Bool) (zc : Bool) (thr : Nat) (api : StrApi) (len : Nat) : Bool :=
  zc && match api with
    | .bytes => decide (thr ≤ len)
    | .vec => false
    | .faststr => if compact then decide (len ≤ thr) else decide (thr ≤ len)

/-- one op on a LinkedBytes-backed writer, given the bytes the BytesMut-backed writer appends
for the same op (`whole`) and, for a binary payload, its length prefix (`pre`). -/
def step (compact zc : Bool) (thr : Nat) (api : StrApi) (l : LB) (op : Op) (whole : Bytes) (pre : Bytes) : LB :=
  match op with
  | .bytes bs => if takesZc compact zc thr api bs.length then (l.put pre).insert bs else l.put whole
  | _ => l.put whole

end Pilota.Thrift.Linked
