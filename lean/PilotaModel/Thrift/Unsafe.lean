import PilotaModel.Thrift.Binary
import PilotaModel.Thrift.Len
import PilotaModel.Thrift.Linked
/-
  The unchecked binary codec (thrift/binary_unsafe.rs).

  Writer: `TBinaryUnsafeOutputProtocol` keeps a raw window `buf: &'static mut [u8]` into the
  transport's spare capacity and an `index`.  Every `get_unchecked_mut(index..index+n)` /
  `ptr::copy_nonoverlapping(.., buf.as_mut_ptr().add(index), n)` is modelled as a *guarded*
  positional write (`poke`): outside the window the model answers `.panic "oob"`; the real code
  has undefined behaviour there.  The theorems of `Props/C11` show the guard never fires within
  the documented contract (window at least as large as the reported size).

  Reader: `TBinaryUnsafeInputProtocol` keeps `trans: &mut Bytes`, a raw view `buf` of the same
  memory and an `index`; `buf` is re-derived from `trans` after every `split_to` and both are
  advanced together, so the two always have the same contents and the model keeps one byte list.
  Every `get_unchecked(index..index+n)` is guarded the same way.
-/
namespace Pilota.Thrift.Unsafe
open Pilota Pilota.Thrift

/-! ### the window -/

/-- `buf` and `index` of the writer.  `mem` is the current contents of the window
(its length is the window's length; initially whatever the spare capacity holds). -/
structure Win where
  mem : Bytes
  idx : Nat
  deriving Repr, Inhabited

def Win.cap (w : Win) : Nat := w.mem.length

/-- bytes written so far and not yet handed to the transport: `buf[..index]`. -/
def Win.written (w : Win) : Bytes := w.mem.take w.idx

/-- guarded positional write of `bs` at `pos`. -/
def poke (mem : Bytes) (pos : Nat) (bs : Bytes) : Out Bytes :=
  if pos + bs.length ≤ mem.length then .ok (mem.take pos ++ bs ++ mem.drop (pos + bs.length))
  else .panic "oob"

/-- write `bs` at `index`, then `index += bs.len()`. -/
def put (w : Win) (bs : Bytes) : Out Win :=
  match poke w.mem w.idx bs with
  | .ok m => .ok { mem := m, idx := w.idx + bs.length }
  | .err k => .err k | .panic s => .panic s | .fuel => .fuel

def putAll : Win → List Bytes → Out Win
  | w, [] => .ok w
  | w, b :: bs => match put w b with
    | .ok w' => putAll w' bs
    | .err k => .err k | .panic s => .panic s | .fuel => .fuel

def be (w : Nat) (n : Int) : Bytes := Binary.i .be w n

/-- `write_field_begin`: type byte at `index`, id at `index+1..index+3`, then `index += 3`. -/
def fieldBegin (w : Win) (t : TType) (id : Int) : Out Win :=
  match poke w.mem w.idx [UInt8.ofNat t.toByte] with
  | .ok m => match poke m (w.idx + 1) (be 2 id) with
    | .ok m => .ok { mem := m, idx := w.idx + 3 }
    | .err k => .err k | .panic s => .panic s | .fuel => .fuel
  | .err k => .err k | .panic s => .panic s | .fuel => .fuel

/-- the individual unchecked writes an API call performs, in order
(every call except `write_field_begin`, which pokes at two offsets before moving `index`). -/
def chunks : Op → List Bytes
  | .structBegin | .structEnd | .fieldEnd | .listEnd | .setEnd | .mapEnd | .msgEnd => []
  | .fieldBegin t id => [UInt8.ofNat t.toByte :: be 2 id]        -- (not used by `uwOp`)
  | .fieldStop => [[0]]                                          -- write_byte(Stop)
  | .bool b => [[if b then 1 else 0]]                            -- write_i8(1) / write_i8(0)
  | .i8 n => [be 1 n]
  | .i16 n => [be 2 n]
  | .i32 n => [be 4 n]
  | .i64 n => [be 8 n]
  | .dbl b => [encFixed .be 8 b]
  | .bytes bs => [be 4 (toS 4 bs.length), bs]                    -- write_i32(len as i32); copy_nonoverlapping
  | .uuid bs => [bs]
  | .listBegin et n | .setBegin et n => [[UInt8.ofNat et.toByte], be 4 (toS 4 n)]
  | .mapBegin kt vt n => [[UInt8.ofNat kt.toByte], [UInt8.ofNat vt.toByte], be 4 (toS 4 n)]
  | .msgBegin name mt seq =>
      [encFixed .be 4 ((0x80010000 ||| mt) % 2 ^ 32), be 4 (toS 4 name.length), name, be 4 seq]

/-! ### writer over `&mut BytesMut` -/

/-- one `TOutputProtocol` call on `TBinaryUnsafeOutputProtocol<&mut BytesMut>`. -/
def uwOp (w : Win) : Op → Out Win
  | .fieldBegin t id => fieldBegin w t id
  | o => putAll w (chunks o)

def uwRun : Win → List Op → Out Win
  | w, [] => .ok w
  | w, o :: os => match uwOp w o with
    | .ok w' => uwRun w' os
    | .err k => .err k | .panic s => .panic s | .fuel => .fuel

/-- a fresh window of `cap` bytes (contents: the harness fills spare capacity with 0xAA). -/
def fresh (cap : Nat) : Win := { mem := List.replicate cap 0xAA, idx := 0 }

/-! ### writer over `&mut LinkedBytes` -/

structure LW where
  nodes : List Bytes := []      -- frozen nodes of the LinkedBytes, oldest first
  cur : Bytes := []             -- initialised part of `trans.bytes_mut()`
  spare : Nat                   -- `capacity() - len()` of `trans.bytes_mut()`
  win : Win                     -- the raw window; starts where `cur` ends
  zlen : Nat := 0               -- zero_copy_len
  deriving Repr, Inhabited

/-- what the transport holds once the caller has done its final `advance_mut(index)`. -/
def LW.out (s : LW) : Bytes := s.nodes.flatten ++ s.cur ++ s.win.written

/-- `advance_mut(len)`: `BytesMut::advance_mut` (panics beyond capacity), `<&mut [u8]>::advance_mut`
(panics beyond the slice), `index -= len` (overflow check).  Every call site passes `self.index`. -/
def advanceMut (s : LW) (len : Nat) : Out LW :=
  if s.spare < len then .panic "BytesMut::advance_mut out of bounds"
  else if s.win.mem.length < len then .panic "slice advance_mut out of bounds"
  else if s.win.idx < len then .panic "index underflow"
  else .ok { s with cur := s.cur ++ s.win.mem.take len, spare := s.spare - len,
                    win := { mem := s.win.mem.drop len, idx := s.win.idx - len } }

/-- memory of `n` bytes starting where `mem` starts (beyond `mem` the contents are unspecified; 0 here). -/
def resize (mem : Bytes) (n : Nat) : Bytes := mem.take n ++ List.replicate (n - mem.length) 0

/-- the zero-copy branch: `trans.insert(b)` (linkedbytes 0.1.8: `split()` the current buffer, push it
and the payload), then the window is re-derived from the new spare capacity
(`from_raw_parts_mut(ptr.add(len), capacity - len)` with `len = 0` after the split). -/
def insertZc (s : LW) (payload : Bytes) : LW :=
  { s with nodes := s.nodes ++ [s.cur, payload], cur := [],
           win := { mem := resize s.win.mem s.spare, idx := s.win.idx } }

def liftW (s : LW) (r : Out Win) : Out LW :=
  match r with
  | .ok w => .ok { s with win := w }
  | .err k => .err k | .panic m => .panic m | .fuel => .fuel

/-- `write_bytes` / `write_bytes_vec` / `write_faststr` / `write_string` after the caller decided whether
the zero-copy branch applies: `write_i32(len)`, then either `zero_copy_len += len; advance_mut(index);
trans.insert(payload)` and the window re-derived, or `copy_nonoverlapping`. -/
def strWrite (takes : Bool) (s : LW) (bs : Bytes) : Out LW :=
  match put s.win (be 4 (toS 4 bs.length)) with
  | .ok w =>
    if takes then
      match advanceMut { s with win := w, zlen := s.zlen + bs.length } w.idx with
      | .ok s' => .ok (insertZc s' bs)
      | .err k => .err k | .panic m => .panic m | .fuel => .fuel
    else liftW s (put w bs)
  | .err k => .err k | .panic m => .panic m | .fuel => .fuel

open Linked in
/-- one call on `TBinaryUnsafeOutputProtocol<&mut LinkedBytes>`; `api` says which of
`write_bytes` / `write_bytes_vec` / `write_faststr` writes a binary value. -/
def ulwOp (zc : Bool) (thr : Nat) (api : StrApi) (s : LW) : Op → Out LW
  | .fieldBegin t id =>
    match fieldBegin s.win t id with
    | .ok w => advanceMut { s with win := w } w.idx
    | .err k => .err k | .panic m => .panic m | .fuel => .fuel
  | .msgBegin name mt seq =>
    -- write_i32(version); write_faststr(name) (its own zero-copy branch); write_i32(seq); advance_mut(index)
    match liftW s (put s.win (encFixed .be 4 ((0x80010000 ||| mt) % 2 ^ 32))) with
    | .ok s1 => match strWrite (takesZc false zc thr .faststr name.length) s1 name with
      | .ok s2 => match liftW s2 (put s2.win (be 4 seq)) with
        | .ok s3 => advanceMut s3 s3.win.idx
        | .err k => .err k | .panic m => .panic m | .fuel => .fuel
      | .err k => .err k | .panic m => .panic m | .fuel => .fuel
    | .err k => .err k | .panic m => .panic m | .fuel => .fuel
  | .bytes bs => strWrite (takesZc false zc thr api bs.length) s bs
  | o => liftW s (putAll s.win (chunks o))

def ulwRun (zc : Bool) (thr : Nat) (api : Linked.StrApi) : LW → List Op → Out LW
  | s, [] => .ok s
  | s, o :: os => match ulwOp zc thr api s o with
    | .ok s' => ulwRun zc thr api s' os
    | .err k => .err k | .panic m => .panic m | .fuel => .fuel

/-- bytes an op copies into the window (everything except a zero-copied payload). -/
def copyLen (zc : Bool) (thr : Nat) (api : Linked.StrApi) : Op → Nat
  | .bytes bs => if Linked.takesZc false zc thr api bs.length then 4 else 4 + bs.length
  | .msgBegin name _ _ => 4 + (if Linked.takesZc false zc thr .faststr name.length then 4 else 4 + name.length) + 4
  | o => Len.binOp o

def copyLenAll (zc : Bool) (thr : Nat) (api : Linked.StrApi) (ops : List Op) : Nat :=
  (ops.map (copyLen zc thr api)).sum

def zcLen (zc : Bool) (thr : Nat) (api : Linked.StrApi) : Op → Nat
  | .bytes bs => if Linked.takesZc false zc thr api bs.length then bs.length else 0
  | .msgBegin name _ _ => if Linked.takesZc false zc thr .faststr name.length then name.length else 0
  | _ => 0

/-- a LinkedBytes whose current buffer holds `pre` and has `cap` spare bytes, window = the spare capacity. -/
def freshL (pre : Bytes) (cap : Nat) : LW := { cur := pre, spare := cap, win := fresh cap }

/-! ### reader -/

structure UR where
  bs : Bytes          -- contents of `trans` (and of the raw view `buf`)
  idx : Nat := 0
  adv : Nat := 0      -- bytes already advanced over or split off (ghost)
  deriving Repr, Inhabited

/-- the unread input. -/
def UR.rest (s : UR) : Bytes := s.bs.drop s.idx
/-- bytes consumed so far. -/
def UR.pos (s : UR) : Nat := s.adv + s.idx

/-- `buf.get_unchecked(index..index+n)`, then `index += n`. -/
def peek (s : UR) (n : Nat) : Out (Bytes × UR) :=
  if s.idx + n ≤ s.bs.length then .ok ((s.bs.drop s.idx).take n, { s with idx := s.idx + n })
  else .panic "oob"

/-- `advance(len)`: `Bytes::advance` and `<&[u8]>::advance` panic beyond the end; `index -= len`. -/
def advance (s : UR) (len : Nat) : Out UR :=
  if s.bs.length < len then .panic "advance out of bounds"
  else if s.idx < len then .panic "index underflow"
  else .ok { bs := s.bs.drop len, idx := s.idx - len, adv := s.adv + len }

/-- `trans.split_to(n)` followed by re-deriving `buf` from `trans`. -/
def splitTo (s : UR) (n : Nat) : Out (Bytes × UR) :=
  if n ≤ s.bs.length then .ok (s.bs.take n, { s with bs := s.bs.drop n, adv := s.adv + n })
  else .panic "split_to out of bounds"

def readU (w : Nat) (s : UR) : Out (Nat × UR) :=
  match peek s w with
  | .ok (b, s) => .ok (beToNat b, s)
  | .err k => .err k | .panic m => .panic m | .fuel => .fuel

def readI (w : Nat) (s : UR) : Out (Int × UR) :=
  match readU w s with
  | .ok (n, s) => .ok (toS w n, s)
  | .err k => .err k | .panic m => .panic m | .fuel => .fuel

/-- `read_byte` + `field_type_from_u8` / `try_into`. -/
def readTType (s : UR) : Out (TType × UR) :=
  match readU 1 s with
  | .ok (b, s) => match TType.ofByte b with
    | some t => .ok (t, s)
    | none => .err .invalid
  | .err k => .err k | .panic m => .panic m | .fuel => .fuel

/-- `read_bytes` / `read_bytes_vec` / `read_faststr`: i32 length, `advance(index)`, `split_to(len as usize)`. -/
def readBytes (s : UR) : Out (Bytes × UR) :=
  match readI 4 s with
  | .ok (len, s) => match advance s s.idx with
    | .ok s => splitTo s (Binary.asUsize len)
    | .err k => .err k | .panic m => .panic m | .fuel => .fuel
  | .err k => .err k | .panic m => .panic m | .fuel => .fuel

/-- `read_string`: copies `buf[index..index+len]`, no re-anchoring. -/
def readString (s : UR) : Out (Bytes × UR) :=
  match readI 4 s with
  | .ok (len, s) => peek s (Binary.asUsize len)
  | .err k => .err k | .panic m => .panic m | .fuel => .fuel

def readFieldBegin (s : UR) : Out ((TType × Int) × UR) :=
  match readTType s with
  | .ok (t, s) =>
    if t = .stop then .ok ((t, 0), s)
    else match readI 2 s with
      | .ok (id, s) => .ok ((t, id), s)
      | .err k => .err k | .panic m => .panic m | .fuel => .fuel
  | .err k => .err k | .panic m => .panic m | .fuel => .fuel

def readListBegin (s : UR) : Out ((TType × Nat) × UR) :=
  match readTType s with
  | .ok (t, s) => match readI 4 s with
    | .ok (n, s) => .ok ((t, Binary.asUsize n), s)
    | .err k => .err k | .panic m => .panic m | .fuel => .fuel
  | .err k => .err k | .panic m => .panic m | .fuel => .fuel

def readMapBegin (s : UR) : Out ((TType × TType × Nat) × UR) :=
  match readTType s with
  | .ok (kt, s) => match readTType s with
    | .ok (vt, s) => match readI 4 s with
      | .ok (n, s) => .ok ((kt, vt, Binary.asUsize n), s)
      | .err k => .err k | .panic m => .panic m | .fuel => .fuel
    | .err k => .err k | .panic m => .panic m | .fuel => .fuel
  | .err k => .err k | .panic m => .panic m | .fuel => .fuel

/-- `get_bytes(ptr, len)`: with `None` the length is counted from the last re-anchoring point. -/
def getBytes (s : UR) (ptrGiven : Bool) (len : Nat) : Out (Bytes × UR) :=
  if ptrGiven then splitTo { s with idx := 0 } len
  else if len < s.idx then .panic "len -= index underflow"
  else match advance s s.idx with
    | .ok s' => splitTo { s' with idx := 0 } (len - s.idx)
    | .err k => .err k | .panic m => .panic m | .fuel => .fuel

/-- `read_message_begin` (same checks as the checked reader) followed by `advance(index)`. -/
def readMessageBegin (s : UR) : Out ((Bytes × Nat × Int) × UR) :=
  match readI 4 s with
  | .ok (size, s) =>
    if size > 0 then .err .badVersion
    else
      let u := toU 4 size
      let ty := u % 16
      if ty < 1 ∨ 4 < ty then .err .invalid
      else if u / 65536 * 65536 ≠ 0x80010000 then .err .badVersion
      else match readBytes s with
        | .ok (name, s) => match readI 4 s with
          | .ok (seq, s) => match advance s s.idx with
            | .ok s => .ok ((name, ty, seq), s)
            | .err k => .err k | .panic m => .panic m | .fuel => .fuel
          | .err k => .err k | .panic m => .panic m | .fuel => .fuel
        | .err k => .err k | .panic m => .panic m | .fuel => .fuel
  | .err k => .err k | .panic m => .panic m | .fuel => .fuel

-- HOOK (C07, track thrift2): the unchecked reader's `skip` re-anchors with `advance(index - 3)` and
-- runs the ITERATIVE skipper `skip_till_depth` (binary_unsafe.rs 1165-1322).  Its model and the
-- refinement to the recursive specification live in `Thrift/Skip.lean` of that track; nothing here
-- depends on it.  `getBytes` above is the primitive the retained-unknown-field path uses afterwards.

mutual
def readVal : Nat → TType → UR → Out (TVal × UR)
  | 0, _, _ => .fuel
  | _+1, .bool, s => match readI 1 s with
    | .ok (n, s) => .ok (.bool (n != 0), s)
    | .err k => .err k | .panic m => .panic m | .fuel => .fuel
  | _+1, .i8, s => match readI 1 s with
    | .ok (n, s) => .ok (.i8 n, s)
    | .err k => .err k | .panic m => .panic m | .fuel => .fuel
  | _+1, .i16, s => match readI 2 s with
    | .ok (n, s) => .ok (.i16 n, s)
    | .err k => .err k | .panic m => .panic m | .fuel => .fuel
  | _+1, .i32, s => match readI 4 s with
    | .ok (n, s) => .ok (.i32 n, s)
    | .err k => .err k | .panic m => .panic m | .fuel => .fuel
  | _+1, .i64, s => match readI 8 s with
    | .ok (n, s) => .ok (.i64 n, s)
    | .err k => .err k | .panic m => .panic m | .fuel => .fuel
  | _+1, .double, s => match readU 8 s with
    | .ok (n, s) => .ok (.dbl n, s)
    | .err k => .err k | .panic m => .panic m | .fuel => .fuel
  | _+1, .binary, s => match readBytes s with
    | .ok (b, s) => .ok (.bin b, s)
    | .err k => .err k | .panic m => .panic m | .fuel => .fuel
  | _+1, .uuid, s => match peek s 16 with
    | .ok (b, s) => .ok (.uuid b, s)
    | .err k => .err k | .panic m => .panic m | .fuel => .fuel
  | f+1, .struct, s => match readFields f s with
    | .ok (fs, s) => .ok (.struct fs, s)
    | .err k => .err k | .panic m => .panic m | .fuel => .fuel
  | f+1, .list, s => match readListBegin s with
    | .ok ((et, n), s) => match readN f et n s with
      | .ok (xs, s) => .ok (.list et xs, s)
      | .err k => .err k | .panic m => .panic m | .fuel => .fuel
    | .err k => .err k | .panic m => .panic m | .fuel => .fuel
  | f+1, .set, s => match readListBegin s with
    | .ok ((et, n), s) => match readN f et n s with
      | .ok (xs, s) => .ok (.set et xs, s)
      | .err k => .err k | .panic m => .panic m | .fuel => .fuel
    | .err k => .err k | .panic m => .panic m | .fuel => .fuel
  | f+1, .map, s => match readMapBegin s with
    | .ok ((kt, vt, n), s) => match readPairs f kt vt n s with
      | .ok (kvs, s) => .ok (.map kt vt kvs, s)
      | .err k => .err k | .panic m => .panic m | .fuel => .fuel
    | .err k => .err k | .panic m => .panic m | .fuel => .fuel
  | _+1, .stop, _ => .err .invalid
  | _+1, .void, _ => .err .invalid
def readFields : Nat → UR → Out (TFields × UR)
  | 0, _ => .fuel
  | f+1, s => match readFieldBegin s with
    | .ok ((t, id), s) =>
      if t = .stop then .ok (.nil, s)
      else match readVal f t s with
        | .ok (v, s) => match readFields f s with
          | .ok (rest, s) => .ok (.cons id v rest, s)
          | .err k => .err k | .panic m => .panic m | .fuel => .fuel
        | .err k => .err k | .panic m => .panic m | .fuel => .fuel
    | .err k => .err k | .panic m => .panic m | .fuel => .fuel
def readN : Nat → TType → Nat → UR → Out (TVals × UR)
  | 0, _, _, _ => .fuel
  | _+1, _, 0, s => .ok (.nil, s)
  | f+1, et, n+1, s => match readVal f et s with
    | .ok (v, s) => match readN f et n s with
      | .ok (vs, s) => .ok (.cons v vs, s)
      | .err k => .err k | .panic m => .panic m | .fuel => .fuel
    | .err k => .err k | .panic m => .panic m | .fuel => .fuel
def readPairs : Nat → TType → TType → Nat → UR → Out (TPairs × UR)
  | 0, _, _, _, _ => .fuel
  | _+1, _, _, 0, s => .ok (.nil, s)
  | f+1, kt, vt, n+1, s => match readVal f kt s with
    | .ok (k, s) => match readVal f vt s with
      | .ok (v, s) => match readPairs f kt vt n s with
        | .ok (rest, s) => .ok (.cons k v rest, s)
        | .err k => .err k | .panic m => .panic m | .fuel => .fuel
      | .err k => .err k | .panic m => .panic m | .fuel => .fuel
    | .err k => .err k | .panic m => .panic m | .fuel => .fuel
end

/-- top-level read, same budget as the checked reader's. -/
def read (t : TType) (s : UR) : Out (TVal × UR) := readVal (3 * s.rest.length + 3) t s

end Pilota.Thrift.Unsafe
