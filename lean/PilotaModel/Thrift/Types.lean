import PilotaModel.Base.Bytes
import PilotaModel.Base.Sexp
/-
  Thrift wire types, value trees, and the protocol-API alphabet (`Op`).
  `ops` is the value interpreter: the sequence of `TOutputProtocol` calls a
  hand-written or emitted encoder makes for a value.  The Rust harness contains
  the same interpreter over the real trait.
-/
namespace Pilota.Thrift
open Pilota

inductive TType where
  | stop | void | bool | i8 | double | i16 | i32 | i64 | binary | struct | map | set | list | uuid
  deriving DecidableEq, Repr, Inhabited

namespace TType
/-- `TType as u8` (thrift/mod.rs). -/
def toByte : TType → Nat
  | stop => 0 | void => 1 | bool => 2 | i8 => 3 | double => 4 | i16 => 6 | i32 => 8
  | i64 => 10 | binary => 11 | struct => 12 | map => 13 | set => 14 | list => 15 | uuid => 16

/-- `TType::try_from(u8)` via `TTYPE_LOOKUP`. -/
def ofByte : Nat → Option TType
  | 0 => some stop | 1 => some void | 2 => some bool | 3 => some i8 | 4 => some double
  | 6 => some i16 | 8 => some i32 | 10 => some i64 | 11 => some binary | 12 => some struct
  | 13 => some map | 14 => some set | 15 => some list | 16 => some uuid
  | _ => none

def name : TType → String
  | stop => "stop" | void => "void" | bool => "bool" | i8 => "i8" | double => "double"
  | i16 => "i16" | i32 => "i32" | i64 => "i64" | binary => "binary" | struct => "struct"
  | map => "map" | set => "set" | list => "list" | uuid => "uuid"

def all : List TType := [stop, void, bool, i8, double, i16, i32, i64, binary, struct, map, set, list, uuid]

def ofName (s : String) : Option TType := all.find? (fun t => t.name == s)

/-- a type a value can have on the wire (everything except `stop` and `void`). -/
def isValue : TType → Bool
  | stop | void => false
  | _ => true
end TType

mutual
inductive TVal where
  | bool (b : Bool)
  | i8 (n : Int) | i16 (n : Int) | i32 (n : Int) | i64 (n : Int)
  | dbl (bits : Nat)
  | bin (bs : Bytes)
  | uuid (bs : Bytes)
  | struct (fs : TFields)
  | list (et : TType) (xs : TVals)
  | set (et : TType) (xs : TVals)
  | map (kt vt : TType) (kvs : TPairs)
inductive TVals where
  | nil | cons (v : TVal) (vs : TVals)
inductive TFields where
  | nil | cons (id : Int) (v : TVal) (rest : TFields)
inductive TPairs where
  | nil | cons (k v : TVal) (rest : TPairs)
end

instance : Inhabited TVal := ⟨.bool false⟩

deriving instance DecidableEq for TVal, TVals, TFields, TPairs

def TVal.ttype : TVal → TType
  | .bool _ => .bool | .i8 _ => .i8 | .i16 _ => .i16 | .i32 _ => .i32 | .i64 _ => .i64
  | .dbl _ => .double | .bin _ => .binary | .uuid _ => .uuid | .struct _ => .struct
  | .list .. => .list | .set .. => .set | .map .. => .map

def TVals.length : TVals → Nat
  | .nil => 0 | .cons _ vs => vs.length + 1
def TPairs.length : TPairs → Nat
  | .nil => 0 | .cons _ _ r => r.length + 1
def TFields.length : TFields → Nat
  | .nil => 0 | .cons _ _ r => r.length + 1

def TVals.ofList : List TVal → TVals
  | [] => .nil | v :: vs => .cons v (TVals.ofList vs)
def TVals.toList : TVals → List TVal
  | .nil => [] | .cons v vs => v :: vs.toList
def TFields.ofList : List (Int × TVal) → TFields
  | [] => .nil | (i, v) :: r => .cons i v (TFields.ofList r)
def TFields.toList : TFields → List (Int × TVal)
  | .nil => [] | .cons i v r => (i, v) :: r.toList
def TPairs.ofList : List (TVal × TVal) → TPairs
  | [] => .nil | (k, v) :: r => .cons k v (TPairs.ofList r)
def TPairs.toList : TPairs → List (TVal × TVal)
  | .nil => [] | .cons k v r => (k, v) :: r.toList

/-! ### Well-typedness (decidable): exactly the values the Rust types can hold. -/

mutual
def TVal.wt : TVal → Bool
  | .bool _ => true
  | .i8 n => decide (inS 1 n)
  | .i16 n => decide (inS 2 n)
  | .i32 n => decide (inS 4 n)
  | .i64 n => decide (inS 8 n)
  | .dbl b => decide (b < 2 ^ 64)
  | .bin bs => decide (bs.length < 2 ^ 31)
  | .uuid bs => decide (bs.length = 16)
  | .struct fs => fs.wt
  | .list et xs => et.isValue && decide (xs.length < 2 ^ 31) && xs.wt et
  | .set et xs => et.isValue && decide (xs.length < 2 ^ 31) && xs.wt et
  | .map kt vt kvs => kt.isValue && vt.isValue && decide (kvs.length < 2 ^ 31) && kvs.wt kt vt
def TVals.wt : TVals → TType → Bool
  | .nil, _ => true
  | .cons v vs, et => decide (v.ttype = et) && v.wt && vs.wt et
def TFields.wt : TFields → Bool
  | .nil => true
  | .cons id v r => decide (inS 2 id) && v.wt && r.wt
def TPairs.wt : TPairs → TType → TType → Bool
  | .nil, _, _ => true
  | .cons k v r, kt, vt => decide (k.ttype = kt) && decide (v.ttype = vt) && k.wt && v.wt && r.wt kt vt
end

-- number of nodes; the fuel a reader needs.
mutual
def TVal.size : TVal → Nat
  | .struct fs => fs.size + 1
  | .list _ xs => xs.size + 1
  | .set _ xs => xs.size + 1
  | .map _ _ kvs => kvs.size + 1
  | _ => 1
def TVals.size : TVals → Nat
  | .nil => 1
  | .cons v vs => v.size + vs.size + 1
def TFields.size : TFields → Nat
  | .nil => 1
  | .cons _ v r => v.size + r.size + 1
def TPairs.size : TPairs → Nat
  | .nil => 1
  | .cons k v r => k.size + v.size + r.size + 1
end

-- nesting need for the skippers: 1 for a leaf, 1 + max over children.
mutual
def TVal.need : TVal → Nat
  | .struct fs => fs.need + 1
  | .list _ xs => xs.need + 1
  | .set _ xs => xs.need + 1
  | .map _ _ kvs => kvs.need + 1
  | _ => 1
def TVals.need : TVals → Nat
  | .nil => 0
  | .cons v vs => max v.need vs.need
def TFields.need : TFields → Nat
  | .nil => 0
  | .cons _ v r => max v.need r.need
def TPairs.need : TPairs → Nat
  | .nil => 0
  | .cons k v r => max (max k.need v.need) r.need
end

/-! ### The protocol API alphabet -/

inductive Op where
  | structBegin | structEnd
  | fieldBegin (t : TType) (id : Int) | fieldEnd | fieldStop
  | bool (b : Bool)
  | i8 (n : Int) | i16 (n : Int) | i32 (n : Int) | i64 (n : Int)
  | dbl (bits : Nat)
  | bytes (bs : Bytes)           -- write_bytes / write_bytes_vec / write_string / write_faststr (same wire form)
  | uuid (bs : Bytes)
  | listBegin (et : TType) (n : Nat) | listEnd
  | setBegin (et : TType) (n : Nat) | setEnd
  | mapBegin (kt vt : TType) (n : Nat) | mapEnd
  | msgBegin (name : Bytes) (mt : Nat) (seq : Int) | msgEnd
  deriving Repr, Inhabited

/-- what the Rust argument types guarantee: a uuid is `[u8; 16]`. -/
def Op.wf : Op → Bool
  | .uuid bs => decide (bs.length = 16)
  | _ => true

mutual
def TVal.ops : TVal → List Op
  | .bool b => [.bool b]
  | .i8 n => [.i8 n] | .i16 n => [.i16 n] | .i32 n => [.i32 n] | .i64 n => [.i64 n]
  | .dbl b => [.dbl b]
  | .bin bs => [.bytes bs]
  | .uuid bs => [.uuid bs]
  | .struct fs => .structBegin :: (fs.ops ++ [.fieldStop, .structEnd])
  | .list et xs => .listBegin et xs.length :: (xs.ops ++ [.listEnd])
  | .set et xs => .setBegin et xs.length :: (xs.ops ++ [.setEnd])
  | .map kt vt kvs => .mapBegin kt vt kvs.length :: (kvs.ops ++ [.mapEnd])
def TVals.ops : TVals → List Op
  | .nil => []
  | .cons v vs => v.ops ++ vs.ops
def TFields.ops : TFields → List Op
  | .nil => []
  | .cons id v r => .fieldBegin v.ttype id :: (v.ops ++ .fieldEnd :: r.ops)
def TPairs.ops : TPairs → List Op
  | .nil => []
  | .cons k v r => k.ops ++ v.ops ++ r.ops
end

/-! ### S-expression form -/

private def pad16 (s : String) : String := String.ofList (List.replicate (16 - s.length) '0') ++ s

mutual
partial def TVal.toSexp : TVal → String
  | .bool b => if b then "(bool 1)" else "(bool 0)"
  | .i8 n => s!"(i8 {n})" | .i16 n => s!"(i16 {n})" | .i32 n => s!"(i32 {n})" | .i64 n => s!"(i64 {n})"
  | .dbl b => s!"(dbl {toHex (natToBE 8 b)})"
  | .bin bs => s!"(bin {hexOrDash bs})"
  | .uuid bs => s!"(uuid {hexOrDash bs})"
  | .struct fs => "(struct" ++ String.join (fs.toList.map fun (i, v) => s!" ({i} {v.toSexp})") ++ ")"
  | .list et xs => s!"(list {et.name}" ++ String.join (xs.toList.map fun v => " " ++ v.toSexp) ++ ")"
  | .set et xs => s!"(set {et.name}" ++ String.join (xs.toList.map fun v => " " ++ v.toSexp) ++ ")"
  | .map kt vt kvs => s!"(map {kt.name} {vt.name}" ++ String.join (kvs.toList.map fun (k, v) => s!" ({k.toSexp} {v.toSexp})") ++ ")"
end

mutual
partial def TVal.ofSexp : Sexp → Option TVal
  | .list [.atom "bool", x] => do let n ← x.asNat; pure (.bool (n != 0))
  | .list [.atom "i8", x] => .i8 <$> x.asInt
  | .list [.atom "i16", x] => .i16 <$> x.asInt
  | .list [.atom "i32", x] => .i32 <$> x.asInt
  | .list [.atom "i64", x] => .i64 <$> x.asInt
  | .list [.atom "dbl", x] => do let bs ← x.asHex; pure (.dbl (beToNat bs))
  | .list [.atom "bin", x] => .bin <$> x.asHex
  | .list [.atom "uuid", x] => .uuid <$> x.asHex
  | .list (.atom "struct" :: fs) => do
      let l ← fs.mapM fun f => match f with
        | .list [i, v] => do let i ← i.asInt; let v ← TVal.ofSexp v; pure (i, v)
        | _ => none
      pure (.struct (TFields.ofList l))
  | .list (.atom "list" :: et :: xs) => do
      let et ← et.asAtom >>= TType.ofName
      let l ← xs.mapM TVal.ofSexp
      pure (.list et (TVals.ofList l))
  | .list (.atom "set" :: et :: xs) => do
      let et ← et.asAtom >>= TType.ofName
      let l ← xs.mapM TVal.ofSexp
      pure (.set et (TVals.ofList l))
  | .list (.atom "map" :: kt :: vt :: kvs) => do
      let kt ← kt.asAtom >>= TType.ofName
      let vt ← vt.asAtom >>= TType.ofName
      let l ← kvs.mapM fun f => match f with
        | .list [k, v] => do let k ← TVal.ofSexp k; let v ← TVal.ofSexp v; pure (k, v)
        | _ => none
      pure (.map kt vt (TPairs.ofList l))
  | _ => none
end

end Pilota.Thrift
