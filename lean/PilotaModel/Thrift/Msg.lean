import PilotaModel.Thrift.Binary
import PilotaModel.Thrift.Compact
/-
  Message envelopes, reader side (`read_message_begin` of binary.rs / binary_le.rs / compact.rs; the writer
  side is the `.msgBegin` op of `Binary.wOp` / `Compact.wStep`), and the TApplicationException struct
  (thrift/error/application.rs: field 1 message string, field 2 type i32).
-/
namespace Pilota.Thrift.Msg
open Pilota Pilota.Thrift

def version : Endian → Nat
  | .be => 0x80010000       -- VERSION_1
  | .le => 0x88880000       -- VERSION_LE

/-- `TBinaryProtocol::read_message_begin` (strict only): i32; `size > 0` → BadVersion (no version word);
`size & 0xf` must be a message type → else InvalidData; `size & 0xffff0000` must be the version → else
BadVersion; then `read_faststr`, `read_i32`. -/
def readBeginBin (e : Endian) (bs : Bytes) : Out ((Bytes × Nat × Int) × Bytes) :=
  match Binary.readI e 4 bs with
  | .ok (size, r) =>
    if size > 0 then .err .badVersion
    else
      let u := toU 4 size
      let ty := u % 16
      if ty < 1 ∨ 4 < ty then .err .invalid
      else if u / 65536 * 65536 ≠ version e then .err .badVersion
      else match Binary.readBytes e r with
        | .ok (name, r) => match Binary.readI e 4 r with
          | .ok (seq, r) => .ok ((name, ty, seq), r)
          | .err k => .err k | .panic m => .panic m | .fuel => .fuel
        | .err k => .err k | .panic m => .panic m | .fuel => .fuel
  | .err k => .err k | .panic m => .panic m | .fuel => .fuel

/-- `TCompactInputProtocol::read_message_begin`: protocol id `0x82`, `version = byte & 0x1f` must be 1,
`type = byte >> 5`, seqid `read_varint::<u32>() as i32`, `read_faststr`. -/
def readBeginCmp (bs : Bytes) : Out ((Bytes × Nat × Int) × Bytes) :=
  match Compact.readByte bs with
  | .ok (pid, r) =>
    if pid ≠ 0x82 then .err .invalid
    else match Compact.readByte r with
      | .ok (tv, r) =>
        if tv % 32 ≠ 1 then .err .invalid
        else if tv / 32 < 1 ∨ 4 < tv / 32 then .err .invalid
        else match readVarU 4 r with
          | .ok (sq, r) => match Compact.readBytes r with
            | .ok (name, r) => .ok ((name, tv / 32, toS 4 sq), r)
            | .err k => .err k | .panic m => .panic m | .fuel => .fuel
          | .err k => .err k | .panic m => .panic m | .fuel => .fuel
      | .err k => .err k | .panic m => .panic m | .fuel => .fuel
  | .err k => .err k | .panic m => .panic m | .fuel => .fuel

/-! ### TApplicationException -/

/-- the struct `Message::encode` writes: 1: message (string), 2: type (i32). -/
def appVal (msg : Bytes) (kind : Int) : TVal := .struct (.cons 1 (.bin msg) (.cons 2 (.i32 kind) .nil))

/-- the calls `ApplicationException::encode` makes (application.rs 102-118). -/
def appOps (msg : Bytes) (kind : Int) : List Op :=
  [.structBegin, .fieldBegin .binary 1, .bytes msg, .fieldEnd, .fieldBegin .i32 2, .i32 kind, .fieldEnd, .fieldStop, .structEnd]

def defaultMsg : Bytes := "general remote error".toUTF8.toList

/-- `ApplicationException::decode` over the binary protocols: field 1 is read as a string and field 2 as
an i32 WHATEVER wire type the header announces; every other field is skipped (`protocol.skip`; the
skippers are C07's, here the reading interpreter stands in: it consumes the same bytes). -/
def appDecodeBin (e : Endian) : Nat → Bytes × Int → Bytes → Out ((Bytes × Int) × Bytes)
  | 0, _, _ => .fuel
  | f+1, (msg, kind), bs =>
    match Binary.readFieldBegin e bs with
    | .ok ((t, id), r) =>
      if t = .stop then .ok ((msg, kind), r)
      else if id = 1 then
        match Binary.readBytes e r with
        | .ok (m, r) => appDecodeBin e f (m, kind) r
        | .err k => .err k | .panic m => .panic m | .fuel => .fuel
      else if id = 2 then
        match Binary.readI e 4 r with
        | .ok (k, r) => appDecodeBin e f (msg, k) r
        | .err k => .err k | .panic m => .panic m | .fuel => .fuel
      else match Binary.readVal e f t r with
        | .ok (_, r) => appDecodeBin e f (msg, kind) r
        | .err k => .err k | .panic m => .panic m | .fuel => .fuel
    | .err k => .err k | .panic m => .panic m | .fuel => .fuel

def appDecodeCmpLoop : Nat → Bytes × Int → Compact.CR → Bytes → Out ((Bytes × Int) × Compact.CR × Bytes)
  | 0, _, _, _ => .fuel
  | f+1, (msg, kind), s, bs =>
    match Compact.readFieldBegin s bs with
    | .ok ((t, id), s, r) =>
      if t = .stop then .ok ((msg, kind), s, r)
      else if id = 1 then
        match Compact.readBytes r with
        | .ok (m, r) => appDecodeCmpLoop f (m, kind) s r
        | .err k => .err k | .panic m => .panic m | .fuel => .fuel
      else if id = 2 then
        match readVarS 4 r with
        | .ok (k, r) => appDecodeCmpLoop f (msg, k) s r
        | .err k => .err k | .panic m => .panic m | .fuel => .fuel
      else match Compact.readVal f t s r with
        | .ok (_, s, r) => appDecodeCmpLoop f (msg, kind) s r
        | .err k => .err k | .panic m => .panic m | .fuel => .fuel
    | .err k => .err k | .panic m => .panic m | .fuel => .fuel

/-- compact: `read_struct_begin`, the loop, `read_struct_end`. -/
def appDecodeCmp (f : Nat) (s : Compact.CR) (bs : Bytes) : Out ((Bytes × Int) × Compact.CR × Bytes) :=
  match appDecodeCmpLoop f (defaultMsg, 0) (Compact.readStructBegin s) bs with
  | .ok (x, s, r) => match Compact.readStructEnd s with
    | .ok s => .ok (x, s, r)
    | .err k => .err k | .panic m => .panic m | .fuel => .fuel
  | .err k => .err k | .panic m => .panic m | .fuel => .fuel

end Pilota.Thrift.Msg
