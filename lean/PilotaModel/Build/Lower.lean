import PilotaModel.TGen.Typed
/-
  pilota-build/src/middle/context.rs `lit_into_ty` / `ident_into_ty` / `list_stream`, and the field filling of the
  struct-literal arm: which value an IDL default literal denotes for a field of a declared type.  The Rust functions
  produce expression TEXT; this is what that expression evaluates to, as the wire value the emitted encoder writes for it.
  `none` = no arm (the generator panics: outside the grammar) or an expression rustc rejects (an integer literal out of
  range of its suffix).

  Not modelled, resolved by the caller (bin/idlgen.py `lit_sexp`) before the literal gets here: the text of a double
  (`f.parse::<f64>()`) and `i as f64` (a `dbl` literal carries the bits), the escape processing of the two languages (a
  `str` literal carries the bytes), the lookup of an enum member's number (`variant n`) and of a constant's declaration
  (`const ty lit`), and the matching of struct-literal keys with field names (`strct` entries carry field ids).
-/
namespace Pilota.Build
open Pilota Pilota.Thrift Pilota.TGen

deriving instance DecidableEq for STy

mutual
inductive Lit where
  | bool (b : Bool)
  | int (n : Int)
  | dbl (bits : Nat)
  | str (bs : Bytes)
  | list (xs : Lits)
  | map (kvs : LitPairs)
  | variant (n : Int)                  -- `Literal::Path` to an enum variant with this number
  | const (ty : STy) (l : Lit)         -- `Literal::Path` to a constant declared `ty NAME = l`
  | strct (fs : LitFields)               -- `Literal::Map` at a struct type, keys resolved to field ids
inductive Lits where
  | nil | cons (x : Lit) (xs : Lits)
inductive LitPairs where
  | nil | cons (k v : Lit) (r : LitPairs)
inductive LitFields where
  | nil | cons (id : Int) (v : Lit) (r : LitFields)
end

def LitFields.get : LitFields → Int → Option Lit
  | .nil, _ => none
  | .cons i v r, id => if i == id then some v else r.get id

/-- `x as iN` for an `i32` enum number: two's-complement wrap to `w` bytes -/
def wrapS (w : Nat) (n : Int) : Int :=
  let m : Int := (256 : Int) ^ w
  let r := n % m
  if r < m / 2 then r else r - m

section
variable (d : Doc)

mutual
def lowerLit : Nat → STy → Lit → Option TVal
  | 0, _, _ => none
  -- a constant: `ident_into_ty` pastes its path when the declared type IS the target type (anything else is "invalid convert",
  -- except Str → FastStr and enum → integer, which do not arise for constants of schema types)
  | f+1, ty, .const cty l => if cty = ty then lowerLit f cty l else none
  | _+1, .bool, .bool b => some (.bool b)
  | _+1, .bool, .int n => some (.bool (n != 0))
  | _+1, .i8, .int n => if inS 1 n then some (.i8 n) else none
  | _+1, .i16, .int n => if inS 2 n then some (.i16 n) else none
  | _+1, .i32, .int n => if inS 4 n then some (.i32 n) else none
  | _+1, .i64, .int n => if inS 8 n then some (.i64 n) else none
  | _+1, .i8, .variant n => some (.i8 (wrapS 1 n))
  | _+1, .i16, .variant n => some (.i16 (wrapS 2 n))
  | _+1, .i32, .variant n => some (.i32 (wrapS 4 n))
  | _+1, .i64, .variant n => some (.i64 (wrapS 8 n))
  | _+1, .double, .dbl b => if b < 2 ^ 64 then some (.dbl b) else none
  | _+1, .string, .str bs => some (.bin bs)
  | _+1, .binary, .str bs => some (.bin bs)
  | f+1, .list e, .list xs => (lowerLitN f e xs).map fun ys => .list (d.ttype e) (TVals.ofList ys)
  | f+1, .set e, .list xs => (lowerLitN f e xs).map fun ys => .set (d.ttype e) (TVals.ofList (ys.foldl setInsert []))
  | f+1, .map k v, .map kvs => (lowerLitP f k v kvs).map fun ys =>
      .map (d.ttype k) (d.ttype v) (TPairs.ofList (ys.foldl (fun a p => mapInsert a p.1 p.2) []))
  | f+1, .ref n, lit => match d.find n with
    | some .enum => match lit with
      | .int n => if inS 4 n then some (.i32 n) else none           -- a variant with this number must exist (checked by the caller)
      | .variant n => if inS 4 n then some (.i32 n) else none
      | _ => none
    | some (.typedef t) => lowerLit f t lit                            -- newtype: `Name(inner)`
    | some (.struct fs) => match lit with
      | .strct es => (lowerLitRec f fs es).map fun out => .struct (TFields.ofList out)
      | _ => none
    | _ => none
  | _+1, _, _ => none
def lowerLitN : Nat → STy → Lits → Option (List TVal)
  | 0, _, _ => none
  | _+1, _, .nil => some []
  | f+1, e, .cons x xs => match lowerLit f e x, lowerLitN f e xs with
    | some v, some vs => some (v :: vs)
    | _, _ => none
def lowerLitP : Nat → STy → STy → LitPairs → Option (List (TVal × TVal))
  | 0, _, _, _ => none
  | _+1, _, _, .nil => some []
  | f+1, k, v, .cons a b r => match lowerLit f k a, lowerLit f v b, lowerLitP f k v r with
    | some ka, some vb, some rest => some ((ka, vb) :: rest)
    | _, _, _ => none
/-- the struct-literal arm: every declared field in order; an entry is lowered at the field's type, a missing optional
field is `None` (NOT the field's own default), a missing required field is `Default::default()` -/
def lowerLitRec : Nat → List Field → LitFields → Option (List (Int × TVal))
  | 0, _, _ => none
  | _+1, [], _ => some []
  | f+1, fl :: fs, es => match lowerLitRec f fs es with
    | none => none
    | some rest => match es.get fl.id with
      | some l => (lowerLit f fl.ty l).map fun v => (fl.id, v) :: rest
      | none => if fl.required then some ((fl.id, zeroOf d (d.length + 1) fl.ty) :: rest) else some rest
end

end

/-! ### S-expression form (written by bin/idlgen.py `lit_sexp`) -/

mutual
partial def Lit.ofSexp : Sexp → Option Lit
  | .list [.atom "b", x] => do let n ← x.asNat; pure (.bool (n != 0))
  | .list [.atom "i", x] => .int <$> x.asInt
  | .list [.atom "d", x] => do let bs ← x.asHex; pure (.dbl (beToNat bs))
  | .list [.atom "s", x] => .str <$> x.asHex
  | .list (.atom "l" :: xs) => do pure (Lit.list (← Lits.ofSexps xs))
  | .list (.atom "m" :: kvs) => do pure (Lit.map (← LitPairs.ofSexps kvs))
  | .list [.atom "v", x] => .variant <$> x.asInt
  | .list [.atom "c", ty, l] => do pure (Lit.const (← STy.ofSexp ty) (← Lit.ofSexp l))
  | .list (.atom "r" :: es) => do pure (Lit.strct (← LitFields.ofSexps es))
  | _ => none
partial def Lits.ofSexps : List Sexp → Option Lits
  | [] => some Lits.nil
  | x :: xs => do pure (Lits.cons (← Lit.ofSexp x) (← Lits.ofSexps xs))
partial def LitPairs.ofSexps : List Sexp → Option LitPairs
  | [] => some LitPairs.nil
  | .list [a, b] :: r => do pure (LitPairs.cons (← Lit.ofSexp a) (← Lit.ofSexp b) (← LitPairs.ofSexps r))
  | _ => none
partial def LitFields.ofSexps : List Sexp → Option LitFields
  | [] => some LitFields.nil
  | .list [i, l] :: r => do pure (LitFields.cons (← i.asInt) (← Lit.ofSexp l) (← LitFields.ofSexps r))
  | _ => none
end

end Pilota.Build
