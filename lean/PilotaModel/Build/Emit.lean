/-
  pilota-build's output assembly (codegen/mod.rs `write_items` + codegen/pkg_tree.rs):
  items are grouped by module path into a hash map, one rayon task per group renders the group's
  text into `pkgs[path]`, a tree of module paths is built by repeated hash grouping, and
  `write_stream` walks it with `sorted_by_key(path)` at every level.
  Every source of unspecified order is an explicit parameter: `ord` (the iteration order of each
  hash grouping) and `sched` (the order in which the rayon tasks run).
  Module-path segments are ranks `< B` of the distinct segment names in byte order (the harness
  ranks the names; `sorted_by_key` compares `FastStr`s byte-wise).
-/
namespace Pilota.Build

abbrev Path := List Nat

inductive Tok where
  | openMod (seg : Nat) | closeMod | text (path : Path)
  deriving DecidableEq, Repr

def natLe (a b : Nat) : Bool := decide (a ≤ b)

/-- segments `c` such that some key lies at or below `base ++ [c]` — in rank order, without duplicates. -/
def children (B : Nat) (keys : List Path) (base : Path) : List Nat :=
  (List.range B).filter fun c => keys.any fun k => (base ++ [c]).isPrefixOf k

/-- the canonical output: a module's own text, then its child modules in name order. -/
def emit (B : Nat) (keys : List Path) : Nat → Path → List Tok
  | 0, _ => []
  | f+1, base =>
    (if keys.contains base then [Tok.text base] else []) ++
      (children B keys base).flatMap fun c => Tok.openMod c :: (emit B keys f (base ++ [c]) ++ [Tok.closeMod])

/-- what the code does: at every level the children arrive in whatever order the hash grouping
yields (`ord base l` is some permutation of them) and are then sorted by path. -/
def emitCode (B : Nat) (keys : List Path) (ord : Path → List Nat → List Nat) : Nat → Path → List Tok
  | 0, _ => []
  | f+1, base =>
    (if keys.contains base then [Tok.text base] else []) ++
      ((ord base (children B keys base)).mergeSort natLe).flatMap fun c =>
        Tok.openMod c :: (emitCode B keys ord f (base ++ [c]) ++ [Tok.closeMod])

/-! ### the rayon tasks: one per group, each writes only its own entry -/

/-- `pkgs` after running the tasks in schedule order: task `p` sets entry `p` to its rendering. -/
def runTasks (render : Path → List Nat) (sched : List Path) : List (Path × List Nat) :=
  sched.foldl (fun pkgs p => (pkgs.filter (·.1 != p)) ++ [(p, render p)]) []

def lookup (pkgs : List (Path × List Nat)) (p : Path) : Option (List Nat) :=
  (pkgs.find? (·.1 == p)).map (·.2)

/-! ### split mode: file names of the items of one module (`generate_unique_name`) -/

def lower (s : List Nat) : List Nat := s.map fun c => if 65 ≤ c ∧ c ≤ 90 then c + 32 else c

def digits : Nat → Nat → List Nat
  | 0, _ => []
  | f+1, n => if n < 10 then [48 + n] else digits f (n / 10) ++ [48 + n % 10]

/-- `simple_name`, `simple_name_2`, `simple_name_3`, … : the first whose lower-case form is free. -/
def uniqueName (existing : List (List Nat)) (simple : List Nat) : Nat → Nat → List Nat
  | 0, _ => simple
  | f+1, counter =>
    let name := if counter = 1 then simple else simple ++ [95] ++ digits 20 counter
    if existing.contains (lower name) then uniqueName existing simple f (counter + 1) else name

def splitNames : List (List Nat) → List (List Nat) → List (List Nat)
  | _, [] => []
  | existing, s :: rest =>
    let n := uniqueName existing s (existing.length + 1) 1
    n :: splitNames (lower n :: existing) rest

end Pilota.Build
