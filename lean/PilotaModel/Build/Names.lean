import PilotaModel.Gen.Tables
/-
  Identifier rendering and relative paths of pilota-build (symbol.rs `Display for Symbol`,
  middle/resolver.rs `DefaultPathResolver::related_path`).
-/
namespace Pilota.Build
open Pilota.Gen.Tables

/-- `impl Display for Symbol`: path-segment keywords get a trailing `_` (they cannot be raw
identifiers), other keywords become raw identifiers, everything else is printed as is. -/
def display (s : String) : String :=
  if pathSegmentKeywords.contains s then s ++ "_"
  else if keywords.contains s then "r#" ++ s
  else s

inductive Seg where
  | super | ident (s : String)
  deriving DecidableEq, Repr

/-- `related_path(p1, p2)`: from module `p1` to item path `p2`: drop the common prefix, one `super`
per remaining segment of `p1`, then the rest of `p2`.  (`p1 == p2` returns the last segment.) -/
def commonPrefix : List String → List String → Nat
  | a :: as, b :: bs => if a = b then commonPrefix as bs + 1 else 0
  | _, _ => 0

def relatedPath (p1 p2 : List String) : List Seg :=
  if p1 = p2 then (p2.getLast?.map Seg.ident).toList
  else
    let i := commonPrefix p1 p2
    List.replicate (p1.length - i) Seg.super ++ (p2.drop i).map Seg.ident

/-- Rust's resolution of such a path, starting in module `cur`. -/
def resolve (cur : List String) : List Seg → Option (List String)
  | [] => some cur
  | .super :: rest => match cur.reverse with
    | [] => none
    | _ :: r => resolve r.reverse rest
  | .ident s :: rest => resolve (cur ++ [s]) rest

end Pilota.Build
