import PilotaModel.Build.Graph
/-
  pilota-build's automatic derives (plugin/mod.rs `AutoDerivePlugin`, instantiated twice in lib.rs: `PartialOrd`, and
  `Hash, Eq, Ord`).  A type may carry the derive iff no field type — its own or that of any item reachable through field
  types — is rejected by the predicate: after stripping `Vec` layers, a hash map / set rejects both derives, `f64` / `f32`
  reject `Hash, Eq, Ord` only.  The code computes this with a depth-first pass that postpones cycles (`CanDerive::Delay`)
  and repairs postponed entries when a member of the cycle turns out to be `No`; the model is the specification that pass
  has to meet (what rustc demands of a `#[derive]`), compared with the emitted attributes on every run.
-/
namespace Pilota.Build

/-- a field type as the predicate and the path collector see it (after stripping `Vec` layers) -/
inductive DTy where
  | path (n : Nat)      -- a path to another item
  | mapset              -- hash map / hash set: no PartialOrd, no Hash / Eq / Ord
  | float               -- f64 / f32: no Hash / Eq / Ord
  | leaf                -- anything else
  deriving DecidableEq, Repr

structure DItem where
  fields : List DTy
  deriving Repr

abbrev DDoc := List DItem

def dpaths (fs : List DTy) : List Nat := fs.filterMap fun | .path n => some n | _ => none

def dsucc (g : DDoc) (a : Nat) : List Nat :=
  match g[a]? with
  | some it => dpaths it.fields
  | none => []

/-- the predicate says `No` for one of the item's own field types (`hash`: the `Hash, Eq, Ord` instance) -/
def rejects (hash : Bool) (it : DItem) : Bool := it.fields.any fun f => f == .mapset || (hash && f == .float)

def badAt (g : DDoc) (hash : Bool) (m : Nat) : Bool :=
  match g[m]? with
  | some it => rejects hash it
  | none => false

/-- **the specification**: the derive is possible iff nothing reachable (the item itself included) is rejected -/
def CanDerive (g : DDoc) (hash : Bool) (n : Nat) : Prop := ∀ m, Reach (dsucc g) n m → badAt g hash m = false

/-- executable form (`none`: the search did not reach its fixpoint within the budget) -/
def canDeriveB (g : DDoc) (hash : Bool) (n : Nat) : Option Bool :=
  (reachSet (dsucc g) (g.length + 1) n).map fun c => c.all fun m => !badAt g hash m

def dsaturated (g : DDoc) : Bool := (List.range g.length).all fun n => (reachSet (dsucc g) (g.length + 1) n).isSome

/-- the items that get the derive, in document order -/
def derivingItems (g : DDoc) (hash : Bool) : List Nat := (List.range g.length).filter fun n => canDeriveB g hash n == some true

theorem canDeriveB_iff (g : DDoc) (hash : Bool) (n : Nat) (b : Bool) (h : canDeriveB g hash n = some b) :
    b = true ↔ CanDerive g hash n := by
  unfold canDeriveB at h
  cases hr : reachSet (dsucc g) (g.length + 1) n with
  | none => simp [hr] at h
  | some c =>
    simp only [hr, Option.map_some, Option.some.injEq] at h
    subst h
    have hiff := reachSet_iff (dsucc g) _ n c hr
    simp only [List.all_eq_true, Bool.not_eq_true']
    constructor
    · intro hall m hm; exact hall m ((hiff m).mpr hm)
    · intro hc m hm; exact hc m ((hiff m).mp hm)

/-- **closed under the fields**: a type that carries the derive has no rejected field type, and every item its field types
mention carries the derive too — which is what the expansion of `#[derive]` needs of the field types. -/
theorem canDerive_closed (g : DDoc) (hash : Bool) (n : Nat) (h : CanDerive g hash n) :
    badAt g hash n = false ∧ ∀ p ∈ dsucc g n, CanDerive g hash p := by
  refine ⟨h n (.refl n), fun p hp m hm => h m (.step hp hm)⟩

/-- **maximal**: an item without the derive reaches a rejected field type — the derive would not compile there. -/
theorem not_canDerive_has_witness (g : DDoc) (hash : Bool) (n : Nat) (b : Bool) (h : canDeriveB g hash n = some b) (hb : b = false) :
    ∃ m, Reach (dsucc g) n m ∧ badAt g hash m = true := by
  have hiff := canDeriveB_iff g hash n b h
  have : ¬ CanDerive g hash n := fun hc => by rw [hiff.mpr hc] at hb; cases hb
  unfold CanDerive at this
  apply Classical.byContradiction
  intro hne
  apply this
  intro m hm
  cases hbm : badAt g hash m with
  | false => rfl
  | true => exact absurd ⟨m, hm, hbm⟩ hne

/-- `Hash, Eq, Ord` is never given where `PartialOrd` is refused -/
theorem hash_implies_partialOrd (g : DDoc) (n : Nat) (h : CanDerive g true n) : CanDerive g false n := by
  intro m hm
  have := h m hm
  unfold badAt at this ⊢
  cases hg : g[m]? with
  | none => rfl
  | some it =>
    simp only [hg] at this ⊢
    unfold rejects at this ⊢
    rw [List.any_eq_false] at this ⊢
    intro f hf
    have := this f hf
    simp at this ⊢
    exact this.1

end Pilota.Build
