/-
  pilota-build's type graph and the decisions taken from it (middle/type_graph.rs `TypeGraph::from_items`,
  `is_nested`; plugin/mod.rs `BoxedPlugin`): which struct fields are emitted as `Box<T>`.

  Items are numbered in declaration order (the index plays the role of the `DefId`).  A field type is seen by the
  graph as a DIRECT path to another item (`ty::Path`, also when the field is optional: optionality is an attribute of
  the field, not of the type), or as anything else (base types and containers: `Vec` / `AHashMap` / … put their
  elements on the heap and add no edge).  Edges: message → its direct-path fields, enum (a Thrift union) → the
  direct-path types of its variants, newtype (typedef) → its direct-path target.
-/
namespace Pilota.Build

inductive GKind where
  | message | union | newtype
  deriving DecidableEq, Repr

inductive GTy where
  | path (n : Nat)
  | other
  deriving DecidableEq, Repr

structure GItem where
  kind : GKind
  fields : List GTy
  deriving Repr

abbrev GDoc := List GItem

def directPaths (fs : List GTy) : List Nat :=
  fs.filterMap fun | .path n => some n | .other => none

/-- out-neighbours of item `a` in the type graph -/
def succ (g : GDoc) (a : Nat) : List Nat :=
  match g[a]? with
  | some it => directPaths it.fields
  | none => []

/-- `has_path_connecting(a, b)`: a walk of length ≥ 0 -/
inductive Reach (sc : Nat → List Nat) : Nat → Nat → Prop where
  | refl (a : Nat) : Reach sc a a
  | step {a b c : Nat} : b ∈ sc a → Reach sc b c → Reach sc a c

theorem Reach.trans {sc : Nat → List Nat} {a b c : Nat} (h1 : Reach sc a b) (h2 : Reach sc b c) : Reach sc a c := by
  induction h1 with
  | refl => exact h2
  | step hm _ ih => exact .step hm (ih h2)

theorem Reach.single {sc : Nat → List Nat} {a b : Nat} (h : b ∈ sc a) : Reach sc a b := .step h (.refl b)

theorem Reach.mono {sc sc' : Nat → List Nat} (hs : ∀ a b, b ∈ sc a → b ∈ sc' a) {a b : Nat} (h : Reach sc a b) : Reach sc' a b := by
  induction h with
  | refl => exact .refl _
  | step hm _ ih => exact .step (hs _ _ hm) ih

/-! ### executable reachability: saturate, then CHECK that the set is closed (no pigeonhole argument is needed:
a run that has not reached its fixpoint within the budget answers `none`) -/

def addNew (seen : List Nat) : List Nat → List Nat
  | [] => seen
  | x :: xs => if seen.contains x then addNew seen xs else addNew (seen ++ [x]) xs

def expand (sc : Nat → List Nat) (seen : List Nat) : List Nat := addNew seen (seen.flatMap sc)

def saturate (sc : Nat → List Nat) : Nat → List Nat → List Nat
  | 0, seen => seen
  | f+1, seen => saturate sc f (expand sc seen)

def closedUnder (sc : Nat → List Nat) (c : List Nat) : Bool := c.all fun a => (sc a).all fun b => c.contains b

def reachSet (sc : Nat → List Nat) (budget : Nat) (a : Nat) : Option (List Nat) :=
  let c := saturate sc budget [a]
  if closedUnder sc c then some c else none

theorem subset_addNew (seen xs : List Nat) : ∀ x ∈ seen, x ∈ addNew seen xs := by
  induction xs generalizing seen with
  | nil => intro x h; exact h
  | cons y ys ih =>
    intro x h
    simp only [addNew]
    split
    · exact ih seen x h
    · exact ih (seen ++ [y]) x (by simp [h])

theorem mem_addNew (seen xs : List Nat) : ∀ x ∈ addNew seen xs, x ∈ seen ∨ x ∈ xs := by
  induction xs generalizing seen with
  | nil => intro x h; exact .inl h
  | cons y ys ih =>
    intro x h
    simp only [addNew] at h
    split at h
    · rcases ih seen x h with h | h
      · exact .inl h
      · exact .inr (by simp [h])
    · rcases ih (seen ++ [y]) x h with h | h
      · simp at h; rcases h with h | h
        · exact .inl h
        · exact .inr (by simp [h])
      · exact .inr (by simp [h])

theorem subset_saturate (sc : Nat → List Nat) (f : Nat) (seen : List Nat) : ∀ x ∈ seen, x ∈ saturate sc f seen := by
  induction f generalizing seen with
  | zero => intro x h; exact h
  | succ f ih => intro x h; exact ih _ x (subset_addNew _ _ x h)

/-- soundness: everything in the saturated set is reachable from a seed -/
theorem saturate_sound (sc : Nat → List Nat) (a : Nat) (f : Nat) (seen : List Nat) (hs : ∀ x ∈ seen, Reach sc a x) :
    ∀ x ∈ saturate sc f seen, Reach sc a x := by
  induction f generalizing seen with
  | zero => exact hs
  | succ f ih =>
    apply ih
    intro x hx
    rcases mem_addNew _ _ x hx with h | h
    · exact hs x h
    · simp only [List.mem_flatMap] at h
      obtain ⟨y, hy, hxy⟩ := h
      exact (hs y hy).trans (.single hxy)

/-- completeness: a closed set that contains `a` contains everything reachable from `a` -/
theorem closed_complete (sc : Nat → List Nat) (c : List Nat) (hc : closedUnder sc c = true) {a b : Nat} (h : Reach sc a b) (ha : a ∈ c) : b ∈ c := by
  induction h with
  | refl => exact ha
  | step hm _ ih =>
    apply ih
    simp only [closedUnder, List.all_eq_true] at hc
    have := hc _ ha _ hm
    simpa using this

/-- **the executable answer is the relation** -/
theorem reachSet_iff (sc : Nat → List Nat) (budget a : Nat) (c : List Nat) (h : reachSet sc budget a = some c) (b : Nat) :
    b ∈ c ↔ Reach sc a b := by
  unfold reachSet at h
  simp only at h
  split at h
  · cases h
    rename_i hc
    constructor
    · intro hb
      exact saturate_sound sc a budget [a] (by intro x hx; simp at hx; subst hx; exact .refl _) b hb
    · intro hr
      exact closed_complete sc _ hc hr (subset_saturate sc budget [a] a (by simp))
  · cases h

/-- `TypeGraph::is_nested(a, b)` -/
def isNested (g : GDoc) (a b : Nat) : Option Bool := (reachSet (succ g) (g.length + 1) a).map (·.contains b)

/-- `BoxedPlugin` for field `i` of item `s` (`none`: a search did not reach its fixpoint within the budget). -/
def boxedB (g : GDoc) (s i : Nat) : Option Bool :=
  match g[s]? with
  | some it =>
    match it.kind with
    | .message =>
      match it.fields[i]? with
      | some (GTy.path p) => isNested g p s
      | _ => some false
    | _ => some false
  | none => some false

/-- the decision as a total function -/
def decision (g : GDoc) (s i : Nat) : Bool := boxedB g s i == some true

/-- every (item, field) position of the document -/
def positions (g : GDoc) : List (Nat × Nat) :=
  (List.range g.length).flatMap fun s => match g[s]? with
    | some it => (List.range it.fields.length).map fun i => (s, i)
    | none => []

/-- all searches reached their fixpoint -/
def saturated (g : GDoc) : Bool := (positions g).all fun p => (boxedB g p.1 p.2).isSome

/-- the boxed fields, in document order -/
def boxedFields (g : GDoc) : List (Nat × Nat) := (positions g).filter fun p => decision g p.1 p.2

/-! ### what the decision achieves -/

/-- out-neighbours BY VALUE (not through a `Box`), for a boxing decision `boxed s i` -/
def inlineSucc (g : GDoc) (boxed : Nat → Nat → Bool) (a : Nat) : List Nat :=
  match g[a]? with
  | some it =>
    match it.kind with
    | .message => (List.range it.fields.length).filterMap fun i =>
        match it.fields[i]? with
        | some (GTy.path p) => if boxed a i then none else some p
        | _ => none
    | _ => directPaths it.fields
  | none => []

/-- a boxing decision covers the plugin's rule: a direct-path field whose target reaches back to its owner is boxed -/
def CoversRule (g : GDoc) (boxed : Nat → Nat → Bool) : Prop :=
  ∀ s i it p, g[s]? = some it → it.kind = .message → it.fields[i]? = some (.path p) → Reach (succ g) p s → boxed s i = true

end Pilota.Build
